#!/usr/bin/env python3
"""Mutation trial against a scratch copy of /repo (never touches /repo):
   lib/mutate.py <Cxx> <file relative to repo> <old text> <new text>
copies /repo to .build/repo-mut, replaces the first occurrence of <old text> in the file, runs
`VERIF_REPO=.build/repo-mut ./check <Cxx> --tier quick` and prints the verdict lines. Exit 0 iff the check FAILED
(the mutation was detected)."""
import os, subprocess, sys
ROOT = os.path.dirname(os.path.dirname(os.path.abspath(__file__)))
pid, rel, old, new = sys.argv[1:5]
scratch = os.path.join(ROOT, ".build", "repo-mut")
subprocess.run(["rsync", "-a", "--delete", "--exclude", ".git", "/repo/", scratch + "/"], check=True)
p = os.path.join(scratch, rel)
s = open(p).read()
if old not in s:
    print("mutate: text not found in", rel); sys.exit(2)
open(p, "w").write(s.replace(old, new, 1))
r = subprocess.run([os.path.join(ROOT, "check"), pid, "--tier", "quick"], env=dict(os.environ, VERIF_REPO=scratch),
                   stdout=subprocess.PIPE, stderr=subprocess.STDOUT, text=True)
lines = [l for l in r.stdout.splitlines() if l.startswith(("VIOLATION", "OK ", "impl-", "model-", "proof-", "harness", "facts", "axiom", "driver", "forbidden"))]
print("\n".join(l[:420] for l in lines[-4:]))
print("mutation %s: %s" % (rel, "DETECTED" if r.returncode != 0 else "NOT DETECTED"))
# rebuild the harness from /repo and put the generated facts back in line with it
env = dict(os.environ, GOFLAGS="-mod=mod", GOPROXY="off", GOSUMDB="off", GOTOOLCHAIN="local")
subprocess.run(["go", "build", "-tags", "verif", "-o", os.path.join(ROOT, ".build", "zvh"), "./cmd/zvh"],
               cwd=os.path.join(ROOT, "harness"), env=env, check=True)
subprocess.run([os.path.join(ROOT, ".build", "zvh"), "facts", "--repo", "/repo", "--out", os.path.join(ROOT, "lean", "ZenonVerif", "Gen")],
               stdout=subprocess.DEVNULL, check=True)
sys.exit(0 if r.returncode != 0 else 1)
