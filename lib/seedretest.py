#!/usr/bin/env python3
"""seedretest.py <seed-name> <note> [check ids...] — re-run checks (default: the property's own) against a kept seeded change
(seeded/<name>/patch.diff) through lib/seedtest.sh after a check was strengthened, and update its meta.json: the first result
is kept under `first_run`, `note` says what was strengthened (note "-" = only add the results of further checks)."""
import json, os, re, subprocess, sys
ROOT = os.path.dirname(os.path.dirname(os.path.abspath(__file__)))
name, note = sys.argv[1], sys.argv[2]
keep = os.path.join(ROOT, "seeded", name)
meta = json.load(open(os.path.join(keep, "meta.json")))
checks = sys.argv[3:] or [meta["breaks_property"]]
out = subprocess.run([os.path.join(ROOT, "lib/seedtest.sh"), name, os.path.join(keep, "patch.diff")] + checks,
                     capture_output=True, text=True).stdout
print(out[:1500])
results = dict(meta.get("checks_run", {}))
for c in checks:
    m = re.search(r"^%s rc=(\d+) (.*)$" % c, out, re.M)
    if m:
        line = m.group(2)
        after = out[m.end():].strip().splitlines()
        what = next((l for l in after[:3] if l.startswith(("impl-violates", "model-impl", "proof-obligation", "harness", "axiom", "driver", "facts"))), "")
        results[c] = {"exit": int(m.group(1)), "verdict": "VIOLATION" if "VIOLATION" in line else "OK",
                      "no_failing_input": "no-failing-input-found" in line, "what": what[:500]}
if note != "-" and "first_run" not in meta:
    meta["first_run"] = {"checks_run": meta.get("checks_run", {}), "detected": meta.get("detected"),
                         "detected_with_failing_input": meta.get("detected_with_failing_input")}
if note != "-":
    meta["strengthened"] = note
meta["checks_run"] = results
meta["detected"] = any(r["verdict"] == "VIOLATION" for r in results.values())
meta["detected_with_failing_input"] = any(r["verdict"] == "VIOLATION" and not r["no_failing_input"] for r in results.values())
json.dump(meta, open(os.path.join(keep, "meta.json"), "w"), indent=1)
