#!/bin/bash
# seedtest.sh <name> <patch.diff> <Cxx> [Cyy ...]
# Run checks against a scratch copy of the repository with a seeded change applied, using a scratch copy of /verif,
# so that neither /repo nor /verif is disturbed. Prints one line per check: <id> rc=<exit code> + the VIOLATION line.
set -u
name=$1; patch=$2; shift 2
base=/tmp/vt/$name
rm -rf "$base"; mkdir -p "$base"
git -C /repo worktree add -q --detach "$base/repo" HEAD || exit 3
# untracked verif hook files of builders that are not committed yet
(cd /repo && git ls-files --others --exclude-standard | grep '_verif.go$' | while read f; do mkdir -p "$base/repo/$(dirname $f)"; cp "$f" "$base/repo/$f"; done)
if ! git -C "$base/repo" apply "$patch"; then echo "PATCH-DOES-NOT-APPLY"; git -C /repo worktree remove --force "$base/repo"; exit 3; fi
rsync -a --exclude .git --exclude replays "${VERIF_SRC:-/verif}/" "$base/verif/"
for id in "$@"; do
  out=$(cd "$base/verif" && VERIF_REPO="$base/repo" timeout 3000 ./check "$id" --tier ${SEED_TIER:-quick} 2>&1)
  rc=$?
  echo "$id rc=$rc $(echo "$out" | grep -E '^VIOLATION|^OK ' | head -2 | tr '\n' ' ')"
  echo "$out" | grep -E 'impl-violates|model-impl|proof-obligation|harness' | head -3 | cut -c1-400
  mkdir -p /tmp/vt/logs; echo "$out" > /tmp/vt/logs/$name.$id.log
  [ -d "$base/verif/replays" ] && cp -r "$base/verif/replays" /tmp/vt/logs/$name.$id.replays 2>/dev/null
done
git -C /repo worktree remove --force "$base/repo"
rm -rf "$base"
