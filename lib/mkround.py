#!/usr/bin/env python3
"""mkround.py <tag> — markdown table of the seeded changes of one round (seeded/*-<tag>-*): what was needed, the first
result of the property's checks, the result after strengthening (if any) and what was strengthened."""
import glob, json, os, sys
ROOT = os.path.dirname(os.path.dirname(os.path.abspath(__file__)))
tag = sys.argv[1]
def verdict(cr):
    out = []
    for c, r in sorted(cr.items()):
        v = "caught" if r["verdict"] == "VIOLATION" else "missed"
        if r["verdict"] == "VIOLATION" and r.get("no_failing_input"):
            v = "broken tie only"
        out.append("%s %s" % (c, v))
    return ", ".join(out) or "—"
print("| change | files | needs | first run | after strengthening |")
print("|---|---|---|---|---|")
for d in sorted(glob.glob(os.path.join(ROOT, "seeded", "*-%s-*" % tag))):
    m = json.load(open(os.path.join(d, "meta.json")))
    first = m.get("first_run", {}).get("checks_run") if isinstance(m.get("first_run"), dict) else None
    now = m.get("checks_run", {})
    needs = " ".join((m.get("needs") or "").split())[:230].replace("|", "/")
    files = ", ".join("`%s`" % f for f in m.get("files", []))
    if first is not None:
        a, b = verdict(first), verdict(now) + " — " + " ".join((m.get("strengthened") or "").split())[:300].replace("|", "/")
    else:
        a, b = verdict(now), "—"
    print("| %s | %s | %s | %s | %s |" % (os.path.basename(d), files, needs, a, b))
