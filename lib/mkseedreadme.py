#!/usr/bin/env python3
"""Regenerate seeded/README.md from seeded/*/meta.json."""
import json, os, re
ROOT = os.path.dirname(os.path.dirname(os.path.abspath(__file__)))
S = os.path.join(ROOT, "seeded")
rows = []
for d in sorted(os.listdir(S)):
    mp = os.path.join(S, d, "meta.json")
    if not os.path.exists(mp):
        continue
    m = json.load(open(mp))
    files = ", ".join("`%s`" % f for f in m.get("files", []))
    checks = m.get("checks_run", {})
    caught = []
    for c, r in sorted(checks.items()):
        if r.get("verdict") == "VIOLATION":
            caught.append(c + (" (no failing input: %s)" % r.get("what", "")[:60] if r.get("no_failing_input") else ""))
    missed = [c for c, r in sorted(checks.items()) if r.get("verdict") != "VIOLATION"]
    what = ""
    for c, r in sorted(checks.items()):
        if r.get("verdict") == "VIOLATION" and not r.get("no_failing_input"):
            what = re.sub(r"\s+", " ", r.get("what", ""))[:170]
            break
    hist = m.get("history", "")
    rows.append("| %s | %s | %s | %s | %s | %s |" % (
        d, files, re.sub(r"\s+", " ", m.get("clause", ""))[:160].replace("|", "/"),
        ", ".join(caught) or "—", ", ".join(missed) or "—", (what.replace("|", "/") + (" " + hist if hist else ""))))
out = """# Seeded changes

Each directory holds one realistic change to zenon-network/go-zenon that breaks one of the properties while still compiling
and passing the repository's test suite: `patch.diff` (apply with `git -C /repo apply`, undo with `git -C /repo checkout -- .`),
`demo_test.go` (a Go test that fails with the change and passes without; the header says where it belongs) and `meta.json`
(the clause broken, what is needed to trigger it, what the attacker ran, my confirmation by `lib/seedconfirm.sh`, and the
result of running the named checks against it through `lib/seedtest.sh` in scratch copies). The attackers were fresh
sub-agents that saw only the property text and a scratch worktree of the repository — nothing from /verif. None of these
changes was ever committed in /repo.

`lib/seedpipe.py <Cxx> [checks…]` re-runs confirmation and checks and rewrites `meta.json`. Where a check missed a change
when it was first run, the check was strengthened (generators / monitors, never by special-casing the patch) and the
pipeline re-run; `meta.json` shows the final result, DESIGN.md §10.7 the history.

| seed | files touched | clause | caught by | run but silent | concrete failing input reported |
|---|---|---|---|---|---|
""" + "\n".join(rows) + "\n"
open(os.path.join(S, "README.md"), "w").write(out)
n = len(rows)
det = sum(1 for r in rows if "| — | " not in r.split("|")[4:5][0] + "|" and r.split("|")[4].strip() != "—")
print("seeded/README.md: %d seeds, %d caught" % (n, det))
