"""Per-property configuration of ./check: theorem module, correspondence streams, notes."""

def S(name, nq, nt, **kw):
    d = {"name": name, "n_quick": nq, "n_thorough": nt}
    d.update(kw)
    return d

VDB_RULE = ("vdb stream: one evaluation = one operation (commit on frontier / on a stale parent, pop, open view at a current, "
            "abandoned, unknown, wrong-height or zero id, get, has, ordered prefix scan, put, delete, snapshot, subset, changes, "
            "apply) executed on a real NewLevelDBManager / NewMemDB and replayed through the Lean model; keys share prefixes, "
            "values include empty and [0]; every open view is re-validated in full against a shadow map after later "
            "commits/pops; distinct = distinct (op,result) lines")

LEDGER_RULE = ("ledger stream: one evaluation = one line: an accepted account block of a generated history on a real node "
               "(transfers with boundary amounts and unknown tokens, receives by addressee / third account / repeated, token "
               "issue/mint/burn/update with valid and invalid arguments, calls to every method of every embedded contract "
               "with generated ABI arguments, under 0-3 activated sporks, one history in five below the receiver-enforcement "
               "height) replayed through the Lean ledger model, or a state query after a momentum (every non-zero balance, "
               "every token's supply/max/flags, number of unreceived sends); monitors: conservation sum at every momentum and "
               "every pool state, pending sets, at-most-once receive, inbox FIFO, exact refund; distinct = distinct lines")

PROPS = {
    "C01": {
        "module": "ZenonVerif.Props.C01",
        "streams": [S("ledger", 60, 3000)],
        "rule": LEDGER_RULE,
        "partial": "methods of non-token contracts are parameters of the model (their observed descendant sends are inputs, "
                   "checked for funding and exact refund); genesis consistency (T5) is C20; unconfirmed-pool states and "
                   "rollbacks are covered by the stream's monitor, not by theorems; T3 takes the send-time check "
                   "MaxSupply >= TotalSupply of an issue call as a hypothesis on admissible events (the model does not repeat it "
                   "at receive time)",
        "assumptions": ["hashes are opaque identifiers (collision-free): new send hashes are fresh and descendants pairwise distinct"],
    },
    "C04": {
        "module": "ZenonVerif.Props.C04",
        "streams": [S("ledger", 60, 3000)],
        "rule": LEDGER_RULE,
        "partial": "state-level theorems about the current chain of one node: reorganisation, replacement of unconfirmed "
                   "blocks and restart (DESIGN C04-T5) are not modelled — they are covered by the stream's monitors only; "
                   "the sequencer is modelled as the list of confirmed sends filtered by addressee, not as the stored "
                   "front/back counters; below ReceiverMismatchEnforcementHeight only per-account at-most-once and FIFO hold (F8)",
        "assumptions": ["hashes are opaque identifiers (collision-free): new send hashes are fresh and descendants pairwise distinct"],
    },
    "C09": {
        "module": "ZenonVerif.Props.C09",
        "extra_modules": ["ZenonVerif.Props.C09Abi"],
        "streams": [S("ledger", 60, 3000), S("abi", 4, 400), S("autoreceive", 8, 400, timeout=14400)],
        "rule": LEDGER_RULE + ". abi stream: one evaluation = one call-data byte string through the REAL decoder "
                "(ABIContract.UnpackMethod / UnpackEmptyMethod into a reflection-built target of the argument's Go types) "
                "and through the real ValidateSendBlock of the method object: per round, for every method of every embedded ABI "
                "(and ABICommon) one canonical encoding with generated arguments and 24 hostile mutations (truncated / extended "
                "tails, wrong / zero selector, dirty padding of static words, offsets pointing to themselves / to 0 / to another "
                "argument's data / past the end / 2^31..2^256-1, length words 0 / 1 / l+-1 / huge, element offsets and lengths "
                "inside string[] / bytes[], flipped bytes, whole words replaced, garbage, two mutations combined); result "
                "ok <decoded values> <re-packed bytes> | err | panic compared with the Lean decoder/encoder model; monitors: no "
                "panic, decoder error => ValidateSendBlock error, re-packed data decodes to the same values. autoreceive "
                "stream: one evaluation = one line: call data of a generated call through the decoder (as above), or one "
                "produced contract receive block judged by the Lean definition of 'applied, or refunded exactly with unchanged "
                "storage'; per history one real node under 0/1/2/3 activated sporks with the bridge/liquidity administration, "
                "tokens, deposits, stakes, fusions, projects, HTLCs set up; for every contract x method the generators canonical "
                "valid / boundary integers and strings / valid-but-semantically-wrong (unknown ids, foreign and unknown tokens, "
                "wrong owner, zero and whole-balance amounts) / hostile ABI, each delivered through the template path "
                "(GenerateFromTemplate) and as an externally built, hashed and signed block through the gossip path "
                "(ApplyBlock); the harness then makes the producer's calls itself (GenerateMomentum, then for every contract "
                "SequencerFront + GenerateAutoReceive + insertion, then the contracts' Update calls) under recover; monitors per "
                "accepted send: no panic / no error on the producer path, exactly one receive, status 1 or status 2 with exact "
                "refund and byte-identical contract storage, every inbox empty after the loop",
        "partial": "proved: (ledger model, contract methods as parameters) complete-or-exact-refund with the contract's balance "
                   "delta, the inbox advances by exactly one, the refund of whatever is next in line is always accepted for a "
                   "non-token contract, the token contract always has an accepted outcome when the zero token standard has no "
                   "storage entry; (decoder model) for every byte string and every well-formed argument type list - in "
                   "particular every method and storage variable of every embedded ABI of the working tree - the ABI decoder "
                   "returns a value or an error, never a panic (no slice out of range, no int overflow, no allocation larger "
                   "than the input), selectors are unambiguous; decoding the canonical encoding (what every ValidateSendBlock stores) "
                   "returns exactly the encoded values for every argument list of static elementary types, string, bytes and "
                   "slices of those - every method of every embedded ABI (unpack_pack_partial, flat_signatures, "
                   "receive_decodes_what_send_validated; partial: fixed-size arrays, which no embedded ABI uses, are not "
                   "covered, and the values are assumed to have the arguments' Go types, HasTys). Termination / "
                   "panic-freedom of the Go method bodies (DESIGN C09-T4, T5) is established by the autoreceive stream's "
                   "monitors only (no per-method Lean models). The decoder model bounds slice expressions by len, Go by cap "
                   "(model panic is necessary, not sufficient, for a Go panic). The ledger model's applySend does not run the "
                   "destination contract's method lookup: in Go a refund whose recipient is itself an embedded contract "
                   "(empty call data) is refused by applySend, so refund_always_possible transfers to the code for non-embedded "
                   "senders only; the autoreceive stream watches every contract-to-contract send for that case",
        "assumptions": ["hashes are opaque identifiers (collision-free)",
                        "a Go []byte has at most maxAlloc = 2^48 bytes (runtime invariant on linux/amd64); capacity >= length"],
    },
    "C07": {
        "module": "ZenonVerif.Props.C07",
        "streams": [S("vdb", 400, 20000)],
        "rule": VDB_RULE,
        "partial": "concurrency (readers vs writer) is not modelled: sequential model + mutex/snapshot isolation trusted; "
                   "the l1/l2 caches are not in the model (cache-free reconstruction), the cached code is compared by correspondence; "
                   "historical scans drop empty-valued keys (known finding F3b)",
        "assumptions": ["goleveldb snapshot isolation and memdb thread-safety", "sequential executions only"],
    },
    "C02": {
        "module": "ZenonVerif.Props.C02",
        "streams": [S("sync", 12, 200, timeout=7200)],
        "rule": "sync stream: one evaluation = one line: a momentum's redo patch replayed into the Lean manager model, or the "
                "frontier digest of one follower under one delivery schedule (one-by-one / random batches up to 40 / account "
                "blocks gossiped 0..3 momentums ahead / restarts on the same directory / batches up to 120 with overlaps); per "
                "history one producing node (transfers, receives, token issue/mint/burn, fuse, stake, delegate, refunds, blocks "
                "acknowledging momentums up to 40 below the frontier) and five followers; monitors: every momentum accepted by "
                "every follower, byte-identical frontier key space on all followers and the producer, identical query answers",
        "partial": "that the Go VM is a function of exactly the inputs the model names is established by the multi-node "
                   "correspondence and the nondeterminism-site fact, not by a theorem; map-iteration order inside methods is only sampled",
        "assumptions": ["SHA3 collision freedom (ChangesHash pins the patch)"],
    },
    "C17": {
        "module": "ZenonVerif.Props.C17",
        "streams": [S("spork", 10, 300, timeout=7200)],
        "rule": "spork stream: one evaluation = one line of a scenario on a real node: outcome of a create/activate call "
                "(right key, wrong key, repeated, unknown id), IsSporkActive of every spork on the store of every height, the "
                "unimplemented-spork report on every height, availability of a (contract, method) for a block acknowledging a "
                "momentum within ±2 of an enforcement height (live and against historical momentums); two thirds of the scenarios "
                "activate in the order accelerator/bridge/htlc, the rest in random order, a quarter add an unknown spork; "
                "distinct = distinct lines",
        "partial": "gating is exact only when sporks are enforced in the order accelerator, bridge&liquidity, htlc (known "
                   "finding F17); the case 'activating receive confirmed later than the enforcement height' is excluded by "
                   "hypothesis of gate_by_height's use (state as of the recording momentum) and not reachable on the mock chain; "
                   "'identically on every node' is C02/C07",
    },
    "C08": {
        "module": "ZenonVerif.Props.C08",
        "streams": [S("crash", 25, 1500, timeout=7200)],
        "rule": "crash stream: one evaluation = one commit/rollback of a generated history on a real NewLevelDBManager whose "
                "journal is parsed before/after (write count + batch content replayed against the Lean write plan), plus one "
                "crash image per cut point (journal truncated after write k, reopened with goleveldb and NewLevelDBManager: raw "
                "key space must equal the state before or after; frontier pointer / keys / undo-redo records must agree; the "
                "same and a competing transaction are re-delivered and compared with crash-free runs); distinct = distinct lines",
        "partial": "process death is reproduced at the granularity of leveldb writes (one journal record per Put/Delete/Write); "
                   "durability below leveldb (fsync, power loss, torn journal records) is leveldb's own recovery and is trusted; "
                   "the node-level commit (chain.AddMomentumTransaction) adds no further leveldb write to the ledger database",
        "assumptions": ["goleveldb: one journal record per write call, handed to the OS before the call returns; a batch is atomic w.r.t. process death"],
    },
    "C06": {
        "module": "ZenonVerif.Props.C06",
        "streams": [S("vdb", 400, 20000, arg="mix=pop")],
        "rule": VDB_RULE + "; pop-heavy mix: views are opened before a branch switch and re-read after it",
        "partial": "pool-after-switch and consensus statistics after a switch are covered by the two-node sync stream (C02), not by theorems yet",
    },
    "C05": {
        "module": "ZenonVerif.Props.C05",
        "streams": [S("election", 2000, 40000), S("ticker", 4000, 400000), S("mverify", 40, 300)],
        "rule": "election stream: delegation sets of 1..60 pillars (names: numbered / case variants / prefixes of one "
                "another / arbitrary bytes / realistic; weights: all equal / all zero / few values / ZNN amounts / >64 bit "
                "/ one heavy / distinct) x heights (small, uniform uint64, 2^63 and 2^64 boundaries) x (NodeCount,RandCount) "
                "(live 30/15 in 60% of the cases, small and random groups otherwise) through the real SelectProducers; "
                "distinct = distinct (op,result) lines; every line is evaluated on the real code and on the model, and "
                "the monitors re-run the real code on a permuted copy of the input. ticker stream: ToTick/ToTime at tick "
                "boundaries +-1 s, before the start, beyond the 292-year int64 range, generateProducers/genProofTime for live and "
                "random (BlockTime,NodeCount). mverify stream: n rounds on a real mock chain (slots and whole ticks skipped, "
                "delegations and balances changing); per round the valid next momentum and ~50 variants (every single-field "
                "mutation, the same re-hashed and re-signed by the elected pillar, re-timed, signed by a non-elected pillar or a "
                "user, content dropped/duplicated/reordered) judged by the real Supervisor.ApplyMomentum and by the model, plus "
                "GetMomentumBeforeTime at every timestamp +-1 s against the specification and the loop model, plus "
                "GetMomentumProducer for all slots of two ticks on the caching instance and on a cold instance",
        "partial": "rand.Perm and sort.Sort are parameters (any permutation / any sorted permutation); hashes, ed25519 and the "
                   "momentum VM are oracle values; GetMomentumBeforeTime = specification is proved for whole-second instants "
                   "(all callers) and only as partial correctness for sub-second instants (the real loop can spin there: "
                   "before_time_subsecond_hangs); ToTick is modelled for whole-second instants only (Duration.Seconds() is a "
                   "float; the last nanosecond of a tick rounds up for chains older than 194 days - counted by the ticker "
                   "stream, not judged); the ticker theorems hold within 292 years of genesis (int64 ns Duration; negative "
                   "witness ticker_wraps_after_292_years); ComputePillarDelegations (weights from balances) is taken from the real code; schedule equality after "
                   "restart / reorganisation across nodes is left to the sync stream (C06/C16)",
        "assumptions": ["math/rand.Perm returns a permutation of 0..n-1 (checked by the driver on every shipped oracle value)",
                        "sort.Sort returns a sorted permutation of its input"],
    },
    "C12": {
        "module": "ZenonVerif.Props.C12",
        "streams": [S("pow", 20000, 1000000)],
        "rule": "pow stream: boundary set + random uint64 difficulties (a sixth each: boundary, small, 2^k±2, top-bit set, "
                "shifted, uniform), 8-byte comparisons (equal / one-bit apart / random), fused amounts around unit and cap "
                "boundaries; distinct = distinct (op,result) lines; every line is evaluated on the real code and the model",
        "partial": "SHA3 is a parameter (hash prefix supplied as input); enoughPlasma decision on ledger states is tied by "
                   "the plasma stream once the mock-node harness is attached",
        "assumptions": ["SHA3-256 is an uninterpreted parameter of checkPoWNonce"],
    },
    "C18": {
        "module": "ZenonVerif.Props.C18",
        "streams": [S("paging", 30000, 2000000)],
        "rule": "paging stream: (index,count,len) over the full uint32 range with boundary bias + complete page sweeps of "
                "random lists; distinct = distinct (op,result) lines",
        "partial": "JSON-RPC server robustness and the ~80 embedded getters are runtime/correspondence only",
    },
    "C14": {
        "module": "ZenonVerif.Props.C14",
        "streams": [S("prio", 20000, 1000000), S("filter", 4000, 200000), S("pool", 400, 30000),
                    S("pool-batch", 60, 3000, driver=False)],
        "rule": "prio stream: all ordered pairs of boundary (TotalPlasma, BasePlasma) values incl. 0 and the caps, then random "
                "pairs (equal ratios, same plasma, same hash, hashes one bit apart, zero plasma, full uint64 range so the "
                "products wrap, in-range), each evaluated in both directions on chain.higherPriority and on the model, plus "
                "folds of 2-7 competitors in two random arrival orders; filter stream: block-type strings up to 300 long "
                "(uniform types, contract batches incl. runs of 90-120 ContractSends, user blocks with batches, mostly "
                "sends) through accountPool.filterBlocksToCommit and the model; pool stream: sequences of 5-34 operations on a real "
                "chain.NewAccountPool for one address (add on top, competitor for a pooled height with equal/better/random "
                "plasma, duplicates, competitor of a confirmed block, non-linking blocks, forced adds, momentum confirming "
                "a prefix of the pool / a competitor / nothing, momentum rollback), after every operation the frontier and "
                "the uncommitted blocks are compared with the Lean state machine; pool-batch stream (monitors only): a contract "
                "receive with 0-3 descendant blocks pooled across a momentum, and 2-6 addresses rebuilt by one momentum that "
                "forks some of them; distinct = distinct (op,result) lines",
        "partial": "data-race freedom / readers never observing a half-applied block are runtime properties of Go's memory "
                   "model, not theorems; the pool state machine (model and stream) covers one address and one-block transactions; "
                   "contract receives with descendant blocks are covered by the pool-batch monitors only; independence of the "
                   "addresses in rebuild is the regenerated fact rebuild_no_early_return plus the pool-batch multi-address monitor",
        "assumptions": ["accepted user blocks carry TotalPlasma <= MaxPlasmaForAccountBlock and 0 < BasePlasma <= "
                        "AccountBlockBasePlasma + ABByteDataPlasma*MaxDataLength (vm.enoughPlasma); blocks of embedded "
                        "addresses carry TotalPlasma = BasePlasma = 0"],
    },
    "C11": {
        "module": "ZenonVerif.Props.C11",
        "streams": [S("rewards-pure", 20000, 300000)],
        "rule": "rewards-pure stream: the vm/constants reward lookups on every epoch 0..400, tick boundaries up to 2^64-1 and "
                "random epochs; getWeightedStake / getWeightedLiquidityStake / getWeightedSentinel on entries starting or "
                "revoked before, at the edges of, inside and after the epoch window (incl. the 90% sentinel threshold); "
                "computePillarRewardForEpoch on random epoch statistics (1-100 pillars, missed slots, zero expected, zero "
                "total weight, a twelfth each invalid: produced > expected, total weight below the sum); and the contract "
                "functions computeStakeRewardsForEpoch / computeSentinelRewardsForEpoch / computeDetailedPillarReward / "
                "computeLiquidityStakeRewardsForEpoch (token tuples, additional reward, a fifteenth with percentages above 100%) run on "
                "an in-memory contract storage with generated entries, pillars, give-percentages and backers, reading back "
                "the RewardDeposit of every address; distinct = distinct (op,result) lines",
        "partial": "T4 epoch cursor / exactly-once per epoch, T5 collect-once and 'identical on all nodes' need the mock-node "
                   "and two-node streams (not part of this check yet); premises produced<=expected, sum of weights <= total weight, sum expected <= MomentumsPerEpoch "
                   "are consensus facts (C05) taken as hypotheses",
        "assumptions": ["epoch statistics satisfy produced_i <= expected_i and sum of pillar weights <= TotalWeight",
                        "epoch windows are unix seconds with |t| <= 2^62 (int64 subtraction does not wrap)",
                        "pillar give-percentages are <= 100 (checkPillarPercentages)"],
    },
}
