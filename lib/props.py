"""Per-property configuration of ./check: theorem module, correspondence streams, notes."""

def S(name, nq, nt, **kw):
    d = {"name": name, "n_quick": nq, "n_thorough": nt}
    d.update(kw)
    return d

VDB_RULE = ("vdb stream: one evaluation = one operation (commit on frontier / on a stale parent, pop, open view at a current, "
            "abandoned, unknown, wrong-height or zero id, get, has, ordered prefix scan, put, delete, snapshot, subset, changes, "
            "apply) executed on a real NewLevelDBManager / NewMemDB and replayed through the Lean model; keys share prefixes, "
            "values include empty and [0]; key alphabets by coordinates: in root coordinates the EMPTY key, single bytes incl. "
            "the internal prefix bytes of the leveldb layout and their neighbours (0x54..0x56, 0x66, 0x77) and 0xff, 0xff runs, "
            "else (3|4)·{00,01,03,04,ff}*; inside Subset windows (also through snapshots of them) the empty relative key (= the "
            "record stored under the bare prefix), 00 / ff runs, single bytes 0..2, tails that are prefixes of one another; scan "
            "and Subset prefixes include the empty prefix, a prefix equal to a generated key and proper prefixes of keys (the "
            "scan of everything in root coordinates is compared without the store's bookkeeping entries: vdb-scanu); every open view is re-validated in full against a shadow map after later "
            "commits/pops; scans are taken as the store's iterator delivers them (nothing filtered by the harness) and every "
            "scan of every view (frontier, historical, snapshot, subset) is checked model-free against Get/Has of the same "
            "view on every key the sequence ever generated — no present key missing, no absent key listed, ascending order — "
            "and against the shadow; every 40th sequence a directed scenario delivers the inputs of the two repaired scan "
            "defects (key holding the empty value at X scanned from below the frontier, 734ff49; keys created after X / rolled "
            "back scanned at X and at the frontier, 522bff7) with random keys, through views, snapshots with own writes and "
            "subsets; every 10th sequence a directed prefix-family scenario: for a prefix p (empty / one byte / internal prefix "
            "byte / 0xff / random) the keys p, p·00, p·00·00, p·ff, p·ff·ff, p·01 and the neighbours of p on both sides present or "
            "absent at X, then overwritten / deleted / created / re-created at X+1 (and X+2) and again through the upper layer of "
            "every layered view — the view at X below the frontier, the frontier, Subset(p), Subset(p).Snapshot() and a snapshot "
            "of that with the empty key overwritten / deleted / deleted-and-re-created / given the empty value / left alone, "
            "Snapshot() with p written the same way and Subset(p) of it, the same after popping back to X and under a new "
            "frontier — each read on every candidate key and scanned under the empty prefix, under p (prefix == key), the members "
            "of the family and, inside the windows, under '', 00, 00·00, ff, ff·ff, 01; distinct = distinct (op,result) lines")
VDB_MEM_RULE = ("; vdb-mem stream: the in-memory manager db.NewMemDBManager (the per-account store of the unconfirmed pool) over an "
                "empty root or a root database that already holds 1-3 versions, driven through the same operations (commit on "
                "the frontier - one time in four re-committing an identifier that was popped before -, pop, views at current / "
                "popped / unknown / wrong-height identifiers, get, has, scan, put, delete) printed in the vdb line formats and "
                "replayed through the same Lean manager model; commits on stale / abandoned / unknown parents and pops at a "
                "non-empty root are judged by monitors only; after EVERY operation GetPatch and Get are asked for every "
                "identifier the sequence ever used: a version of the current chain above the root has a patch that replays "
                "over its predecessor to its contents, every other identifier (popped, never committed, wrong height, the root, "
                "zero) answers nil - like an unknown one")

LEDGER_RULE = ("ledger stream: one evaluation = one line: an accepted account block of a generated history on a real node "
               "(transfers with boundary amounts and unknown tokens, receives by addressee / third account / repeated, token "
               "issue/mint/burn/update with valid and invalid arguments, calls to every method of every embedded contract "
               "with generated ABI arguments, under 0-3 activated sporks, one history in five below the receiver-enforcement "
               "height) replayed through the Lean ledger model, or a state query after a momentum (every non-zero balance, "
               "every token's supply/max/flags, number of unreceived sends); monitors: conservation sum at every momentum and "
               "every pool state, pending sets, at-most-once receive, inbox FIFO, exact refund; distinct = distinct lines")

VERIFY_RULE = ("verify stream: one evaluation = one candidate account block handed to the real vm.Supervisor.ApplyBlock on a "
               "reachable state of a real node (generated history of transfers, receives, contract calls, pooled blocks, "
               "momentums; one history in six below the receiver-enforcement height). Candidates per base block (fresh user "
               "send / user receive / send to a contract, pooled user block and pooled contract receive with and without "
               "descendant blocks re-delivered, confirmed block re-delivered): the valid block, every single-field mutation "
               "(~150: each field zero/+-1/max/boundary/copied from another block/foreign hash/wrong or older predecessor/"
               "acknowledged momentum zero, unknown, older, non-frontier/amount -1, 2^255-1, 2^255, balance+1/receives of "
               "received, unknown, third-party sends/PoW with bad nonce/plasma too high/data > 16 KiB/type 0,1,4,5,6/...) "
               "each with the hash left alone and with hash recomputed + re-signed by the legitimate key, 16 key/signature "
               "mutations, the same mutations inside descendant blocks, and 24 sampled double mutations; the line carries "
               "the block's verifier-relevant fields and the context facts gathered by independent reads of the stores; "
               "the Lean model must give the same verdict AND the same reason; monitor: the property's sentence "
               "re-implemented from the statement, evaluated on every accepted candidate; distinct = distinct lines")

CONTRACT_RULE = ("contract stream: one evaluation = one line: a contract receive of a generated history on a real node (decoded call, "
                 "sender, amount/token, the frontier momentum it saw, oracle inputs such as preimage digests / signature check / "
                 "configured token pair, observed status and descendant sends) replayed through the Lean state machine of that "
                 "contract which predicts status and payouts, or a storage / balance query after a momentum (every entry read "
                 "through the definition.* getters for the contracts touched in that momentum, per-contract digests and balances "
                 "at every momentum) answered from the model state; contracts: plasma, stake, htlc, pillar, sentinel (+ QSR "
                 "deposits), liquidity stakes, bridge unwrap/redeem; calls are built by contract-specific generators (valid flows, "
                 "wrong owner, too early / exactly at / just after maturity or window edges, repeated, unknown id, wrong "
                 "token/amount/duration/preimage/signature, proxy unlock allowed/denied; htlc secrets whose length is at / next to "
                 "the entry's KeyMaxSize, 0, 255 / 256 / 257, twice the maximum, up to the call-data limit, and k*256 + j with "
                 "j <= KeyMaxSize - lengths that fit only modulo 2^8 - locked under their real digest and presented before "
                 "expiry; pillar names of length 1, max-1, max, max+1, 2*max, 255..257, 256+j); five histories in six run with shortened "
                 "lock periods (the constants are package variables), one in six with the production values; two thirds run under "
                 "the accelerator+bridge+htlc sporks, of those half with the liquidity and half with the bridge administrator "
                 "setup; monitors: sum of recorded liabilities <= balance per contract and token at every momentum, every payout "
                 "goes to the entitled party with the locked amount not before maturity and never twice, storage agrees with the "
                 "log of confirmed deposits, matured withdrawals are not refused, refunds exact; distinct = distinct lines")

PROPS = {
    "C10": {
        "module": "ZenonVerif.Props.C10",
        "streams": [S("contract", 60, 600)],
        "rule": CONTRACT_RULE,
        "partial": "reward bookkeeping (Update / CollectReward), legacy pillar registration, liquidity administration and "
                   "reward pools enter the replay as observed outcomes and are outside the liability sums; for liquidity only "
                   "LiquidityStake / CancelLiquidityStake / BurnZnn are modelled and backing holds only without BurnZnn/Fund "
                   "(known finding F14); for the bridge only UnwrapToken / Redeem / RevokeUnwrapRequest are modelled, with the "
                   "configuration reads (may-act, token pair found) and the TSS signature check as oracle inputs computed by the "
                   "harness from the real storage / real CheckECDSASignature; wrap requests, fees, halting and key management are "
                   "observed outcomes only; stake entries deleted by a reward epoch are not reached (first epoch only); the "
                   "theorems are per contract (no joint theorem over interleavings with unmodelled methods)",
        "assumptions": ["send-block hashes are collision-free (fresh ids)", "every amount is below 2^256 (token max supply is 2^255-1)",
                        "timestamps and heights stay below 2^62 (no int64/uint64 wrap-around)",
                        "SHA3-256 / SHA-256 (htlc) and secp256k1 recovery (bridge) are parameters / oracle inputs",
                        "frontier time is never 0 (pillar revoke; genesis is in 2001)"],
    },
    "C01": {
        "module": "ZenonVerif.Props.C01",
        "streams": [S("ledger", 60, 3000), S("genesis", 24, 600, timeout=7200)],
        "rule": LEDGER_RULE + ". C01 in particular: (a) hostile numeric fields - in every history one burst of 8 and further "
                "random bursts of user sends whose amount is -a / -1 / -balance / -(balance+1) / -2^254 / -(2^255-1) / -2^255 / "
                "-2^256 / 2^255-1 / 2^255 / 2^256-1 / 2^256 / 2^256+-a / balance / balance+1 / 0, delivered through EVERY "
                "acceptance path in rotation: Supervisor.GenerateFromTemplate, a block completed and signed by hand -> ApplyBlock, "
                "the same through the protobuf wire form, through nom.AccountBlock JSON and through the RPC parameter type "
                "api.AccountBlock JSON -> LedgerApi.PublishRawTransaction on an in-process API object; in the JSON forms the "
                "amount TEXT is altered (plain, +/- sign, zero padding, -0, spaces, decimal point, exponent, hex, empty, lone / "
                "double / unicode minus, underscores, JSON number) and the nonce text (upper case, short, long, empty, 0x, not "
                "hex), the real decoder decides what the text means and hash + signature are made for THAT block (the hash "
                "covers only |amount|); after every attempt the pool-state conservation monitor runs, an accepted block is read "
                "back from the ledger (the in-flight amount is the recorded one) and must have changed its own account's "
                "balances by exactly the recorded amount of the recorded token (send: debit, receive: credit) - for every "
                "accepted user block of the stream; (b) supply-change monitor at every momentum: recorded supply of every token "
                "changed by exactly the sum of the token-contract issue / mint / burn calls APPLIED in that momentum - a refused "
                "mint leaves it unchanged; (c) one history in four runs on a mock genesis with MaxSupply = TotalSupply + delta "
                "for ZNN and QSR (delta in rotation 0, 1, E-1, E, E+1, 2E-1, 2E, 2E+1, E+part, a few units, kE+-1, far; E = the "
                "first epoch's liquidity reward), ten-minute reward epochs, a stake and a sentinel set up, 135 further momentums "
                "with CollectReward calls of pillars / staker / sentinel owner to all four rewarding contracts and user Mint "
                "calls for ZNN / QSR: contract reward mints (liquidity at the epoch update, CollectReward) meet the cap, supply <= "
                "max at every momentum; issued tokens get caps total + 0..999 and mints of 1..500 as before; (d) genesis stream "
                "(shared with C20, n = 24 here): every configuration the real CheckGenesis ACCEPTS (generated, permuted, "
                "perturbed - including six kinds around declared-but-unheld tokens: mintable / fixed x zero / non-zero supply "
                "appended, an issued token whose holders are removed or all hold zero) is started on a fresh chain and the "
                "equality is read from that chain alone: for every token the token contract records, TotalSupply = sum of the "
                "balances of all accounts + unreceived sends <= MaxSupply, nobody holds an unrecorded token",
        "partial": "methods of non-token contracts are parameters of the model (their observed descendant sends are inputs, "
                   "checked for funding and exact refund); genesis consistency (T5) is C20 (its stream also runs here with the "
                   "C01 equality on every started chain); mints by the bridge (Redeem of wrapped tokens) are not driven to a "
                   "cap (needs a signing orchestrator set-up); unconfirmed-pool states and "
                   "rollbacks are covered by the stream's monitor, not by theorems; T3 takes the send-time check "
                   "MaxSupply >= TotalSupply of an issue call as a hypothesis on admissible events (the model does not repeat it "
                   "at receive time)",
        "assumptions": ["hashes are opaque identifiers (collision-free): new send hashes are fresh and descendants pairwise distinct"],
    },
    "C04": {
        "module": "ZenonVerif.Props.C04",
        "streams": [S("ledger", 60, 3000), S("verify", 20, 400)],
        "rule": LEDGER_RULE,
        "partial": "state-level theorems about the current chain of one node: reorganisation, replacement of unconfirmed "
                   "blocks and restart (DESIGN C04-T5) are not modelled — they are covered by the stream's monitors only; "
                   "the sequencer is modelled as the list of confirmed sends filtered by addressee, not as the stored "
                   "front/back counters; below ReceiverMismatchEnforcementHeight only per-account at-most-once and FIFO hold (F8)",
        "assumptions": ["hashes are opaque identifiers (collision-free): new send hashes are fresh and descendants pairwise distinct"],
    },
    "C09": {
        "module": "ZenonVerif.Props.C09",
        "extra_modules": ["ZenonVerif.Props.C09Abi"],
        "streams": [S("ledger", 60, 3000), S("abi", 4, 400), S("autoreceive", 8, 400, timeout=14400)],
        "rule": LEDGER_RULE + ". abi stream: one evaluation = one call-data byte string through the REAL decoder "
                "(ABIContract.UnpackMethod / UnpackEmptyMethod into a reflection-built target of the argument's Go types) "
                "and through the real ValidateSendBlock of the method object: per round, for every method of every embedded ABI "
                "(and ABICommon) one canonical encoding with generated arguments and 24 hostile mutations (truncated / extended "
                "tails, wrong / zero selector, dirty padding of static words, offsets pointing to themselves / to 0 / to another "
                "argument's data / past the end / 2^31..2^256-1, length words 0 / 1 / l+-1 / huge, element offsets and lengths "
                "inside string[] / bytes[], flipped bytes, whole words replaced, garbage, two mutations combined); result "
                "ok <decoded values> <re-packed bytes> | err | panic compared with the Lean decoder/encoder model; monitors: no "
                "panic, decoder error => ValidateSendBlock error, re-packed data decodes to the same values. autoreceive "
                "stream: one evaluation = one line: call data of a generated call through the decoder (as above), or one "
                "produced contract receive block judged by the Lean definition of 'applied, or refunded exactly with unchanged "
                "storage'; per history one real node under 0/1/2/3 activated sporks with the bridge/liquidity administration, "
                "tokens, deposits, stakes, fusions, projects, HTLCs set up; for every contract x method the generators canonical "
                "valid / boundary integers and strings / valid-but-semantically-wrong (unknown ids, foreign and unknown tokens, "
                "wrong owner, zero and whole-balance amounts) / hostile ABI, each delivered through the template path "
                "(GenerateFromTemplate) and as an externally built, hashed and signed block through the gossip path "
                "(ApplyBlock); the harness then makes the producer's calls itself (GenerateMomentum, then for every contract "
                "SequencerFront + GenerateAutoReceive + insertion, then the contracts' Update calls) under recover; monitors per "
                "accepted send: no panic / no error on the producer path, exactly one receive, status 1 or status 2 with exact "
                "refund and byte-identical contract storage, every inbox empty after the loop, and a periodic Update call fails only "
                "with its own refusal reasons (too recent / amount / accelerator ended), never with an error out of the reward "
                "arithmetic. Boundary-integer sweep (one history under all sporks; thorough: under every regime): for every "
                "method x every integer argument (scalars, slice elements) one call per value of the family 0, 1, 2, "
                "2^k-1 / 2^k / 2^k+1 for k = 7, 8, 15, 16, 31, 32, 62, 63, 64, 127, 128, 254, 255, 256, c-1 / c / c+1 for every "
                "numeric bound c of vm/constants (amount bounds for uint256 arguments, duration / percentage / count / "
                "enumeration bounds for the narrow types; read from the tree under test), the ends of the argument's own "
                "type, and b-1 / b / b+1 for the balances and token supplies (total, max, max - total) the receive compares "
                "with; the same values on all integer arguments at once (total = max supply); on the block's Amount in the "
                "canonical token; and the upper end of the family as Amount in a token of maximal supply "
                "(total = max = TokenMaxSupplyBig) held by the sender, for every method; Mint / Burn / UpdateToken also on a "
                "mintable token of maximal supply. The random boundary generators of all C09 streams draw from the same "
                "family. Degenerate-epoch scenario (compressed calendar, two histories): reward epochs of the pillar, "
                "sentinel, stake, liquidity and accelerator contracts are reached - with the producer's Update calls - "
                "while a pillar's only backer owns no ZNN, weighted and weightless backers side by side, a pillar without "
                "backers, a backer with one base unit, nobody delegating (total weight 0), a registered pillar that never "
                "produces, a sentinel registered mid-epoch, the only sentinel / stake / liquidity stake revoked, a revoked "
                "pillar with remaining delegators; coverage counters read the reached states back from the consensus layer",
        "partial": "proved: (ledger model, contract methods as parameters) complete-or-exact-refund with the contract's balance "
                   "delta, the inbox advances by exactly one, the refund of whatever is next in line is always accepted for a "
                   "non-token contract, the token contract always has an accepted outcome when the zero token standard has no "
                   "storage entry; (decoder model) for every byte string and every well-formed argument type list - in "
                   "particular every method and storage variable of every embedded ABI of the working tree - the ABI decoder "
                   "returns a value or an error, never a panic (no slice out of range, no int overflow, no allocation larger "
                   "than the input), selectors are unambiguous; decoding the canonical encoding (what every ValidateSendBlock stores) "
                   "returns exactly the encoded values for every argument list of static elementary types, string, bytes and "
                   "slices of those - every method of every embedded ABI (unpack_pack_partial, flat_signatures, "
                   "receive_decodes_what_send_validated; partial: fixed-size arrays, which no embedded ABI uses, are not "
                   "covered, and the values are assumed to have the arguments' Go types, HasTys). Termination / "
                   "panic-freedom of the Go method bodies (DESIGN C09-T4, T5) is established by the autoreceive stream's "
                   "monitors only (no per-method Lean models). The decoder model bounds slice expressions by len, Go by cap "
                   "(model panic is necessary, not sufficient, for a Go panic). The ledger model's applySend does not run the "
                   "destination contract's method lookup: in Go a refund whose recipient is itself an embedded contract "
                   "(empty call data) is refused by applySend, so refund_always_possible transfers to the code for non-embedded "
                   "senders only; the autoreceive stream watches every contract-to-contract send for that case",
        "assumptions": ["hashes are opaque identifiers (collision-free)",
                        "a Go []byte has at most maxAlloc = 2^48 bytes (runtime invariant on linux/amd64); capacity >= length"],
    },
    "C03": {
        "module": "ZenonVerif.Props.C03",
        "streams": [S("verify", 60, 2500), S("ledger", 24, 600)],
        "rule": VERIFY_RULE + "; ledger stream (shared with C01/C04): the context facts the verifier reads are themselves checked "
                "against the history — every send is received at most once and only by its addressee whatever its amount and token "
                "(data-only and zero-amount sends, receives of contract-addressed sends, repeated receives in the same and in later momentums)",
        "partial": "SHA3/Ed25519/PoW hash, the embedded method table (plasma, ValidateSendBlock) and the regeneration of "
                   "contract blocks are oracle facts supplied by the harness from the real functions; descendant blocks of receive type are outside the model "
                   "(MODEL-GAP, never produced by the node); that the regenerated descendant blocks pass the nine checks "
                   "is assumed (they are the node's own), that they are the ones kept is an AST fact (fix 48b97c9, F20b)",
        "assumptions": ["SHA3-256 and Ed25519 are oracle booleans (hash matches, signature verifies, key maps to address)",
                        "the node's stores answer the context facts consistently (the facts are inputs of the model)"],
    },
    "C07": {
        "module": "ZenonVerif.Props.C07",
        "streams": [S("vdb", 400, 20000), S("vdb-mem", 400, 20000)],
        "rule": VDB_RULE + VDB_MEM_RULE,
        "partial": "concurrency (readers vs writer) is not modelled: sequential model + mutex/snapshot isolation trusted; "
                   "the l1/l2 caches are not in the model (cache-free reconstruction), the cached code is compared by correspondence "
                   "(scan theorems at full strength since 734ff49: former finding F3b, historical scans dropping empty-valued keys, is fixed)",
        "assumptions": ["goleveldb snapshot isolation and memdb thread-safety", "sequential executions only"],
    },
    "C02": {
        "module": "ZenonVerif.Props.C02",
        "streams": [S("sync", 12, 200, timeout=7200), S("sync-batches", 300, 6000, timeout=3000)],
        "rule": "sync stream: one evaluation = one line: a momentum's redo patch replayed into the Lean manager model, or the "
                "frontier digest of one follower under one delivery schedule (one-by-one / random batches up to 40 / account "
                "blocks gossiped 0..3 momentums ahead / restarts on the same directory / batches up to 120 with overlaps); per "
                "history one producing node (transfers, receives, token issue/mint/burn, fuse, stake, delegate, refunds, blocks "
                "acknowledging momentums up to 40 below the frontier) and five followers; monitors: every momentum accepted by "
                "every follower, byte-identical frontier key space on all followers and the producer, identical query answers; a sixth "
                "follower receives, before each batch, a competing block (same account, same height, other content, signed on the "
                "follower itself) for accounts whose next block the batch confirms; every sixth history is the deep scenario: > 360 "
                "momentums, views at 19 heights (near/far cache boundary ±1) materialised on a follower, blocks pooled on the producer's "
                "head, the head replaced by a two-momentum branch through InsertChain, then every view compared warm / after restart / "
                "on a cold node that only saw the final chain; sync-batches stream (shared with C06/C16): followers that went through "
                "refused batches, rollbacks and chain switches (also across an election tick and an EPOCH end — the stream runs on "
                "epochs of ten minutes and the switching branch leaves a slot empty) compared with a fresh node that only received their "
                "final chain: ledger state byte for byte, historical views, pool, list queries, consensus statistics of both epochs, "
                "pillar weights, delegations, elected producer of every slot",
        "partial": "that the Go VM is a function of exactly the inputs the model names is established by the multi-node "
                   "correspondence and the nondeterminism-site fact, not by a theorem; map-iteration order inside methods is only sampled",
        "assumptions": ["SHA3 collision freedom (ChangesHash pins the patch)"],
    },
    "C17": {
        "module": "ZenonVerif.Props.C17",
        "streams": [S("spork", 10, 300, timeout=7200)],
        "rule": "spork stream: one evaluation = one line of a scenario on a real node: outcome of a create/activate call "
                "(right key, wrong key, repeated, unknown id), IsSporkActive of every spork on the store of every height, the "
                "unimplemented-spork report on every height, availability of a (contract, method) for a block acknowledging a "
                "momentum within ±2 of an enforcement height (live and against historical momentums); two thirds of the scenarios "
                "activate in the order accelerator/bridge/htlc, the rest in random order, a quarter add an unknown spork; a third "
                "make an account whose key the harness holds the community spork address with a window of 5..26 momentums (the real "
                "code's package variables; the driver evaluates the window-parametrised model, spork_authority_window): Create and "
                "Activate calls by that key before, inside and after the window, two thirds of them acknowledging an older momentum "
                "(one inside the window when the frontier is past it), activation of the scenario's sporks by that key when well inside; "
                "at the end of every scenario each enforced spork in turn is taken out of the binary's implemented list and the "
                "unimplemented-spork report is evaluated on the store of every height from two below its enforcement height to the "
                "frontier (an older binary on this ledger); every fifth scenario re-executes the harness as a child that opens, with a "
                "binary that lacks the spork, a ledger 0/1/3/7 momentums past its enforcement height: chain.Init must terminate; "
                "distinct = distinct lines",
        "partial": "gating is exact only when sporks are enforced in the order accelerator, bridge&liquidity, htlc (known "
                   "finding F17); the case 'activating receive confirmed later than the enforcement height' is excluded by "
                   "hypothesis of gate_by_height's use (state as of the recording momentum) and not reachable on the mock chain; "
                   "'identically on every node' is C02/C07",
    },
    "C08": {
        "module": "ZenonVerif.Props.C08",
        "extra_modules": ["ZenonVerif.Props.C08Journal"],
        "streams": [S("crash", 25, 1500, timeout=7200)],
        "rule": "crash stream: one evaluation = one commit/rollback of a generated history on a real NewLevelDBManager whose "
                "journal is parsed before/after (write count + batch content replayed against the Lean write plan), plus one "
                "crash image per cut point (journal truncated after write k, reopened with goleveldb and NewLevelDBManager: raw "
                "key space must equal the state before or after; frontier pointer / keys / undo-redo records must agree; the "
                "same and a competing transaction are re-delivered and compared with crash-free runs); and the images of a process "
                "death INSIDE a write: goleveldb hands a journal record to the file in 32 KiB blocks with one write(2) each, so per "
                "operation the journal is also cut at every block boundary inside the operation's bytes (a sample of the boundaries "
                "for records of more than 6 blocks), around one boundary (inside the 7-byte chunk header, header without payload, "
                "block write short by 1-3 bytes, inside the chunk), inside the first and the last chunk, and at an arbitrary byte "
                "offset; one image in five additionally gets a tail of zeros or arbitrary bytes (to the end of the block / a few bytes "
                "/ into the following blocks); every such image is opened FIRST by the real NewLevelDBManager (as a restarting node "
                "does - it must open), its raw key space must equal the state before or after, the operation is re-delivered on the "
                "recovered image (all block-boundary images and a third of the others) and the bookkeeping checks run on a quarter; "
                "a quarter of the commits carry 12-80 KiB of values (records of 2-8 blocks), one in ten a few hundred KiB, one "
                "sequence in six a commit of megabytes that is then rolled back; journal layer (jr-* lines, driver handler "
                "Driver/Journal.lean = Model/Journal.lean `recover` / `recoverStrict` / `encodeJournal` / `wholeRecs` at block size 32768 "
                "with the real masked CRC-32C computed in Lean): whole journal files of at most 128 KiB - per quick run three live "
                "journals of the database under test right after a commit whose record spans 2+ blocks, three small live journals, and "
                "three journals written by goleveldb's own journal.Writer from records sized so that 0,1,...,8 bytes are left in the "
                "block when the next record starts (zero padding / FIRST chunk with empty payload; all nine cases in every run), records "
                "ending exactly at a block boundary, empty records, records of one block give or take a byte - are (jr-parse) read by "
                "goleveldb's own journal.Reader driven as DB.recoverJournal drives it (non-strict, checksums on), by the harness parser "
                "the whole crash stream relies on (must agree, else the line says so) and by the model, which also re-encodes the "
                "recovered records and must reproduce the file byte for byte (chunking, padding, checksums of the real writer); "
                "(jr-cut) 18-36 cuts per journal - at, 1 before, 1-8 after every record end, around every block boundary, inside "
                "headers, arbitrary - a third of them followed by zeros (few / to the end of the block / into following blocks) or "
                "arbitrary bytes (some with a valid type byte where a header is read, some reaching into the next block): number of "
                "records goleveldb's reader delivers (must be the first k of the journal), verdict of the STRICT reader "
                "(opt.StrictJournal: ok / error), and the number of records ending at or before the cut according to the harness "
                "parser, each compared with the model; distinct = distinct lines",
        "partial": "process death is reproduced at the granularity of the write(2) calls of goleveldb's journal writer (record "
                   "boundaries and the 32 KiB block boundaries inside a record) plus short writes and file-system tails; what "
                   "goleveldb does with a torn journal is now also a theorem about a model of its log format and reader "
                   "(C08Journal: every byte prefix of a journal is read back as the write calls that are complete in it, so a crash "
                   "at any byte of a commit's single record leaves the state before or after; a zero-filled tail changes nothing "
                   "provided the checksum rejects the one torn chunk - hypothesis TornDetected, not provable for a 32-bit checksum; "
                   "for arbitrary bytes behind the cut there is no theorem, the model is only compared with goleveldb on such images); "
                   "the model is tied to goleveldb by replaying real journal files (reader AND writer: re-encoding reproduces the "
                   "bytes), not by a proof about the Go code; corruption in the middle of a journal (bit rot) is evaluated by the "
                   "model but outside the theorems and the property; commits larger than goleveldb's 4 MiB write buffer bypass the "
                   "journal (table-file transaction: only the end points are examined, `crash-plan-large`); recovery of table files / "
                   "manifest and compaction are goleveldb's and are only executed, not modelled; "
                   "fsync / power-loss reordering between files is outside the property (process death); "
                   "the node-level commit (chain.AddMomentumTransaction) adds no further leveldb write to the ledger database",
        "assumptions": ["goleveldb: one journal record per write call (DB.writeJournal: Next, batch bytes, Flush), handed to the OS "
                        "block by block before the call returns; on reopening, recoverJournal applies exactly the records its "
                        "journal.Reader delivers, each as one batch (memtable replay; no partial application of a record)",
                        "goleveldb's journal.go implements the log format as read into Model/Journal.lean (checked on real journal "
                        "files by the jr-* lines, reader and writer side, not proved about the Go source); masked CRC-32C detects a "
                        "chunk completed by a foreign tail (TornDetected)",
                        "the operating system keeps the bytes of a file that were written before a process death, in order "
                        "(a prefix of the journal survives: process death, not power loss); fsync / cross-file ordering not needed "
                        "for process death and not modelled",
                        "batches above the write buffer (4 MiB) are written as a table-file transaction whose atomicity is "
                        "goleveldb's manifest commit: trusted, end points examined"],
    },
    "C06": {
        "module": "ZenonVerif.Props.C06",
        "streams": [S("vdb", 400, 20000, arg="mix=pop"), S("ledger", 40, 2000), S("sync-batches", 300, 6000, timeout=3000), S("pool-node", 8, 150, driver=False)],
        "rule": VDB_RULE + "; pop-heavy mix: views are opened before a branch switch and re-read after it",
        "partial": "pool-after-switch and consensus statistics after a switch are monitor-only: the ledger stream rolls the producing "
                   "node back by 1-3 momentums (pool must be empty, conservation at the pool state) and the sync-batches stream compares "
                   "every follower that went through switches / refused batches with a fresh node fed only its current chain (state "
                   "digest, historical views, pool, epoch statistics, delegations, weights, elected producer of every slot)",
    },
    "C05": {
        "module": "ZenonVerif.Props.C05",
        "streams": [S("election", 2000, 40000), S("ticker", 4000, 400000), S("mverify", 40, 300), S("contract", 8, 120)],
        "rule": "election stream: delegation sets of 1..60 pillars (names: numbered / case variants / prefixes of one "
                "another / arbitrary bytes / realistic; weights: all equal / all zero / few values / ZNN amounts / >64 bit "
                "/ one heavy / distinct) x heights (small, uniform uint64, 2^63 and 2^64 boundaries) x (NodeCount,RandCount) "
                "(live 30/15 in 60% of the cases, small and random groups otherwise) through the real SelectProducers; "
                "distinct = distinct (op,result) lines; every line is evaluated on the real code and on the model, and "
                "the monitors re-run the real code on a permuted copy of the input; every elected schedule is persisted the way "
                "election.go does (storage.GenElectionData -> StoreElectionResultByHash) into a leveldb-backed consensus database with a "
                "two-entry LRU and must come back identical through Marshal/Unmarshal, through a second storage.DB on the same database "
                "(empty LRU = restarted node), through the storing instance after eviction, and after the leveldb directory was closed and "
                "re-opened; the same for generated storage.Point values (0-300 pillars, boundary counters and heights, both point types); "
                "at the end every election of the stream is repeated while three goroutines draw from and re-seed the process-wide "
                "math/rand generator and must give the list computed when nothing else runs. ticker stream: ToTick/ToTime at tick "
                "boundaries +-1 s, before the start, beyond the 292-year int64 range, generateProducers/genProofTime for live and "
                "random (BlockTime,NodeCount). mverify stream: n rounds on a real mock chain (slots and whole ticks skipped, "
                "delegations and balances changing); per round the valid next momentum and ~50 variants (every single-field "
                "mutation, the same re-hashed and re-signed by the elected pillar, re-timed, signed by a non-elected pillar or a "
                "user, content dropped/duplicated/reordered) judged by the real Supervisor.ApplyMomentum and by the model, plus "
                "GetMomentumBeforeTime at every timestamp +-1 s against the specification and the loop model, plus "
                "GetMomentumProducer for all slots of three ticks on the caching instance and on a cold instance, and the schedule of "
                "every tick re-computed in later rounds on a cold instance against the list first computed (a third of the rounds land "
                "exactly on the first slot of a tick, so the next rounds compute a schedule while the frontier sits on its proof time); the "
                "cold instance runs each tick's election while other goroutines draw from the process-wide math/rand generator; restart "
                "family: a third consensus instance lives on a PERSISTENT consensus database (leveldb directory opened as zenon.go does, "
                "Init+Start, listening to the chain), answers every slot of this round's ticks and of up to four earlier ticks, is stopped, "
                "its leveldb closed and re-opened on the same directory every round, and must then elect slot by slot what it elected before "
                "the restart, what the live instance elects and what a cold instance computes (every fourth round also pillar weights, "
                "EpochStats of epochs 0/1 and GetPillarDelegationsByEpoch(0) of the four instances). "
                "contract stream (shared with C10): after every momentum of histories with pillar registrations, revocations and "
                "delegations (also to pillars revoked later) ComputePillarDelegations, asked three times, against the sum of the ZNN "
                "balances of the accounts whose delegation entry names each active pillar",
        "partial": "rand.Perm and sort.Sort are parameters (any permutation / any sorted permutation); hashes, ed25519 and the "
                   "momentum VM are oracle values; GetMomentumBeforeTime = specification is proved for whole-second instants "
                   "(all callers) and only as partial correctness for sub-second instants (the real loop can spin there: "
                   "before_time_subsecond_hangs); ToTick is modelled for whole-second instants only (Duration.Seconds() is a "
                   "float; the last nanosecond of a tick rounds up for chains older than 194 days - counted by the ticker "
                   "stream, not judged); the ticker theorems hold within 292 years of genesis (int64 ns Duration; negative "
                   "witness ticker_wraps_after_292_years); ComputePillarDelegations (weights from balances) is taken from the real code; persistence of the "
                   "consensus store (ElectionData / Point through protobuf and leveldb) and the restart of a node on its consensus database are "
                   "model-free monitors (election and mverify streams), not theorems - the model's cache lemma cached_election_eq_recomputed takes "
                   "'every cached entry is what was computed for its key' as its hypothesis, which is exactly what those monitors test for entries "
                   "read back from disk; a flushed LRU is exercised at the storage layer (two-entry LRU) and by the restart, not by filling the "
                   "2016-entry LRU of a node; independence from the process-wide math/rand generator is the regenerated fact "
                   "election_uses_no_process_wide_randomness (AST: no reference to a package-level math/rand, math/rand/v2 or crypto/rand function "
                   "in vm, verifier, chain, consensus, common/db, common/types) plus the two noise monitors, which depend on goroutine "
                   "interleaving; schedule equality after a reorganisation across nodes is left to the sync stream (C06/C16)",
        "assumptions": ["math/rand.Perm returns a permutation of 0..n-1 (checked by the driver on every shipped oracle value)",
                        "sort.Sort returns a sorted permutation of its input"],
    },
    "C12": {
        "module": "ZenonVerif.Props.C12",
        "streams": [S("pow", 20000, 1000000), S("plasma", 40, 3000, timeout=7200)],
        "rule": "pow stream: boundary set + random uint64 difficulties (a sixth each: boundary, small, 2^k±2, top-bit set, "
                "shifted, uniform), 8-byte comparisons (equal / one-bit apart / random), fused amounts around unit and cap "
                "boundaries; SESSIONS of checks through the real pow.CheckPoWNonce (n/50+20 sessions of 1-4 interleaved "
                "(address, previous hash, nonce) inputs, each asked under 1, 2, d*-1, d*, d*+1, 2d*, 2d*+1 (d* = the largest "
                "difficulty its hash really meets, computed by the harness), the base-cost and cap difficulties, 0 and random "
                "ones - ascending (cheap claim first), descending, shuffled, queries repeated in a row and again at the end): "
                "every answer is compared with the model (pow-check), the whole session with the model's checkSeq (pow-seq) and "
                "by a model-free monitor with LE64(SHA3(nonce|SHA3(address|previous))[:8]) >= 2^64 - 2^64/d computed with "
                "the harness's own SHA3 calls and big integers; plasma stream (first half): histories on a real node where accounts without genesis plasma get QSR fused (amounts around "
                "unit/base/cap boundaries), fusions are cancelled again, and the accounts publish bursts of 1-6 unconfirmed blocks "
                "(receive, sends with boundary data lengths, embedded calls, older acknowledged momentums) with chosen fused plasma, "
                "delivered raw with sender-chosen BasePlasma/TotalPlasma; verdict + independently read facts go to the enoughPlasma "
                "model, monitors state the property on every accepted block; second half: blocks built entirely BY HAND "
                "(fields, hash, signature) and handed to ApplyBlock over the product of fused claim (0, what is still needed, "
                "needed-1, base, available-1 / available / +1, cap-PoW, cap-PoW+1, cap, cap+1, huge, values that make "
                "fused+PoW wrap round to the base cost / to 0, 1) x proof-of-work (none; really done for 1 / 20 / 10000 plasma "
                "units, for the whole base cost -1 / exactly / +1 unit, for the PoW cap, above it; claimed with a nonce that "
                "was not worked for under difficulty 1, 2, the base-cost difficulty, the cap, 2^63 - the SAME unworked nonce "
                "under trivial and real claims in both orders) x account state (nothing fused / about one block / many units "
                "/ the maximum; first block, on confirmed, on unconfirmed blocks that committed plasma): 5 accounts x 14 pairs "
                "at the start of every history + bursts of 8; real nonces for first blocks come from a precomputed table "
                "(meet difficulty 2^28, checked before use), small remainders are mined on the spot, the whole base cost on a "
                "later block once per quick run (6 per thorough run); every candidate gives a pow-check line (honoured? vs "
                "checkPoWNonce on the harness-computed hash prefix) and a plasma-check line with the claimed difficulty; "
                "monitor on every accepted block: PoW claim met by the hash, fused <= available (independent read), fused + PoW "
                "plasma >= base, <= cap in big integers, committed chain plasma grew by exactly the fused part; distinct = "
                "distinct (op,result) lines",
        "partial": "SHA3 is a parameter (hash prefix supplied as input, computed by the harness with its own SHA3 calls); "
                   "proof-of-work worth a whole base cost on blocks other than an account's first is mined only a few times "
                   "per run (31.5 million hashes each)",
        "assumptions": ["SHA3-256 is an uninterpreted parameter of checkPoWNonce"],
    },
    "C13": {
        "module": "ZenonVerif.Props.C13",
        "streams": [S("codec", 4000, 100000), S("calldata", 6000, 300000, driver=False), S("variants", 40, 1500, driver=False)],
        "rule": "codec stream: generated account blocks of all 5 block types (plus out-of-range types), up to 3 levels of "
                "nested descendants, amounts nil/0/1/2^255-1/2^255/2^256-1/2^256/33+ bytes/negative, uint64 fields on varint "
                "boundaries, data nil/empty/127/128/16383/16384/20000 bytes, and momentums with 0..101 content entries; "
                "one evaluation = one value pushed through the real ComputeHash / Serialize / Deserialize / JSON / RLP code "
                "and the same operation replayed by the Lean model; distinct = distinct (op,result) lines. calldata stream: "
                "every ValidateSendBlock of the embedded contracts on canonical and re-arranged ABI call data (trailing bytes, "
                "dirty padding, relocated tails); evaluated on the real code only (no Lean replay); END TO END (N/150 histories "
                "on a producing node and two followers, every third under the accelerator / htlc sporks): for random methods with "
                "arguments a call the node accepts is generated, then its non-canonical encodings that the method lets through and "
                "re-encodes (every narrow static word dirtied by one bit / ff padding / the byte next to the value, bool words, "
                "trailing bytes and words, dirty tail padding, one / all dynamic tails relocated with gaps, the hostile mutations of "
                "the abi stream that still decode) are put into the complete send block, hashed and signed by the owner over "
                "exactly those bytes, and delivered by gossip (ChainBridge.AddAccountBlocks), by publishing on the producer "
                "(Supervisor.ApplyBlock + AddAccountBlockTransaction) and inside the producer's next momentum re-made by its pillar "
                "key to list the block (ChainBridge.InsertChain on a fresh follower): refused, or what the node then holds for that "
                "account height (pool or ledger) has call data that is a fixed point of unpack->pack and a hash that is the hash of "
                "the stored content; at the end of a history the same for every send block to an embedded contract in the three "
                "ledgers. variants stream (monitors "
                "only, three real nodes): the fields of AccountBlock / Momentum the hash does not cover are found by experiment "
                "on ComputeHash (perturb one field of a copy: ChangesHash, BasePlasma, TotalPlasma, PublicKey, Signature; "
                "PublicKey, Signature for momentums) and every alteration of their type is applied to blocks the producer just "
                "accepted - byte strings extended by 0x00 / 0xff / 1-80 random bytes, doubled, zero-padded to 33/65/96/128, cut "
                "by one / to half / to 32 / to nothing / at the front, prefixed, rotated, bit-flipped, zeroed, signed by another "
                "key; integers honest+1 / honest-1 / +k / -k / half / 0 / 1 / max / the honest value of the same field in another "
                "block of the history (plus named lowered-base / lowered-total / both-lowered plasma variants; plasma lies on "
                "contract receives and descendants drawn from 0/1/7/9/21000/max); hashes random/zero/bit-flipped - re-encoded through the wire form and delivered to a "
                "follower BEFORE the honest data: user blocks as gossip (ChainBridge.AddAccountBlocks) and inside a lying peer's "
                "momentum, momentums and contract receives / descendants through InsertChain; whatever the follower accepts must "
                "be stored with the bytes of the original (account block and momentum), the follower must then accept the "
                "producer's momentums and end in the byte-exact state of a reference follower",
        "partial": "hash function is a parameter (injective on the inputs that arise); the acceptance-side theorem "
                   "uncovered_fields_normalised (T2: stored bytes are a function of covered fields and state) is not a theorem: "
                   "it is decided by the variants stream on real nodes (known finding F9 for ChangesHash of user blocks); RLP: generic item round trip is a theorem and the typed encoder is "
                   "byte-equal to go-ethereum on the stream, the typed decoder (reflection over Go structs) is covered by "
                   "Go-side round-trip monitors only; JSON object structure is not modelled (amount / nonce text forms are); "
                   "T4 (call data canonical) has no Lean model of the ABI: it is an AST fact (every ValidateSendBlock "
                   "re-packs block.Data) plus model-free monitors on every embedded method",
        "assumptions": ["SHA3-256 (types.NewHash) is an uninterpreted parameter H: fixed 32-byte output, collision-free on the "
                        "pre-images, data and descendant/content sources of the blocks compared"],
    },
    "C19": {
        "module": "ZenonVerif.Props.C19",
        "streams": [S("wallet", 600, 30000, timeout=7200)],
        "rule": "wallet stream: path strings (fixed malformed set, boundary segments 2^31-1/2^31/2^32-1/2^32/leading zeros/"
                "20+ digits, random valid paths, a third of them mutated by one byte edit), DeriveForPath / DeriveWithIndex "
                "on those with seeds of 0..128 bytes, PubKeyToAddress on 0..64-byte strings, keyStoreFromEntropy on 0..64-byte "
                "entropies, key files for entropies of 16/20/24/28/32 bytes x 7 passwords (empty, unicode, 4 kB, binary) with "
                "write -> read -> decrypt, wrong passwords, single-bit flips of ciphertext/nonce/salt (one complete sweep of all "
                "bits of one file + 6 random bits per further file) and header edits; password alphabets: key files created with "
                "passwords that begin / end with white space (blank, tab, CR, LF, CRLF, VT, FF, NEL, NBSP, en/em/thin/hair space, "
                "line/paragraph separator, ideographic space), consist of white space only, are empty, 4 kB long, raw non-UTF-8 "
                "bytes, NFC / NFD spellings, upper / lower / title case, with NUL / BOM / zero-width characters - each opened with "
                "its own password and refused for 4 near misses (the trimmed form, a white-space-extended form, case / "
                "normalisation / cleaned-up / truncated forms); operation sequences on ONE KeyFile object and on one "
                "wallet.Manager (Decrypt with right / wrong passwords repeatedly, Unlock-Lock-Unlock, GetKeyFileAndDecrypt, Write "
                "+ ReadKeyFile, the caller wiping a key store it was handed; directed sequences + random ones of 4-8 "
                "operations; on every run the MANAGER STATE MATRIX: on one Manager every password-taking entry point "
                "(Manager.GetKeyFileAndDecrypt, KeyFile.Decrypt on the manager's object, Manager.Unlock) with a wrong, the empty and "
                "the right password — refusals first — in every state: never unlocked, unlocked, unlocked then locked, locked / "
                "unlocked after a wrong Unlock, after a wrong GetKeyFileAndDecrypt, unlocked twice, unlocked with the handed-out key "
                "store wiped by the caller, locked and unlocked again, manager restarted (locked / while unlocked): right password => "
                "the entropy, any other => error, whatever the state; seq-state:* counters in the evidence): after every operation the object's fields and serialised form are unchanged, the file it writes is "
                "the file first written and holds no plaintext, its password still yields the entropy - replayed through the Lean "
                "sequence model kfStep; persisted round trips over a path ALREADY in use: for every allowed entropy size the key "
                "file is written (KeyFile.Write) over a key file of every allowed size (shorter, longer, same size = password "
                "change), over an empty file, a few random bytes, 4 kB of random bytes, a 3 kB JSON document of another shape, a key "
                "file with trailing text, and as a chain of writes of all sizes to one path — then ReadKeyFile reads the fields that "
                "were written, the recorded address is the index-0 address, Decrypt(password) gives the entropy, the former "
                "password is refused, a Manager started on the directory lists the file and unlocks it to the entropy (overwrite:* "
                "counters); one evaluation = one call of the real wallet code replayed through the Lean model with "
                "the primitives supplied as oracle values; distinct = distinct (op,result) lines",
        "partial": "'fails with any other password / after any change to ciphertext, nonce or salt' is AES-GCM authenticity "
                   "and Argon2id behaviour: an assumption, exercised by the stream (wrong passwords, bit flips), not a theorem; "
                   "JSON text encoding of the key file (hexutil / bech32) is exercised by the stream only; Timestamp is wall "
                   "clock and excluded",
        "assumptions": ["HMAC-SHA512, SHA3-256, Ed25519, Argon2id, AES-256-GCM, BIP-39 are uninterpreted parameters "
                        "(structure Crypto) with laws open_seal, verify_sign, hmac_len, sha3_len as explicit fields"],
    },
    "C18": {
        "module": "ZenonVerif.Props.C18",
        "streams": [S("paging", 30000, 2000000), S("rpc", 6, 300, timeout=7200), S("rpcserver", 1000, 60000, timeout=7200)],
        "rule": "paging stream: (index,count,len) over the full uint32 range with boundary bias + complete page sweeps of "
                "random lists; rpc stream: the real LedgerApi called in-process on generated chains (momentums/account blocks by page "
                "and by height, unreceived blocks) with indices, sizes, heights, counts over boundary values and the full integer "
                "range for known, unknown and contract addresses, each list printed as heights for the model and compared by "
                "monitors with the stores; complete page sweeps; JSON round trip of every returned block; pager family (every sixth "
                "history): a ledger on which every pageable collection spans several small pages (one owner with 5-9 tokens next to other "
                "owners, 5-8 stakes / fusions / liquidity stakes of one address, accelerator projects, 5 sentinels, 5 pillars, 7-9 sporks, "
                "3 bridge networks, 7-10 wrap and 6-8 unwrap requests to several destinations, 6 reward epochs, unconfirmed and unreceived "
                "blocks), then EVERY method of EVERY service the node registers (rpc.GetApis ledger+embedded, found by reflection: last two "
                "parameters uint32, answer of {count, list} shape - 27 getters) with every combination of leading arguments from a catalogue, "
                "page sizes 1, 2, 3, 5, max, max+1, all page indexes to past the end and ten index/size pairs whose product passes 2^32: "
                "count identical on every page and equal to the size of the collection (definition.* readers on the store for 21 of the "
                "argument combinations, the page of maximum size for all), pages concatenated = the collection (each element once, one "
                "order), pages past the end empty, no page longer than its size; every page is printed (position of its first element, length, "
                "count) for the Lean paging model getRange; page-limit scenario: > 1024 accelerator projects, every pager asked for sizes "
                "above the limit must refuse or return at most 1024 elements. rpcserver stream: the real JSON-RPC server in a child "
                "process, n requests (mutated valid calls, garbage, and a directed corpus of single / batch hostility: every JSON value kind "
                "as the only element and before / after / between valid calls, empty batch, notifications-only, duplicate ids, batches of up "
                "to 1000, junk-only, nested and 5000-deep elements, invalid UTF-8, truncated and trailing garbage, response-shaped and "
                "subscription-shaped messages) sent over EVERY transport: the HTTP handler in-process, a real net/http server, the WebSocket "
                "handler, a unix-socket listener (ServeListener = the IPC endpoint) and ServeCodec on a pipe - the directed corpus over all "
                "five for each body; per request a model-free monitor derived from the request alone (JSON-RPC 2.0): exactly one well-formed "
                "response object per message that is not a notification / response, ids echoed in order, nothing for notifications, no HTTP "
                "error status for a JSON request below the size limit, no dropped connection for well-formed JSON; on stream transports a "
                "sentinel call follows every request on the same connection and must be answered with the frontier; the child process must "
                "survive (the request being served when it dies is reported); distinct = distinct lines",
        "partial": "the robustness of the JSON-RPC server is runtime behaviour (monitors, no model); of the embedded getters the paged "
                   "ones are covered generically (reflection) for totals / order / exactly-once / bounds and compared with the Lean "
                   "getRange per page, the content of the elements is compared with the stores only for the ledger API; collections larger "
                   "than the page limit are reached for accelerator projects only (known finding F23: AcceleratorApi.GetAll is unbounded); "
                   "index*size beyond 2^32 wraps in getFrontierRewardByPage / GetPillarEpochHistory (known finding F2b); malformed text on a "
                   "stream transport may be answered by closing the connection (the unchanged server does so for truncated WebSocket "
                   "messages) - only survival and the next connection are judged there",
    },
    "C14": {
        "module": "ZenonVerif.Props.C14",
        "streams": [S("prio", 20000, 1000000), S("filter", 4000, 200000), S("pool", 400, 30000),
                    S("pool-batch", 60, 3000, driver=False), S("vdb-mem", 400, 20000),
                    S("pool-node", 20, 300, driver=False, timeout=7200)],
        "rule": "prio stream: all ordered pairs of boundary (TotalPlasma, BasePlasma) values incl. 0 and the caps, then random "
                "pairs (equal ratios, same plasma, same hash, hashes one bit apart, zero plasma, full uint64 range so the "
                "products wrap, in-range), each evaluated in both directions on chain.higherPriority and on the model, plus "
                "folds of 2-7 competitors in two random arrival orders; filter stream: block-type strings up to 300 long "
                "(uniform types, contract batches incl. runs of 90-120 ContractSends, user blocks with batches, mostly "
                "sends) through accountPool.filterBlocksToCommit and the model; pool stream: sequences of 5-34 operations on a real "
                "chain.NewAccountPool for one address (add on top, competitor for a pooled height with equal/better/random "
                "plasma, duplicates, competitor of a confirmed block, non-linking blocks, forced adds, momentum confirming "
                "a prefix of the pool / a competitor / nothing, momentum rollback), after every operation the frontier and "
                "the uncommitted blocks are compared with the Lean state machine; pool-batch stream (monitors only): a contract "
                "receive with 0-3 descendant blocks pooled across a momentum, 2-6 addresses rebuilt by one momentum that "
                "forks some of them, and the momentum content of a pool about as full as a momentum (1-3 contract accounts whose "
                "chain is a multi-block batch followed by smaller batches, user accounts with 1-14 blocks, the real limit 100 or "
                "the package variable lowered to 3-12): GetNewMomentumContent asked 40 times per pool state (the pool enumerates "
                "accounts in map order), every answer must stay within the limit, be per account a gap-free prefix of the pooled "
                "chain, and take a contract's batch whole or not at all; the pool stream additionally asks GetPatch for every block "
                "the sequence ever offered after every operation: it answers exactly for the blocks of the uncommitted chain "
                "(a displaced, rolled back, refused or confirmed block is not in the pool); a pooled receive with 1-3 descendants "
                "displaced by a force-inserted competitor must leave the competitor alone in the pool and no patch for the displaced "
                "receive (that its descendant blocks still answer GetPatch / GetAccountStore on the current tree is counted in the "
                "stats as batch-displaced-descendant-still-answers, not judged)" + VDB_MEM_RULE + "; pool-node stream "
                "(monitors only): per history a real producing node builds a trunk and three branches forking at one momentum (X "
                "confirming [p, p2] of one account in one momentum, Y confirming the competitors [q, q2], Z confirming p alone and p2 "
                "one momentum later; each longer than the one before; generated traffic incl. contract calls everywhere) - every "
                "chain.RollbackTo and every produced momentum of the producer is a checked operation; 12 follower nodes per "
                "history are fed through the real ChainBridge: three-step sequences (the lower-priority one of p/q gossiped, "
                "optionally with its child, displaced by the competitor, then InsertChain of the momentum confirming the displaced "
                "block with its child / the winner with its child / p alone), reorganisations (a node on or near the tip of a "
                "branch, with gossiped blocks of the other branch, is handed the longer branch: depth 1-8, twice in a row), random "
                "walks over gossip / extension / switch; every valid delivery must be adopted; every node carries reader "
                "listeners that call GetFrontierAccountStore / GetUncommittedAccountBlocksByAddress / GetAllUncommittedAccount"
                "Blocks / GetPatch / GetAccountStore for the accounts a momentum touches INSIDE the insert and delete "
                "notifications, registered before and after the account pool in listener order (followers) or after it "
                "(producer); after every operation, for all 28 genesis and contract accounts: the uncommitted blocks form one "
                "chain on the account's last confirmed block in the ledger, the pool's frontier store is that chain's head and "
                "shows the ledger's block at the confirmed height, GetPatch answers exactly for the blocks of that chain among "
                "all blocks the history knows, and between p and q the pool keeps the one the rule names; "
                "distinct = distinct (op,result) lines",
        "partial": "data-race freedom / readers never observing a half-applied block are runtime properties of Go's memory "
                   "model, not theorems: readers are interposed deterministically at the listener boundaries of momentum insert / "
                   "delete (pool-node stream), not at arbitrary instructions; the pool state machine (model and stream) covers one address and one-block transactions; "
                   "contract receives with descendant blocks are covered by the pool-batch monitors only; independence of the "
                   "addresses in rebuild is the regenerated fact rebuild_no_early_return plus the pool-batch multi-address monitor",
        "assumptions": ["accepted user blocks carry TotalPlasma <= MaxPlasmaForAccountBlock and 0 < BasePlasma <= "
                        "AccountBlockBasePlasma + ABByteDataPlasma*MaxDataLength (vm.enoughPlasma); blocks of embedded "
                        "addresses carry TotalPlasma = BasePlasma = 0"],
    },
    "C11": {
        "module": "ZenonVerif.Props.C11",
        "extra_modules": ["ZenonVerif.Props.C11Node", "ZenonVerif.Props.C11NodeGen", "ZenonVerif.Props.C11Points"],
        "streams": [S("rewards-pure", 20000, 300000), S("rewards-node", 12, 150, timeout=14400)],
        "rule": "rewards-node stream: one evaluation = one line: an Update call received by the pillar / stake / sentinel / "
                "liquidity contract of a real node (outcome, new LastEpochUpdate cursor, number of epochs issued), one "
                "RewardDepositHistory entry credited, the total credited per contract and epoch against the emission recomputed "
                "from the generated tables, a CollectReward call (refused / amounts of the mint requests), a RewardDeposit "
                "after it changed, the cursor after a momentum - each replayed through the Lean epoch-cursor model; plus, per rewarded epoch, the inputs "
                "the contract read (stake entries / sentinel entries from the storage before the block; for pillars the node's "
                "consensus EpochStats and PillarDelegationsByEpoch with the pillars' percentages and reward addresses) with the "
                "amounts credited per address, recomputed by the Lean reward arithmetic; per "
                "history one real chain with 10/15/20-minute epochs over 3-6 epochs (RewardTimeLimit 0..640 s, "
                "UpdateMinNumMomentums 1..45, slots skipped one time in seven, Update sent by the producing pillar and/or by "
                "arbitrary users, stakes/sentinels/delegations/balances/pillar percentages and reward addresses changing, a "
                "pillar registering mid-epoch, CollectReward by accounts with and without deposit and twice in a row), "
                "under the origin, accelerator and bridge&liquidity method tables; one history in four lets nobody call "
                "Update for 10-14 epochs; a late pillar may be revoked again (revoke window shortened to 200 s + 400 s), one "
                "history in four is directed: the late pillar registers at the start and is revoked in the first election tick of "
                "an epoch of 3-4 ticks, so it is part of some finished ticks of that epoch and absent from later ones; "
                "consensus-statistics audit: after one momentum in 3-8 the node's PillarReader is asked 1-3 random questions "
                "(EpochStats of the epoch in progress / previous / older / future epoch, GetPillarDelegationsByEpoch, "
                "GetPillarWeights at the frontier and at older momentums), each twice in a row, a quarter of them compared with a "
                "consensus instance created over an empty consensus database on the same chain; at the end every epoch and one "
                "momentum per tick are compared that way; the statistics a pillar reward is computed from must count exactly the "
                "momentums the chain has in that epoch; afterwards the chain is fed to 2-3 follower nodes (one by one / random "
                "batches, asked for statistics while syncing / big batches with a restart after every batch) and cursor, every "
                "RewardDeposit and every history entry are compared. rewards-pure stream: the vm/constants reward lookups on every epoch 0..400, tick boundaries up to 2^64-1 and "
                "random epochs; getWeightedStake / getWeightedLiquidityStake / getWeightedSentinel on entries starting or "
                "revoked before, at the edges of, inside and after the epoch window (incl. the 90% sentinel threshold); "
                "computePillarRewardForEpoch on random epoch statistics (1-100 pillars, missed slots, zero expected, zero "
                "total weight, a twelfth each invalid: produced > expected, total weight below the sum); and the contract "
                "functions computeStakeRewardsForEpoch / computeSentinelRewardsForEpoch / computeDetailedPillarReward / "
                "computeLiquidityStakeRewardsForEpoch (token tuples, additional reward, a fifteenth with percentages above 100%) run on "
                "an in-memory contract storage with generated entries, pillars, give-percentages and backers, reading back "
                "the RewardDeposit of every address; consensus points: 1-6 adjacent period points with pillar sets changing from "
                "period to period, kept in a real storage.DB (LRU over a key-value store; the newest one sometimes in progress), "
                "aggregated into the epoch point with the real Point.LeftAppend 2-4 times in a row and once more by a restarted "
                "DB, every fold recomputed by the Lean function Points.compound, cached period points compared with what was "
                "stored after the folds; distinct = distinct (op,result) lines",
        "partial": "the amounts credited per epoch enter the cursor/deposit model as observed inputs (their arithmetic is the "
                   "rewards-pure part, re-checked on the real chains' inputs for stake, sentinel and pillar epochs), so 'the "
                   "total credited per epoch is within the emission' is a theorem about the pure functions plus a per-epoch "
                   "comparison on real chains, not one end-to-end theorem; the premises of pillar_epoch_bound are monitored on "
                   "every real epoch's statistics, not proved here; 'identical on all nodes' "
                   "(EpochStats / PillarDelegationsByEpoch read from each node's own consensus cache) is a theorem only for the "
                   "aggregation step (Points.compound is a function of the period points; it counts every momentum once); that "
                   "the node's cached objects behave like those values is established by the consensus-statistics audit "
                   "(warm/warm, warm/cold, statistics vs chain) and the follower comparison; premises produced<=expected, sum of weights <= total weight, sum "
                   "expected <= MomentumsPerEpoch are consensus facts (C05) taken as hypotheses; exactly-once is false for the "
                   "liquidity contract's origin/accelerator-table Update when it is more than MaxEpochsPerUpdate/2 epochs behind "
                   "(known finding F14: theorem epoch_cursor_liq_origin_partial + negative witness liq_origin_skips_epoch); "
                   "liquidity token tuples / liquidity stakes / additional reward are exercised by the pure stream only; the "
                   "time.Duration overflow of the epoch ticker after 292 years of epochs is not modelled",
        "assumptions": ["epoch statistics satisfy produced_i <= expected_i and sum of pillar weights <= TotalWeight",
                        "epoch windows are unix seconds with |t| <= 2^62 (int64 subtraction does not wrap)",
                        "pillar give-percentages are <= 100 (checkPillarPercentages)"],
    },
    "C20": {
        "module": "ZenonVerif.Props.C20",
        "streams": [S("genesis", 150, 5000, timeout=7200)],
        "rule": "genesis stream: per case one random CONSISTENT configuration derived from the mock genesis (2-9 users, 2-5 tokens, "
                "1-5 pillars, delegations, legacy entries, 0-7 fusions with distinct ids, 0-4 swap entries, optional sporks, "
                "optional swap/token/stake contract entries), 4 permutations of every unordered list -> NewGenesis hash in process "
                "(every 5th config also in two fresh subprocesses), 6 single-entry perturbations drawn from 42 kinds (among them six around declared-but-unheld tokens: a mintable / fixed token with "
                "zero / non-zero TotalSupply appended that nobody holds, an issued token whose holders are removed or all hold zero) PLUS two directed "
                "ones per configuration taken in rotation from the repaired gaps of the validators (plasma / pillar contract without "
                "genesis entry, second entry for a user / a contract / an empty one, negative amount (fresh -v/+v pair or an existing "
                "balance negated), nil amount, TotalSupply above MaxSupply (by 1, by half, MaxSupply 0), nil MaxSupply, a negative fusion "
                "amount / pillar stake compensated in the sum, a negative swap amount, a missing fusion / pillar amount, and the accepted "
                "boundaries TotalSupply = MaxSupply and zero amounts) -> real CheckGenesis (whole and validator by validator) vs model verdict; model-free "
                "monitors: a perturbation that by construction breaks one of the sums of the statement must be refused (never "
                "accepted, never a panic), every accepted configuration is started on a fresh chain and the ledger is compared with "
                "the statement's sums (supply per token <= MaxSupply, plasma / pillar / swap holdings) and, read from the started chain alone, "
                "recorded TotalSupply of every token the token contract knows = balances of all accounts + unreceived sends <= MaxSupply (C01 at genesis); every 4th config goes through "
                "ReadGenesisConfigFromFile: the config itself (same hash), one perturbation, one file with an amount field removed "
                "(amount / Amount / totalSupply / znn / qsr / maxSupply in rotation), one with an amount written as null (fusion, "
                "pillar, TotalSupply, MaxSupply, user balance, contract balance, swap amount in rotation) and one of the repaired gaps "
                "— the result must be (nil, error): never a genesis, never (nil, nil), never a panic; every 3rd config a LevelDB "
                "created with A is restarted with B and with permuted A; every 3rd config the start-on-a-foreign-database scenario "
                "over every single FIELD of the configuration: database created under A, chain.Init on the same directory under A "
                "with ONE field edited — on every run the fields that never reach the genesis state (ExtraData changed / emptied, "
                "GenesisTimestampSec +1 / -1 / far, both), the node configuration (SporkAddress), order-only changes of all lists, "
                "SporkConfig nil<->empty, and in rotation 6 of 48 state edits (ChainIdentifier, every field of a pillar / delegation / "
                "legacy entry / token / fusion / swap entry / spork, entries added and dropped, a balance +-1, one unit moved between "
                "two users, a block address, an empty block added, a block dropped) — then A again: refused iff the genesis momentum "
                "NewGenesis(B) builds differs from the stored one, the restart with A works (model-free monitor + gen-startup lines "
                "for the model; startup-field:* counters); 20 header lists per config through the real "
                "NewMomentumContent; distinct = distinct (op,result) lines; directed:* / readfile-* counters in the evidence show "
                "that every kind ran",
        "partial": "invariance of the full genesis momentum (hash, patch of all embedded storage) under list permutation and across "
                   "fresh processes is decided by the stream on the real code, not by a theorem (the theorems cover the two "
                   "order-sensitive mechanisms: sorted momentum content, commuting writes to distinct keys). The soundness of "
                   "CheckGenesis is a full statement since the validators were repaired (F13a-f fixed): check_genesis_sound has no "
                   "premise besides the representation invariant of a Go map (distinct keys in one BalanceList). Outside the model: "
                   "configurations on which the validators dereference nil (missing TotalSupply, nil amount under the required "
                   "token of a contract entry; a missing pillar / fusion amount is a refusal since feb4686 and is modelled) — never accepted: CheckGenesis panics, "
                   "ReadGenesisConfigFromFile returns ErrInvalidGenesisConfig (exercised through the file on every run)",
        "assumptions": ["SHA3 / ABI packing / LevelDB are not modelled: genesis hash equality is observed on the real code"],
    },
    "C15": {
        "module": "ZenonVerif.Props.C15",
        "streams": [S("p2p", 2500, 60000, timeout=3000),
                    S("frame", 3000, 300000, driver=False), S("disc", 3000, 300000, driver=False),
                    S("p2p-net", 40, 2000, timeout=3000)],
        "extra_modules": ["ZenonVerif.Props.C15Sync"],
        "rule": "p2p stream: one peer session per message against a real ProtocolManager over the mock node's ChainBridge "
                "(chain of 530 momentums): 12 handshake variants; first of all the requests of the repaired findings F7a/F7b (12 "
                "GetBlockHashes requests naming unknown / zero / one-bit-off hashes, GetBlockHashesFromNumber (0,0), (0,1), (1,0) — "
                "counters gen-regress-*); the boundary grid of the three request handlers "
                "(numbers 0/1/2/H-512..H+2/2^63/2^64-512..2^64-1 x amounts 0/1/2/511/512/513/2^63/2^64-1, known/unknown/zero hashes, "
                "GetBlocks lists of 0..2000 held/unknown hashes), then random well-formed requests (50%), wrong-shape RLP, truncated, "
                "garbage, huge length prefixes, declared sizes around 10 MiB, unknown codes, two real 10 MiB payloads; "
                "distinct = distinct (message class, observed reply) lines; every line is one real session replayed through the model. "
                "Liveness part (s_p2p_live.go, own short-lived node, 16 rounds x 8 variants): after EVERY message — account blocks the "
                "verifier refuses (bad signature, stale hash, foreign key, gap, unsigned, second receive of a send), blocks that pass "
                "verification and are refused by the POOL (fork siblings in both arrival orders, in one TxMsg and in two, against sends "
                "and receives, at the next height and above; duplicates; children of refused blocks; a refused block in front of a valid "
                "one), the next momentum corrupted at five stages by NewBlockMsg and BlocksMsg — the chain's insert lock can be taken "
                "(goroutine + 10 s), an honest peer's valid TxMsg block on another session reaches the pool, an honest request is "
                "answered, and every round ends with the node producing its next momentum (20 s); a stall is reported as class=stalled-* "
                "with the message sequence. The insert-lock probe also follows every message of the main part. "
                "frame / disc streams (monitors only, no model): rlpxFrameRW.ReadMsg on 1-3 valid frames with a bit flipped in "
                "header / header MAC / body / frame MAC, truncated, re-ordered, replayed, with a byte inserted, or garbage; "
                "discover.decodePacket on signed ping/pong/findnode/neighbors packets with a bit flipped in hash / signature / data, "
                "truncated, extended, garbage, and re-hashed corrupted bodies; re-sealed families (s_wire_sealed.go): the inner bytes are "
                "mutated FIRST and sealed afterwards with the sender's own key (disc: signature over the payload + hash; frame: header MAC "
                "+ frame MAC), so every shape reaches the parsing code — disc: payload lengths 0 (no packet-type byte), 1, every "
                "truncation of every packet type, every type byte 0..255, 0..n+2 list fields, wrong list lengths, trailing bytes, "
                "expired/unexpired/extreme expirations, IP sizes, 0..16 neighbours, datagrams of 1279/1280/1281 bytes; oracle: malformed "
                "(not a type byte 1..4 + one RLP value of that shape) => error, never a panic, accepted => attributed to the signer; the "
                "same datagrams go to a live ListenUDP node on loopback from an unbonded and from a bonded peer, which must keep "
                "answering an honest ping (class=live-node-silent); frame: contents of length 0, every single byte, code strings "
                "promising 1..9 bytes, non-canonical / list / >64-bit codes, padding boundaries, arbitrary header tail and padding bytes; "
                "oracle: content = RLP uint64 code + rest, anything else => error, the next frame is still read. "
                "LOGGING: the p2p (main and liveness part), disc and frame streams and p2p-net run with production-like logging — every "
                "logger formats every record (logfmt, the format of common.InitLogging) at debug level into io.Discard — so that "
                "String()/Error()/Format methods in the arguments of log calls run on the values the remote peer sent. "
                "p2p-net stream (s_p2p_net.go, s_p2p_sync.go, rlpx_client.go; monitors only): the node runs in a CHILD process behind a "
                "real p2p.Server on loopback (real RLPx handshakes, the node's own Peer.run / readLoop / pingLoop), remote peers are raw "
                "RLPx clients (initiator handshake written out from the wire format, frames through p2p.NewFrameRWVerif) that speak raw "
                "devp2p; a death of the child is reported as class=process-terminated with the panic, the frames of the node's code and "
                "the last messages sent. Part A, the devp2p BASE protocol after AND instead of the handshake (about 290 directed cases + n "
                "random ones, one connection each): disconnect with reasons 0..20, 127..257, 2^16+-1, 2^31, 2^32+-1, 2^62, 2^63-2..2^63+1, "
                "2^64-2, 2^64-1 in the standard list form and as bare integer / two reasons / nested list / leading zero / empty list / "
                "empty string / no payload / 9-byte integer / truncated / garbage / 70 kB; ping and pong with no payload, lists, 1 KiB, "
                "64 KiB, 1 MiB; handshakes repeated and altered (versions 0/5/2^64-1, zero / foreign id, no / other / doubled / 1000 caps, "
                "names of 1900 and 2100 bytes, garbage, truncated); base codes 4..15; sub-protocol codes 25, 26, 2^32, 2^63, 2^64-1; after "
                "every case an honest peer that stays connected all along must not be disconnected, gets its pong and the answer to a "
                "hash request, and every 25th case a newcomer is accepted and served. Part B, the downloader / fetcher under scripted "
                "peers: 49 scenarios, each a follower node (real chain, verifier, bridge) at height 12 / 7 / 21 (by seed; thorough: all, "
                "and 2) behind its own ProtocolManager + p2p.Server, run concurrently: the peer the node synchronises from (highest "
                "total difficulty) goes SILENT at 7 stages (status, ancestor search early / late, first hash pack, terminating hash "
                "pack, first / third block pack; honest peer connected before or after) while a bystander sends unsolicited "
                "BlockHashes (junk, empty, genuine) / Blocks (empty, genuine, mis-numbered) / NewBlockHashes / NewBlock each time the silent peer "
                "receives a request; the origin ANSWERS with 22 kinds of hostile packs (ancestor probe empty / unknown / ascending, search "
                "answered with 0 / 2 / unknown / other-height hashes, hash packs duplicated / repeated / ascending / one at a time / unknown / "
                "never ending, block packs empty / partial / repeated / unrequested / reversed / mis-numbered / doubled); a non-origin helper "
                "answers block requests with mis-numbered / foreign-body / forged / empty / unrequested packs; ONE import batch assembled from "
                "two peers (forged top momentum — signature, changes hash, producer, timestamp, data under the genuine hash — from X, "
                "everything else from honest H, batch starting with 1 or K momentums the node holds). Monitors with deadlines from the "
                "real time-outs (5 s hash, 9 s block, 4 s cycle; 40 s / 20 s): the node reaches the honest peer's height "
                "(class=sync-stalled), a peer silent on a hash request is disconnected (class=offender-not-dropped), an honest peer is "
                "never disconnected and still served (class=honest-peer-dropped / -not-served), the peer that delivered a refused momentum "
                "— and nobody else — is disconnected, the node holds only the producer's momentums. "
                "TIE TO THE DOWNLOADER MODEL (s_p2p_dl.go, Driver/Downloader.lean; the stream is replayed by the driver): every "
                "scenario records what its scripted peers did and saw, in the model's vocabulary and in wall-clock order (ticks of "
                "100 ms): registrations, the head probe (= Synchronise started, with the local height), every hash pack (the heights "
                "its hashes belong to; what the node's chain says about it as an answer to the ancestor search), every block request "
                "received, every block pack sent (per block: ComputeHash() == Hash, Height in the window, bytes genuine), the "
                "disconnects with reason 3; lines `dl-ev <scenario> <tokens>` and `dl-end <scenario> <target> <judged peers> <mode> | "
                "dropped=<…> synced=<…> stalled=<…>`. The driver replays the events through Dl.step Cfg.fixed (time-outs fire by "
                "ticks) and answers from the model state: the judged peers the MODEL decided to drop (hash time-out, empty / stale / "
                "malformed hash packs, forged block, failed import, nobody left to ask), head >= target, stuck. Exact times are not "
                "compared. Not judged: the bystander, and any peer that sent a block pack that was not THE answer to a request once "
                "block requests were out, or announced a hash again after delivering its block (which request such a pack meets / "
                "whether the hash counts as new is decided by the node's scheduler): such scenarios (as a rule "
                "silent-hashes-terminator, silent-blocks-first/-third, origin-answers-blocks-two-answers, "
                "origin-answers-hashes-one-at-a-time; counter dl-traces-hash-level-only) are replayed on the hash level only, "
                "synced=na; the others (about 44 of 49, dl-traces-exact) in full. Slack of the replay: a request naming hashes the "
                "model still has in flight elsewhere is preceded by requeue, a request to a peer the model holds busy by an "
                "out-of-bound pack of that peer, a head probe while the model holds a run by up to 10 ticks and then cancel, a "
                "disconnect by an update; a hash time-out at most 10 ticks away when the trace ends is let fire (records are "
                "written when the scripted peer's goroutine runs, up to a second late on a loaded machine); the local height of a "
                "synchronisation is corrected to the one the node's search requests imply; WHEN the node registers a peer is not "
                "visible on the wire, so the model is run with the registrations as recorded, as late as possible (before the node's "
                "first action towards the peer) and 10 ticks earlier, and the observation (repeated in front of the bar for that "
                "choice only) is accepted when one of the three runs yields it",
        "partial": "proved: reply caps (every chain, every request, no premise), totality (every message; premises on the node only: "
                   "it holds its genesis momentum and fewer than 2^64-1 momentums, both shown necessary) and size gate of the handler "
                   "MODEL; the two clauses that were false of the code (F7a, F7b) are repaired (d85e958, 99f2642) and their inputs are "
                   "sent to the real handler on every run. Not proved, checked by differential run only: survival on every byte "
                   "string (RLP library, downloader/fetcher goroutines), allocation inside rlp, liveness of the message loop; "
                   "rlpx frame MAC/size and discovery packet checks have no model/theorem (T4 frame_reject not built): they are "
                   "exercised by the monitor-only streams frame and disc; the devp2p base protocol (p2p/peer.go, p2p/server.go) and the "
                   "fetcher have no model: p2p-net monitors (process survival, liveness with deadlines, blame). "
                   "SYNCHRONISATION (Props/C15Sync.lean, Model/Downloader.lean: Synchronise / findAncestor / fetchHashes / "
                   "fetchBlocks / process / queue as a transition system over events, variants of the code as a parameter): proved "
                   "for the code as it is (pinned by AST facts: sender test before timeout.Stop(), draining loop before "
                   "syncWithPeer, ComputeHash test before block.Height, errForgedBlock drops blockPack.peerId, process drops "
                   "blocks[index].OriginPeer, the errors Synchronise answers with a drop, the time-outs) — (a) the time-out of the "
                   "pending hash request is armed in every reachable state in which the hash fetcher waits, and hashTTL ticks end "
                   "the wait; (b) from every reachable state silence ends the synchronisation within an explicit measure "
                   "<= hashTTL + 3 + (requests in flight + peers)(blockTTL + 2) ticks; (c) a synchronisation starts with empty "
                   "channels and queue whatever the previous one left, the block fetcher never returns before the hash fetcher of the "
                   "same synchronisation said so, no reachable state is stuck; (d) whoever is dropped is at fault (forged block / "
                   "failed import: the deliverer; the origin only for its own time-out, hash packs, an authentic block of its chain "
                   "outside the window, or when nobody can be asked); negative witnesses for the three variants (seeded C15-r2-1; "
                   "before 4fc5ee4 = FU2 with `deadlock_is_forever`; before 7ec6f07 = FU1). PARTIAL: the concurrency of the real "
                   "goroutines is abstracted to event interleavings (a goroutine whose cancel channel is closed leaves at once; the "
                   "block fetcher takes processCh at its next update); Go channel semantics and timers are MODELLED, not verified; "
                   "(b) assumes that every update offers a request to every idle peer (the loop over IdlePeers(), hypothesis "
                   "MaximalRun) and does not cover throttling (cache of 4096 blocks full), maxQueuedHashes (262144) and a peer that "
                   "keeps ANSWERING just in time; reputation / capacity are not modelled (which peer is asked for which hashes is an "
                   "input); the replay judges drops and synced/stalled, not times. FU1 and FU2, found by this stream, are repaired "
                   "(7ec6f07 + 5b338e6, 4fc5ee4); their pre-repair variants are the negative witnesses",
        "assumptions": ["go-ethereum rlp decodes as specified (the stream classifies each payload with the same decoder the handler uses)",
                        "the chain is abstracted to its height; hashes are identified with the height of the momentum that carries them",
                        "handler_total: the node holds its genesis momentum and its height is below 2^64-1 (no premise on the message)",
                        "downloader model: a hash is identified with the height its momentum commits to (ComputeHash() == Hash makes the "
                        "height authentic); an empty block pack never reaches the downloader (handler.go guard, generated fact)"],
        "trusted_base": ["p2p.MsgPipe session harness (probe message delimits the node's answer)",
                         "p2p-net: the harness's RLPx initiator handshake and scripted eth/61 peers (honest answers mirror handleMsg: hashes from the highest height down)"],
    },
    "C16": {
        "module": "ZenonVerif.Props.C16",
        "streams": [S("sync-batches", 300, 6000, timeout=3000)],
        "rule": "sync-batches stream: a mock producer builds a trunk of 78 momentums with user sends/receives and 7 side branches "
                "(fork 1..36 below the tip); followers receive batches through the real chainBridge.InsertChain after an RLP round "
                "trip: directed sweep fork depth {1,2,3,5,10,17,29,30,31,32,35} x tail {shorter,equal,+1,+3}; 10 corruption kinds x "
                "{first,last,middle} x {extension with known prefix, side chain}; non-linking second elements; random: extensions, "
                "overlaps, duplicates, gaps, empty, forks with/without known prefix, fabricated heads; on every run the batches of the "
                "repaired finding F7c on a mid-trunk follower and on a genesis-only follower (empty batch, first unknown momentum at "
                "frontier+2 / +6 / 2^62, with a known prefix in front, claimed height 0 / 1; counters directed-*), followed by the honest "
                "continuation. A body corruption (blocksig, blockamount) of an account block the follower already pools is not a corruption of "
                "what the node verifies (InsertChain skips a block whose patch it holds and builds the momentum from its own verified copy): "
                "such an element counts as valid when it is certain to be skipped (counter corrupt-ignored-pooled-block; the monitor still "
                "checks that the node ends up with the producer's bytes) and is replaced by a momentum-level corruption otherwise. "
                "n counts test batches (the clean "
                "continuation. The history carries contract traffic (fusions, QSR deposits/withdrawals, token issues, delegations: "
                "contract receives with and without descendant blocks, contract sends, user receives of contract sends). Account-block "
                "side (s_syncbatches_ab.go): 30 mutations of ONE account block inside a delivered momentum, chosen by block type (user "
                "send/receive, contract receive, contract receive with descendants, stand-alone contract send) and position "
                "(first/last/middle block; first/middle/last momentum): fields the hash does not cover (public key / signature present on a "
                "contract block — also a valid signature by a pillar key —, absent / truncated / foreign on a user block; changes hash; plasma "
                "fields; uncovered fields and content of descendants; descendant lists dropped / duplicated / re-hashed) and covered fields "
                "with and without re-hashing; every mutation once per run (directed, a follower walking up the trunk so that refusals "
                "accumulate) and at random (2 in 5 invalid batches). Two-step monitor: after EVERY delivery nothing in the node's pool of "
                "unconfirmed blocks differs from the producer's bytes (M4; M1 does the same for the chain), and after every refused "
                "delivery the genuine version of the same batch is delivered next (its line is replayed by the model; a batch of genuine "
                "momentums that extends the frontier must be adopted: model-free monitor M5). Mutations of fields the node recomputes for "
                "itself (plasma fields, descendants under an unchanged hash, call data of embedded sends, the stand-alone copy of a "
                "contract send) are `lenient`: adopting with the producer's bytes and refusing both satisfy C16, the valid bit of the "
                "line follows the node's choice. "
                "Unlisted blocks (corruption kinds extrablock-front / -middle / -end, s_syncbatches.go extraDonors): a momentum delivered "
                "with ONE MORE account block than it lists — a genuine block of a SIBLING momentum on another branch of the history "
                "(three extra one-momentum branches give ~50 momentums a sibling), i.e. a block of another account that is valid on its "
                "own on the very state the momentum is verified on (previous = that account's frontier, acknowledges an ancestor, its send "
                "confirmed by an ancestor) — in front of / between / behind the listed blocks, and extrablock-of-batch (a copy of a block "
                "another momentum of the same batch lists); directed (4 momentums x 4 kinds, with 0-2 known momentums in front and 0-3 "
                "genuine ones behind; thorough 16) and in the random and directed corruption sweeps; InsertChain must refuse at that "
                "element and adopt the genuine batch afterwards. "
                "Deliveries that WAIT for the insert lock (s_syncbatches_conc.go, 15 directed cases per run): the harness holds "
                "chain.AcquireInsert, starts InsertChain on a goroutine, extends the node's chain by 0-3 trunk momentums under the held "
                "lock (ApplyBlock / ForceAddAccountBlockTransaction / ApplyMomentum / AddMomentumTransaction — a line of its own, "
                "extend-under-lock), releases and waits (30 s deadline): side chains longer / equal / shorter than the frontier before "
                "and after the growth, inside the window before and outside / at its edge after, extensions completely / exactly / "
                "partly known after the growth, batches that extend the old frontier and fork off the grown part; monitors M2 (never "
                "shorter, rollback <= 30) and the model line are evaluated against the chain the node has AFTER the growth; M6: a batch "
                "of which the node holds every element is a no-op without error (class=known-batch-not-noop). "
                "n counts test batches (the clean "
                "batches that position a follower are extra lines, also replayed); distinct = distinct lines",
        "partial": "the model's node is the chain at insertion time: theorem insertChain_reads_under_lock pins (AST facts) that InsertChain "
                   "reads nothing from the node before c.chain.AcquireInsert and releases the lock by a deferred Unlock, and the stream "
                   "delivers batches that wait for the lock while the chain grows. "
                   "momentum + account-block verification is an oracle (`valid`) of the model — C03/C05 own it; the stream supplies it as "
                   "'bytes are the producer's own' and the monitor checks the node only ever holds such bytes. Downloader/fetcher "
                   "queueing and peer dropping are not modelled. insert_total holds for every node and batch (F7c repaired in 264f72a: "
                   "empty and unlinkable batches are refused without touching the node); the rollback happens before "
                   "verification (F7d, known finding, negative witness rollback_before_verification); a user block whose ChangesHash "
                   "was altered stays in the pool of the node that refused the momentum around it (the C16 view of known finding F9)",
        "assumptions": ["full verification of one delivered momentum on the state it extends is an oracle valid : DM -> Bool plus the link test",
                        "hashes are collision-free on the inputs that arise (8-byte prefixes identify momentums in the line protocol)"],
    },
}
