"""Per-property configuration of ./check: theorem module, correspondence streams, notes."""

def S(name, nq, nt, **kw):
    d = {"name": name, "n_quick": nq, "n_thorough": nt}
    d.update(kw)
    return d

PROPS = {
    "C12": {
        "module": "ZenonVerif.Props.C12",
        "streams": [S("pow", 20000, 1000000)],
        "rule": "pow stream: boundary set + random uint64 difficulties (a sixth each: boundary, small, 2^k±2, top-bit set, "
                "shifted, uniform), 8-byte comparisons (equal / one-bit apart / random), fused amounts around unit and cap "
                "boundaries; distinct = distinct (op,result) lines; every line is evaluated on the real code and the model",
        "partial": "SHA3 is a parameter (hash prefix supplied as input); enoughPlasma decision on ledger states is tied by "
                   "the plasma stream once the mock-node harness is attached",
        "assumptions": ["SHA3-256 is an uninterpreted parameter of checkPoWNonce"],
    },
    "C18": {
        "module": "ZenonVerif.Props.C18",
        "streams": [S("paging", 30000, 2000000)],
        "rule": "paging stream: (index,count,len) over the full uint32 range with boundary bias + complete page sweeps of "
                "random lists; distinct = distinct (op,result) lines",
        "partial": "JSON-RPC server robustness and the ~80 embedded getters are runtime/correspondence only",
    },
    "C15": {
        "module": "ZenonVerif.Props.C15",
        "streams": [S("p2p", 2500, 60000, timeout=3000),
                    S("frame", 3000, 300000, driver=False), S("disc", 3000, 300000, driver=False)],
        "rule": "p2p stream: one peer session per message against a real ProtocolManager over the mock node's ChainBridge "
                "(chain of 530 momentums): 12 handshake variants, the boundary grid of the three request handlers "
                "(numbers 0/1/2/H-512..H+2/2^63/2^64-512..2^64-1 x amounts 0/1/2/511/512/513/2^63/2^64-1, known/unknown/zero hashes, "
                "GetBlocks lists of 0..2000 held/unknown hashes), then random well-formed requests (50%), wrong-shape RLP, truncated, "
                "garbage, huge length prefixes, declared sizes around 10 MiB, unknown codes, two real 10 MiB payloads; "
                "distinct = distinct (message class, observed reply) lines; every line is one real session replayed through the model. "
                "frame / disc streams (monitors only, no model): rlpxFrameRW.ReadMsg on 1-3 valid frames with a bit flipped in "
                "header / header MAC / body / frame MAC, truncated, re-ordered, replayed, with a byte inserted, or garbage; "
                "discover.decodePacket on signed ping/pong/findnode/neighbors packets with a bit flipped in hash / signature / data, "
                "truncated, extended, garbage, and re-hashed corrupted bodies",
        "partial": "proved: reply caps, totality and size gate of the handler MODEL (two clauses only under premises — F7a/F7b, found "
                   "again by the monitor on the real handler). Not proved, checked by differential run only: survival on every byte "
                   "string (RLP library, downloader/fetcher goroutines), allocation inside rlp, liveness of the message loop; "
                   "rlpx frame MAC/size and discovery packet checks have no model/theorem (T4 frame_reject not built): they are "
                   "exercised by the monitor-only streams frame and disc",
        "assumptions": ["go-ethereum rlp decodes as specified (the stream classifies each payload with the same decoder the handler uses)",
                        "the chain is abstracted to its height; hashes are identified with the height of the momentum that carries them"],
        "trusted_base": ["p2p.MsgPipe session harness (probe message delimits the node's answer)"],
    },
    "C16": {
        "module": "ZenonVerif.Props.C16",
        "streams": [S("sync-batches", 220, 6000, timeout=3000)],
        "rule": "sync-batches stream: a mock producer builds a trunk of 78 momentums with user sends/receives and 7 side branches "
                "(fork 1..36 below the tip); followers receive batches through the real chainBridge.InsertChain after an RLP round "
                "trip: directed sweep fork depth {1,2,3,5,10,17,29,30,31,32,35} x tail {shorter,equal,+1,+3}; 10 corruption kinds x "
                "{first,last,middle} x {extension with known prefix, side chain}; non-linking second elements; random: extensions, "
                "overlaps, duplicates, gaps, empty, forks with/without known prefix, fabricated heads. n counts test batches (the clean "
                "batches that position a follower are extra lines, also replayed); distinct = distinct lines",
        "partial": "momentum + account-block verification is an oracle (`valid`) of the model — C03/C05 own it; the stream supplies it as "
                   "'bytes are the producer's own' and the monitor checks the node only ever holds such bytes. Downloader/fetcher "
                   "queueing and peer dropping are not modelled. insert_total only under premises (F7c); the rollback happens before "
                   "verification (F7d, negative witness)",
        "assumptions": ["full verification of one delivered momentum on the state it extends is an oracle valid : DM -> Bool plus the link test",
                        "hashes are collision-free on the inputs that arise (8-byte prefixes identify momentums in the line protocol)"],
    },
}
