"""Per-property configuration of ./check: theorem module, correspondence streams, notes."""

def S(name, nq, nt, **kw):
    d = {"name": name, "n_quick": nq, "n_thorough": nt}
    d.update(kw)
    return d

PROPS = {
    "C12": {
        "module": "ZenonVerif.Props.C12",
        "streams": [S("pow", 20000, 1000000)],
        "rule": "pow stream: boundary set + random uint64 difficulties (a sixth each: boundary, small, 2^k±2, top-bit set, "
                "shifted, uniform), 8-byte comparisons (equal / one-bit apart / random), fused amounts around unit and cap "
                "boundaries; distinct = distinct (op,result) lines; every line is evaluated on the real code and the model",
        "partial": "SHA3 is a parameter (hash prefix supplied as input); enoughPlasma decision on ledger states is tied by "
                   "the plasma stream once the mock-node harness is attached",
        "assumptions": ["SHA3-256 is an uninterpreted parameter of checkPoWNonce"],
    },
    "C13": {
        "module": "ZenonVerif.Props.C13",
        "streams": [S("codec", 4000, 100000), S("calldata", 6000, 300000, driver=False)],
        "rule": "codec stream: generated account blocks of all 5 block types (plus out-of-range types), up to 3 levels of "
                "nested descendants, amounts nil/0/1/2^255-1/2^255/2^256-1/2^256/33+ bytes/negative, uint64 fields on varint "
                "boundaries, data nil/empty/127/128/16383/16384/20000 bytes, and momentums with 0..101 content entries; "
                "one evaluation = one value pushed through the real ComputeHash / Serialize / Deserialize / JSON / RLP code "
                "and the same operation replayed by the Lean model; distinct = distinct (op,result) lines. calldata stream: "
                "every ValidateSendBlock of the embedded contracts on canonical and re-arranged ABI call data (trailing bytes, "
                "dirty padding, relocated tails); evaluated on the real code only (no Lean replay)",
        "partial": "hash function is a parameter (injective on the inputs that arise); the two-node stream `variants` and the "
                   "acceptance-side theorem uncovered_fields_normalised (T2: stored bytes are a function of covered fields and "
                   "state) are not built in this round; RLP: generic item round trip is a theorem and the typed encoder is "
                   "byte-equal to go-ethereum on the stream, the typed decoder (reflection over Go structs) is covered by "
                   "Go-side round-trip monitors only; JSON object structure is not modelled (amount / nonce text forms are); "
                   "T4 (call data canonical) has no Lean model of the ABI: it is an AST fact (every ValidateSendBlock "
                   "re-packs block.Data) plus model-free monitors on every embedded method",
        "assumptions": ["SHA3-256 (types.NewHash) is an uninterpreted parameter H: fixed 32-byte output, collision-free on the "
                        "pre-images, data and descendant/content sources of the blocks compared"],
    },
    "C18": {
        "module": "ZenonVerif.Props.C18",
        "streams": [S("paging", 30000, 2000000)],
        "rule": "paging stream: (index,count,len) over the full uint32 range with boundary bias + complete page sweeps of "
                "random lists; distinct = distinct (op,result) lines",
        "partial": "JSON-RPC server robustness and the ~80 embedded getters are runtime/correspondence only",
    },
}
