"""Per-property configuration of ./check: theorem module, correspondence streams, notes."""

def S(name, nq, nt, **kw):
    d = {"name": name, "n_quick": nq, "n_thorough": nt}
    d.update(kw)
    return d

VDB_RULE = ("vdb stream: one evaluation = one operation (commit on frontier / on a stale parent, pop, open view at a current, "
            "abandoned, unknown, wrong-height or zero id, get, has, ordered prefix scan, put, delete, snapshot, subset, changes, "
            "apply) executed on a real NewLevelDBManager / NewMemDB and replayed through the Lean model; keys share prefixes, "
            "values include empty and [0]; every open view is re-validated in full against a shadow map after later "
            "commits/pops; distinct = distinct (op,result) lines")

LEDGER_RULE = ("ledger stream: one evaluation = one line: an accepted account block of a generated history on a real node "
               "(transfers with boundary amounts and unknown tokens, receives by addressee / third account / repeated, token "
               "issue/mint/burn/update with valid and invalid arguments, calls to every method of every embedded contract "
               "with generated ABI arguments, under 0-3 activated sporks, one history in five below the receiver-enforcement "
               "height) replayed through the Lean ledger model, or a state query after a momentum (every non-zero balance, "
               "every token's supply/max/flags, number of unreceived sends); monitors: conservation sum at every momentum and "
               "every pool state, pending sets, at-most-once receive, inbox FIFO, exact refund; distinct = distinct lines")

CONTRACT_RULE = ("contract stream: one evaluation = one line: a contract receive of a generated history on a real node (decoded call, "
                 "sender, amount/token, the frontier momentum it saw, oracle inputs such as preimage digests / signature check / "
                 "configured token pair, observed status and descendant sends) replayed through the Lean state machine of that "
                 "contract which predicts status and payouts, or a storage / balance query after a momentum (every entry read "
                 "through the definition.* getters for the contracts touched in that momentum, per-contract digests and balances "
                 "at every momentum) answered from the model state; contracts: plasma, stake, htlc, pillar, sentinel (+ QSR "
                 "deposits), liquidity stakes, bridge unwrap/redeem; calls are built by contract-specific generators (valid flows, "
                 "wrong owner, too early / exactly at / just after maturity or window edges, repeated, unknown id, wrong "
                 "token/amount/duration/preimage/signature, proxy unlock allowed/denied); five histories in six run with shortened "
                 "lock periods (the constants are package variables), one in six with the production values; two thirds run under "
                 "the accelerator+bridge+htlc sporks, of those half with the liquidity and half with the bridge administrator "
                 "setup; monitors: sum of recorded liabilities <= balance per contract and token at every momentum, every payout "
                 "goes to the entitled party with the locked amount not before maturity and never twice, storage agrees with the "
                 "log of confirmed deposits, matured withdrawals are not refused, refunds exact; distinct = distinct lines")

PROPS = {
    "C10": {
        "module": "ZenonVerif.Props.C10",
        "streams": [S("contract", 60, 600)],
        "rule": CONTRACT_RULE,
        "partial": "reward bookkeeping (Update / CollectReward), legacy pillar registration, liquidity administration and "
                   "reward pools enter the replay as observed outcomes and are outside the liability sums; for liquidity only "
                   "LiquidityStake / CancelLiquidityStake / BurnZnn are modelled and backing holds only without BurnZnn/Fund "
                   "(known finding F14); for the bridge only UnwrapToken / Redeem / RevokeUnwrapRequest are modelled, with the "
                   "configuration reads (may-act, token pair found) and the TSS signature check as oracle inputs computed by the "
                   "harness from the real storage / real CheckECDSASignature; wrap requests, fees, halting and key management are "
                   "observed outcomes only; stake entries deleted by a reward epoch are not reached (first epoch only); the "
                   "theorems are per contract (no joint theorem over interleavings with unmodelled methods)",
        "assumptions": ["send-block hashes are collision-free (fresh ids)", "every amount is below 2^256 (token max supply is 2^255-1)",
                        "timestamps and heights stay below 2^62 (no int64/uint64 wrap-around)",
                        "SHA3-256 / SHA-256 (htlc) and secp256k1 recovery (bridge) are parameters / oracle inputs",
                        "frontier time is never 0 (pillar revoke; genesis is in 2001)"],
    },
    "C01": {
        "module": "ZenonVerif.Props.C01",
        "streams": [S("ledger", 60, 3000)],
        "rule": LEDGER_RULE,
        "partial": "methods of non-token contracts are parameters of the model (their observed descendant sends are inputs, "
                   "checked for funding and exact refund); genesis consistency is C20",
        "assumptions": ["hashes are opaque identifiers (collision-free)"],
    },
    "C07": {
        "module": "ZenonVerif.Props.C07",
        "streams": [S("vdb", 400, 20000)],
        "rule": VDB_RULE,
        "partial": "concurrency (readers vs writer) is not modelled: sequential model + mutex/snapshot isolation trusted; "
                   "the l1/l2 caches are not in the model (cache-free reconstruction), the cached code is compared by correspondence; "
                   "historical scans drop empty-valued keys (known finding F3b)",
        "assumptions": ["goleveldb snapshot isolation and memdb thread-safety", "sequential executions only"],
    },
    "C06": {
        "module": "ZenonVerif.Props.C06",
        "streams": [S("vdb", 400, 20000, arg="mix=pop")],
        "rule": VDB_RULE + "; pop-heavy mix: views are opened before a branch switch and re-read after it",
        "partial": "pool-after-switch and consensus statistics after a switch are covered by the two-node sync stream (C02), not by theorems yet",
    },
    "C12": {
        "module": "ZenonVerif.Props.C12",
        "streams": [S("pow", 20000, 1000000)],
        "rule": "pow stream: boundary set + random uint64 difficulties (a sixth each: boundary, small, 2^k±2, top-bit set, "
                "shifted, uniform), 8-byte comparisons (equal / one-bit apart / random), fused amounts around unit and cap "
                "boundaries; distinct = distinct (op,result) lines; every line is evaluated on the real code and the model",
        "partial": "SHA3 is a parameter (hash prefix supplied as input); enoughPlasma decision on ledger states is tied by "
                   "the plasma stream once the mock-node harness is attached",
        "assumptions": ["SHA3-256 is an uninterpreted parameter of checkPoWNonce"],
    },
    "C18": {
        "module": "ZenonVerif.Props.C18",
        "streams": [S("paging", 30000, 2000000)],
        "rule": "paging stream: (index,count,len) over the full uint32 range with boundary bias + complete page sweeps of "
                "random lists; distinct = distinct (op,result) lines",
        "partial": "JSON-RPC server robustness and the ~80 embedded getters are runtime/correspondence only",
    },
}
