"""Per-property configuration of ./check: theorem module, correspondence streams, notes."""

def S(name, nq, nt, **kw):
    d = {"name": name, "n_quick": nq, "n_thorough": nt}
    d.update(kw)
    return d

VDB_RULE = ("vdb stream: one evaluation = one operation (commit on frontier / on a stale parent, pop, open view at a current, "
            "abandoned, unknown, wrong-height or zero id, get, has, ordered prefix scan, put, delete, snapshot, subset, changes, "
            "apply) executed on a real NewLevelDBManager / NewMemDB and replayed through the Lean model; keys share prefixes, "
            "values include empty and [0]; every open view is re-validated in full against a shadow map after later "
            "commits/pops; distinct = distinct (op,result) lines")

LEDGER_RULE = ("ledger stream: one evaluation = one line: an accepted account block of a generated history on a real node "
               "(transfers with boundary amounts and unknown tokens, receives by addressee / third account / repeated, token "
               "issue/mint/burn/update with valid and invalid arguments, calls to every method of every embedded contract "
               "with generated ABI arguments, under 0-3 activated sporks, one history in five below the receiver-enforcement "
               "height) replayed through the Lean ledger model, or a state query after a momentum (every non-zero balance, "
               "every token's supply/max/flags, number of unreceived sends); monitors: conservation sum at every momentum and "
               "every pool state, pending sets, at-most-once receive, inbox FIFO, exact refund; distinct = distinct lines")

VERIFY_RULE = ("verify stream: one evaluation = one candidate account block handed to the real vm.Supervisor.ApplyBlock on a "
               "reachable state of a real node (generated history of transfers, receives, contract calls, pooled blocks, "
               "momentums; one history in six below the receiver-enforcement height). Candidates per base block (fresh user "
               "send / user receive / send to a contract, pooled user block and pooled contract receive with and without "
               "descendant blocks re-delivered, confirmed block re-delivered): the valid block, every single-field mutation "
               "(~150: each field zero/+-1/max/boundary/copied from another block/foreign hash/wrong or older predecessor/"
               "acknowledged momentum zero, unknown, older, non-frontier/amount -1, 2^255-1, 2^255, balance+1/receives of "
               "received, unknown, third-party sends/PoW with bad nonce/plasma too high/data > 16 KiB/type 0,1,4,5,6/...) "
               "each with the hash left alone and with hash recomputed + re-signed by the legitimate key, 16 key/signature "
               "mutations, the same mutations inside descendant blocks, and 24 sampled double mutations; the line carries "
               "the block's verifier-relevant fields and the context facts gathered by independent reads of the stores; "
               "the Lean model must give the same verdict AND the same reason; monitor: the property's sentence "
               "re-implemented from the statement, evaluated on every accepted candidate; distinct = distinct lines")

PROPS = {    "C01": {
        "module": "ZenonVerif.Props.C01",
        "streams": [S("ledger", 60, 3000)],
        "rule": LEDGER_RULE,
        "partial": "methods of non-token contracts are parameters of the model (their observed descendant sends are inputs, "
                   "checked for funding and exact refund); genesis consistency is C20",
        "assumptions": ["hashes are opaque identifiers (collision-free)"],
    },
    "C03": {
        "module": "ZenonVerif.Props.C03",
        "streams": [S("verify", 60, 2500)],
        "rule": VERIFY_RULE,
        "partial": "SHA3/Ed25519/PoW hash, the embedded method table (plasma, ValidateSendBlock) and the regeneration of "
                   "contract blocks are oracle facts supplied by the harness from the real functions; completeness is shown on "
                   "three honest instances, not as a general theorem; descendant blocks of receive type are outside the model "
                   "(MODEL-GAP, never produced by the node); that the regenerated descendant blocks pass the nine checks "
                   "is assumed (they are the node's own), that they are the ones kept is an AST fact (fix 48b97c9, F20b)",
        "assumptions": ["SHA3-256 and Ed25519 are oracle booleans (hash matches, signature verifies, key maps to address)",
                        "the node's stores answer the context facts consistently (the facts are inputs of the model)"],
    },
    "C07": {
        "module": "ZenonVerif.Props.C07",
        "streams": [S("vdb", 400, 20000)],
        "rule": VDB_RULE,
        "partial": "concurrency (readers vs writer) is not modelled: sequential model + mutex/snapshot isolation trusted; "
                   "the l1/l2 caches are not in the model (cache-free reconstruction), the cached code is compared by correspondence; "
                   "historical scans drop empty-valued keys (known finding F3b)",
        "assumptions": ["goleveldb snapshot isolation and memdb thread-safety", "sequential executions only"],
    },
    "C06": {
        "module": "ZenonVerif.Props.C06",
        "streams": [S("vdb", 400, 20000, arg="mix=pop")],
        "rule": VDB_RULE + "; pop-heavy mix: views are opened before a branch switch and re-read after it",
        "partial": "pool-after-switch and consensus statistics after a switch are covered by the two-node sync stream (C02), not by theorems yet",
    },
    "C12": {
        "module": "ZenonVerif.Props.C12",
        "streams": [S("pow", 20000, 1000000)],
        "rule": "pow stream: boundary set + random uint64 difficulties (a sixth each: boundary, small, 2^k±2, top-bit set, "
                "shifted, uniform), 8-byte comparisons (equal / one-bit apart / random), fused amounts around unit and cap "
                "boundaries; distinct = distinct (op,result) lines; every line is evaluated on the real code and the model",
        "partial": "SHA3 is a parameter (hash prefix supplied as input); enoughPlasma decision on ledger states is tied by "
                   "the plasma stream once the mock-node harness is attached",
        "assumptions": ["SHA3-256 is an uninterpreted parameter of checkPoWNonce"],
    },
    "C18": {
        "module": "ZenonVerif.Props.C18",
        "streams": [S("paging", 30000, 2000000)],
        "rule": "paging stream: (index,count,len) over the full uint32 range with boundary bias + complete page sweeps of "
                "random lists; distinct = distinct (op,result) lines",
        "partial": "JSON-RPC server robustness and the ~80 embedded getters are runtime/correspondence only",
    },
}
