"""Per-property configuration of ./check: theorem module, correspondence streams, notes."""

def S(name, nq, nt, **kw):
    d = {"name": name, "n_quick": nq, "n_thorough": nt}
    d.update(kw)
    return d

PROPS = {
    "C05": {
        "module": "ZenonVerif.Props.C05",
        "streams": [S("election", 2000, 40000), S("ticker", 4000, 400000), S("mverify", 40, 300)],
        "rule": "election stream: delegation sets of 1..60 pillars (names: numbered / case variants / prefixes of one "
                "another / arbitrary bytes / realistic; weights: all equal / all zero / few values / ZNN amounts / >64 bit "
                "/ one heavy / distinct) x heights (small, uniform uint64, 2^63 and 2^64 boundaries) x (NodeCount,RandCount) "
                "(live 30/15 in 60% of the cases, small and random groups otherwise) through the real SelectProducers; "
                "distinct = distinct (op,result) lines; every line is evaluated on the real code and on the model, and "
                "the monitors re-run the real code on a permuted copy of the input. ticker stream: ToTick/ToTime at tick "
                "boundaries +-1 s, before the start, beyond the 292-year int64 range, generateProducers/genProofTime for live and "
                "random (BlockTime,NodeCount). mverify stream: n rounds on a real mock chain (slots and whole ticks skipped, "
                "delegations and balances changing); per round the valid next momentum and ~50 variants (every single-field "
                "mutation, the same re-hashed and re-signed by the elected pillar, re-timed, signed by a non-elected pillar or a "
                "user, content dropped/duplicated/reordered) judged by the real Supervisor.ApplyMomentum and by the model, plus "
                "GetMomentumBeforeTime at every timestamp +-1 s against the specification and the loop model, plus "
                "GetMomentumProducer for all slots of two ticks on the caching instance and on a cold instance",
        "partial": "rand.Perm and sort.Sort are parameters (any permutation / any sorted permutation); hashes, ed25519 and the "
                   "momentum VM are oracle values; GetMomentumBeforeTime = specification is proved for whole-second instants "
                   "(all callers) and only as partial correctness for sub-second instants (the real loop can spin there: "
                   "before_time_subsecond_hangs); ToTick is modelled for whole-second instants only (Duration.Seconds() is a "
                   "float; the last nanosecond of a tick rounds up for chains older than 194 days - counted by the ticker "
                   "stream, not judged); the ticker theorems hold within 292 years of genesis (int64 ns Duration; negative "
                   "witness ticker_wraps_after_292_years); ComputePillarDelegations (weights from balances) is taken from the real code; schedule equality after "
                   "restart / reorganisation across nodes is left to the sync stream (C06/C16)",
        "assumptions": ["math/rand.Perm returns a permutation of 0..n-1 (checked by the driver on every shipped oracle value)",
                        "sort.Sort returns a sorted permutation of its input"],
    },
    "C12": {
        "module": "ZenonVerif.Props.C12",
        "streams": [S("pow", 20000, 1000000)],
        "rule": "pow stream: boundary set + random uint64 difficulties (a sixth each: boundary, small, 2^k±2, top-bit set, "
                "shifted, uniform), 8-byte comparisons (equal / one-bit apart / random), fused amounts around unit and cap "
                "boundaries; distinct = distinct (op,result) lines; every line is evaluated on the real code and the model",
        "partial": "SHA3 is a parameter (hash prefix supplied as input); enoughPlasma decision on ledger states is tied by "
                   "the plasma stream once the mock-node harness is attached",
        "assumptions": ["SHA3-256 is an uninterpreted parameter of checkPoWNonce"],
    },
    "C18": {
        "module": "ZenonVerif.Props.C18",
        "streams": [S("paging", 30000, 2000000)],
        "rule": "paging stream: (index,count,len) over the full uint32 range with boundary bias + complete page sweeps of "
                "random lists; distinct = distinct (op,result) lines",
        "partial": "JSON-RPC server robustness and the ~80 embedded getters are runtime/correspondence only",
    },
}
