"""Per-property configuration of ./check: theorem module, correspondence streams, notes."""

def S(name, nq, nt, **kw):
    d = {"name": name, "n_quick": nq, "n_thorough": nt}
    d.update(kw)
    return d

PROPS = {
    "C12": {
        "module": "ZenonVerif.Props.C12",
        "streams": [S("pow", 20000, 1000000)],
        "rule": "pow stream: boundary set + random uint64 difficulties (a sixth each: boundary, small, 2^k±2, top-bit set, "
                "shifted, uniform), 8-byte comparisons (equal / one-bit apart / random), fused amounts around unit and cap "
                "boundaries; distinct = distinct (op,result) lines; every line is evaluated on the real code and the model",
        "partial": "SHA3 is a parameter (hash prefix supplied as input); enoughPlasma decision on ledger states is tied by "
                   "the plasma stream once the mock-node harness is attached",
        "assumptions": ["SHA3-256 is an uninterpreted parameter of checkPoWNonce"],
    },
    "C19": {
        "module": "ZenonVerif.Props.C19",
        "streams": [S("wallet", 600, 30000, timeout=7200)],
        "rule": "wallet stream: path strings (fixed malformed set, boundary segments 2^31-1/2^31/2^32-1/2^32/leading zeros/"
                "20+ digits, random valid paths, a third of them mutated by one byte edit), DeriveForPath / DeriveWithIndex "
                "on those with seeds of 0..128 bytes, PubKeyToAddress on 0..64-byte strings, keyStoreFromEntropy on 0..64-byte "
                "entropies, key files for entropies of 16/20/24/28/32 bytes x 7 passwords (empty, unicode, 4 kB, binary) with "
                "write -> read -> decrypt, wrong passwords, single-bit flips of ciphertext/nonce/salt (one complete sweep of all "
                "bits of one file + 6 random bits per further file) and header edits; one evaluation = one call of the real "
                "wallet code replayed through the Lean model with the primitives supplied as oracle values; distinct = "
                "distinct (op,result) lines",
        "partial": "'fails with any other password / after any change to ciphertext, nonce or salt' is AES-GCM authenticity "
                   "and Argon2id behaviour: an assumption, exercised by the stream (wrong passwords, bit flips), not a theorem; "
                   "JSON text encoding of the key file (hexutil / bech32) is exercised by the stream only; Timestamp is wall "
                   "clock and excluded",
        "assumptions": ["HMAC-SHA512, SHA3-256, Ed25519, Argon2id, AES-256-GCM, BIP-39 are uninterpreted parameters "
                        "(structure Crypto) with laws open_seal, verify_sign, hmac_len, sha3_len as explicit fields"],
    },
    "C18": {
        "module": "ZenonVerif.Props.C18",
        "streams": [S("paging", 30000, 2000000)],
        "rule": "paging stream: (index,count,len) over the full uint32 range with boundary bias + complete page sweeps of "
                "random lists; distinct = distinct (op,result) lines",
        "partial": "JSON-RPC server robustness and the ~80 embedded getters are runtime/correspondence only",
    },
    "C20": {
        "module": "ZenonVerif.Props.C20",
        "streams": [S("genesis", 150, 5000, timeout=7200)],
        "rule": "genesis stream: per case one random CONSISTENT configuration derived from the mock genesis (2-9 users, 2-5 tokens, "
                "1-5 pillars, delegations, legacy entries, 0-7 fusions with distinct ids, 0-4 swap entries, optional sporks, "
                "optional swap/token/stake contract entries), 4 permutations of every unordered list -> NewGenesis hash in process "
                "(every 5th config also in two fresh subprocesses), 6 single-entry perturbations drawn from 25 kinds -> real "
                "CheckGenesis (whole and validator by validator) vs model verdict, accepted configurations are started on a fresh "
                "chain and the ledger is compared with the statement's sums, every 3rd config a LevelDB created with A is restarted "
                "with B and with permuted A; 20 header lists per config through the real NewMomentumContent; distinct = distinct "
                "(op,result) lines",
        "partial": "invariance of the full genesis momentum (hash, patch of all embedded storage) under list permutation and across "
                   "fresh processes is decided by the stream on the real code, not by a theorem (the theorems cover the two "
                   "order-sensitive mechanisms: sorted momentum content, commuting writes to distinct keys); the contract-holding "
                   "and supply clauses of CheckGenesis hold only under extra premises (contract has a GenesisBlocks entry; one entry "
                   "per address) and TotalSupply <= MaxSupply is unchecked: _partial theorems + negative witnesses, known findings "
                   "F13a/F13b/F13c/F13e (and F13d: ReadGenesisConfigFromFile returns (nil,nil) on a missing amount)",
        "assumptions": ["SHA3 / ABI packing / LevelDB are not modelled: genesis hash equality is observed on the real code"],
    },
}
