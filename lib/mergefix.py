#!/usr/bin/env python3
"""Resolve the append-only conflicts that arise when merging builder branches: keep both sides."""
import json, re, subprocess, sys, os
ROOT = os.path.dirname(os.path.dirname(os.path.abspath(__file__)))

def sides(path):
    s = open(path).read()
    out_ours, out_theirs, both = [], [], []
    pat = re.compile(r"<<<<<<< [^\n]*\n(.*?)=======\n(.*?)>>>>>>> [^\n]*\n", re.S)
    return s, pat

def union_lines(path, list_mode=False):
    s, pat = sides(path)
    def rep(m):
        a, b = m.group(1), m.group(2)
        if list_mode:
            a = a.rstrip("\n")
            if not a.rstrip().endswith(","):
                a += ","
            return a + "\n" + b
        return a + b
    s2 = pat.sub(rep, s)
    open(path, "w").write(s2)

def git_show(ref, path):
    return subprocess.run(["git", "show", "%s:%s" % (ref, path)], cwd=ROOT, capture_output=True, text=True).stdout

def merge_known(theirs):
    ours = json.loads(git_show("HEAD", "known_findings.json"))
    th = json.loads(git_show(theirs, "known_findings.json"))
    ids = {f["id"] for f in ours["findings"]}
    for f in th["findings"]:
        if f["id"] not in ids:
            ours["findings"].append(f)
        elif f.get("status") == "fixed":
            for i, o in enumerate(ours["findings"]):
                if o["id"] == f["id"] and o.get("status") != "fixed":
                    ours["findings"][i] = f
    json.dump(ours, open(os.path.join(ROOT, "known_findings.json"), "w"), indent=1)

if __name__ == "__main__":
    theirs = sys.argv[1]
    conflicted = subprocess.run(["git", "diff", "--name-only", "--diff-filter=U"], cwd=ROOT, capture_output=True, text=True).stdout.split()
    for f in conflicted:
        p = os.path.join(ROOT, f)
        if f == "known_findings.json":
            merge_known(theirs)
        elif f == "MANIFEST.json":
            open(p, "w").write(git_show("HEAD", f))
        elif f == "harness/go.mod" or f == "harness/go.sum":
            open(p, "w").write(git_show(theirs, f))
        elif f.endswith("Registry.lean"):
            s = open(p).read()
            # imports: plain union; registry list: comma-joined union
            parts = s.split("def registry")
            open(p, "w").write(parts[0]); union_lines(p); head = open(p).read()
            open(p, "w").write("def registry" + parts[1]); union_lines(p, list_mode=True); tail = open(p).read()
            open(p, "w").write(head + tail)
        else:
            union_lines(p)
        print("resolved", f)
