#!/usr/bin/env python3
"""fillround.py <tag> — put the table printed by lib/mkround.py <tag> between the markers <!-- round<N>-table --> of DESIGN.md."""
import os, re, subprocess, sys
ROOT = os.path.dirname(os.path.dirname(os.path.abspath(__file__)))
tag = sys.argv[1]
n = re.sub(r"\D", "", tag)
table = subprocess.run([sys.executable, os.path.join(ROOT, "lib", "mkround.py"), tag], capture_output=True, text=True).stdout
p = os.path.join(ROOT, "DESIGN.md")
s = open(p).read()
a, b = "<!-- round%s-table -->" % n, "<!-- /round%s-table -->" % n
i, j = s.index(a) + len(a), s.index(b)
open(p, "w").write(s[:i] + "\n" + table + s[j:])
print("DESIGN.md: round", n, "table,", table.count("\n") - 2, "rows")
