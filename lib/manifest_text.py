HOOK_COMMITS = ["02bc05e"]
NOT_APPLICABLE = {}
TEXT = {
 "C10": {
  "text": "Per contract a Lean state machine that follows the Go ReceiveBlock code; kernel-checked: the sum of recorded "
          "entries stays covered by the balance through every receive (applied or refunded) and every history, the per-"
          "beneficiary fused total equals the sum of its fusion entries, each withdrawal pays only the recorded owner, only "
          "after the lock matured, exactly the recorded amount, and the same withdrawal cannot pay twice. Tied to the tree by "
          "the contract stream (real node, every receive predicted, storage compared after each momentum) and model-free "
          "monitors on the real storage and blocks.",
  "design_ref": "§3 C10",
  "note": "Reward bookkeeping, liquidity reward pools, bridge wrap/fees/administration are outside the models (observed "
          "outcomes only); lock periods are parameters (theorems hold for all values, production values regenerated from "
          "the tree); liquidity backing is false of the code once the spork address burns/funds from a balance that "
          "contains ZNN/QSR stakes (known finding F14, negative witness theorem + stream scenario).",
  "technique": "Lean 4 proof (invariant by induction over receives) + differential replay on a real node + liability monitor",
 },
 "C01": {
  "text": "Abstract ledger model (balances, confirmed sends, receive markers, token contract issue/mint/burn/update) with "
          "kernel-checked guards (no send above balance, zero-token sends empty) and the negative witness for the "
          "pre-enforcement-height double receive; the model is replayed against every accepted block of generated "
          "histories on a real node with all balances/supplies compared after each momentum, and a model-free monitor "
          "checks balances + unreceived sends = supply <= max at every momentum and pool state.",
  "design_ref": "§3 C01",
  "note": "Invariant-by-induction theorems are being extended (see evidence.theorems for what is proved in this run); "
          "non-token contract methods enter as observed outcomes; below ReceiverMismatchEnforcementHeight the property is "
          "false of the code (known finding F8).",
  "technique": "Lean 4 proof over a ledger state machine + differential replay of accepted blocks + conservation monitor",
 },
 "C07": {
  "text": "Kernel-checked refinement: the rollback overlay that Get(X) folds from the stored undo patches, laid over the "
          "frontier, equals the store as of X for every key and every sequence of later commits (view_reconstructs), the "
          "byte-level tombstone/marker encoding refines the logical level (hist_get_refines, overlay_refines, apply_refines). "
          "The hand-written model of ldbManager and the view tree is tied to the code by the vdb stream (every read of every "
          "operation sequence compared) and a shadow-map monitor that states the property directly.",
  "design_ref": "§3 C07",
  "note": "Sequential model; caches not modelled (cache-free Get) — cached real code compared by correspondence; "
          "goleveldb snapshots trusted; scans of historical views drop empty-valued keys (known finding F3b).",
  "technique": "Lean 4 refinement proof (induction over commits) + differential correspondence on op sequences",
 },
 "C06": {
  "text": "Kernel-checked: the undo patch recorded at commit restores the previous state for every key (rollback_exact), "
          "popping a whole branch returns to the fork point and committing the other branch ends in the state of a node "
          "that only saw that branch (branch_switch); tied to ldbManager by the pop-heavy vdb stream with views opened "
          "before the switch and re-read after it.",
  "design_ref": "§3 C06",
  "note": "State-level theorems; pool and consensus-statistics clauses are correspondence only.",
  "technique": "Lean 4 proof (induction) + differential correspondence on op sequences",
 },
 "C12": {
  "text": "Kernel-checked theorems over the Go-faithful model of getTargetByDifficulty / greaterDifficulty / "
          "DifficultyToPlasma / FussedAmountToPlasma: threshold = 2^64 - 2^64/d for every 2 <= d < 2^64, comparison = "
          "little-endian >=, plasma maps capped/monotone/paid-for; model tied to the tree by regenerated constants and "
          "a differential stream over the full uint64 range.",
  "design_ref": "§3 C12",
  "note": "SHA3 is a parameter; the model is hand-written and tied by correspondence (boundary + random inputs); "
          "enoughPlasma over ledger states is covered by correspondence only.",
  "technique": "Lean 4 proof (omega/induction) + regenerated constants + differential correspondence",
 },
 "C18": {
  "text": "Kernel-checked theorems that GetRange is the statement's slice for all (index,count,len), pages tile the "
          "list and each element lies on exactly one page; model tied by a differential stream over the full uint32 range.",
  "design_ref": "§3 C18",
  "note": "JSON-RPC server survival and embedded getters are not theorems (runtime / correspondence).",
  "technique": "Lean 4 proof (omega) + differential correspondence",
 },
}
