HOOK_COMMITS = ["02bc05e"]
NOT_APPLICABLE = {}
TEXT = {
 "C12": {
  "text": "Kernel-checked theorems over the Go-faithful model of getTargetByDifficulty / greaterDifficulty / "
          "DifficultyToPlasma / FussedAmountToPlasma: threshold = 2^64 - 2^64/d for every 2 <= d < 2^64, comparison = "
          "little-endian >=, plasma maps capped/monotone/paid-for; model tied to the tree by regenerated constants and "
          "a differential stream over the full uint64 range.",
  "design_ref": "§3 C12",
  "note": "SHA3 is a parameter; the model is hand-written and tied by correspondence (boundary + random inputs); "
          "enoughPlasma over ledger states is covered by correspondence only.",
  "technique": "Lean 4 proof (omega/induction) + regenerated constants + differential correspondence",
 },
 "C19": {
  "text": "Kernel-checked theorems over the Go-faithful model of wallet/{derivation,keystore,keyfile,crypto,password}.go "
          "with the primitives as parameters: isValidPath accepts exactly m(/<decimal below 2^32>')+, every HMAC step uses "
          "an index in [2^31,2^32), DeriveForPath succeeds iff all segments are below 2^31 (DeriveWithIndex iff i < 2^31), "
          "step input = 0x00||key||be32(i) injective, Decrypt(Encrypt(ks,pw),pw) = ks from open_seal, recorded address = "
          "index-0 address, address = 0x00||sha3(pk)[:19], sign/verify from verify_sign; tied to the tree by regenerated "
          "constants (regex text, ParseUint bit size, Argon2 parameters and AD string on both sides read from the AST) and "
          "a differential stream on the real wallet code with independently computed oracle values.",
  "design_ref": "§3 C19",
  "note": "Tamper evidence (wrong password / flipped bit fails) is a cryptographic assumption, covered by the stream's "
          "monitor only; the JSON text layer is covered by the stream only.",
  "technique": "Lean 4 proof (induction/omega/simp) + regenerated facts from AST + differential correspondence with oracle tables",
 },
 "C18": {
  "text": "Kernel-checked theorems that GetRange is the statement's slice for all (index,count,len), pages tile the "
          "list and each element lies on exactly one page; model tied by a differential stream over the full uint32 range.",
  "design_ref": "§3 C18",
  "note": "JSON-RPC server survival and embedded getters are not theorems (runtime / correspondence).",
  "technique": "Lean 4 proof (omega) + differential correspondence",
 },
 "C20": {
  "text": "Kernel-checked theorems over the Go-faithful model of NewMomentumContent (sorted by address|height|hash bytes; any two "
          "sorted arrangements of the same headers are equal, so sort(perm l) = sort l independently of the algorithm), of "
          "CheckGenesis and its five validators (accepted => entries of every declared token add up to TotalSupply, every given "
          "token declared, swap contract holds nothing; plasma/pillar holdings and ledger supply under explicit extra premises "
          "with negative witnesses for the gaps) and of checkGenesisCompatibility (refused iff stored height-1 hash differs); "
          "tied to the tree by regenerated facts (validator order, comparer operator, header field order, contract addresses) "
          "and a differential stream on the real NewGenesis / CheckGenesis / chain.Init.",
  "design_ref": "§3 C20",
  "note": "Permutation / fresh-process invariance of the whole genesis momentum is decided on the real code by the stream's "
          "monitor, not by a theorem. Four accepted-but-inconsistent configuration classes (no contract entry, duplicate address entry, supply above "
          "MaxSupply, negative amounts) and a (nil,nil) return of ReadGenesisConfigFromFile are reproduced on the real code "
          "on every run and listed as known findings F13a-e.",
  "technique": "Lean 4 proof (core List.mergeSort/Perm lemmas, induction, decide witnesses) + regenerated facts from AST + "
               "differential correspondence + ledger monitor on a real chain",
 },
}
