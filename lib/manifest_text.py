HOOK_COMMITS = ["02bc05e"]
NOT_APPLICABLE = {}
TEXT = {
 "C12": {
  "text": "Kernel-checked theorems over the Go-faithful model of getTargetByDifficulty / greaterDifficulty / "
          "DifficultyToPlasma / FussedAmountToPlasma: threshold = 2^64 - 2^64/d for every 2 <= d < 2^64, comparison = "
          "little-endian >=, plasma maps capped/monotone/paid-for; model tied to the tree by regenerated constants and "
          "a differential stream over the full uint64 range.",
  "design_ref": "§3 C12",
  "note": "SHA3 is a parameter; the model is hand-written and tied by correspondence (boundary + random inputs); "
          "enoughPlasma over ledger states is covered by correspondence only.",
  "technique": "Lean 4 proof (omega/induction) + regenerated constants + differential correspondence",
 },
 "C18": {
  "text": "Kernel-checked theorems that GetRange is the statement's slice for all (index,count,len), pages tile the "
          "list and each element lies on exactly one page; model tied by a differential stream over the full uint32 range.",
  "design_ref": "§3 C18",
  "note": "JSON-RPC server survival and embedded getters are not theorems (runtime / correspondence).",
  "technique": "Lean 4 proof (omega) + differential correspondence",
 },
 "C15": {
  "text": "Kernel-checked theorems over the Go-faithful model of handleMsg (size gate, dispatch, the uint64 request arithmetic of "
          "GetBlockHashes / GetBlockHashesFromNumber / GetBlocks incl. GetMomentumsByHeight's range and the nil/makeslice panics): "
          "reply caps for every chain height and request (from-number only for Number+Amount >= 2), no panic (only for held hashes), "
          "size gate before decoding, unknown codes refused without state change; negative witnesses for the two false clauses; "
          "model tied to the tree by regenerated constants/AST facts and by a differential stream driving the real ProtocolManager.",
  "design_ref": "§3 C15",
  "note": "Only the handler logic is proved. Survival on arbitrary bytes, allocation inside rlp, goroutine hygiene and liveness are "
          "differential testing against the total model, not proof; the rlpx frame reader and the discovery packet decoder have "
          "monitor-only mutation streams, no theorem. Known findings "
          "F7a (unknown hash panics) and F7b (Number+Amount<=1 returns the whole chain) are open.",
  "technique": "Lean 4 proof (omega/case analysis) + regenerated constants and AST facts + differential correspondence over p2p.MsgPipe",
 },
 "C16": {
  "text": "Kernel-checked theorems over a line-by-line model of chainBridge.InsertChain on an abstract chain with a verification "
          "oracle: a node leaves its chain only when the delivered suffix links to an own momentum at most 30 below the frontier and "
          "claims a greater height; every new element passed the oracle in order and the chain stays linked; on a verification error "
          "the index is the position in the original batch and the node holds exactly the verified prefix; known batches are no-ops; "
          "no panic under stated premises (negative witnesses otherwise). Tied by AST facts (window 30, operators, returned indices) "
          "and a differential stream feeding followers through the real InsertChain.",
  "design_ref": "§3 C16",
  "note": "Verification itself (verifier/*, vm) is an oracle here. Known findings F7c (panics on empty / non-linking-by-height batches), "
          "F7d (rollback before verification) are open; F7e (stale-parent momentum silently dropped and reported as success) was fixed in 9a5065f.",
  "technique": "Lean 4 proof (induction over the batch) + AST facts + differential correspondence on real nodes + model-free monitors",
 },
}
