HOOK_COMMITS = ["02bc05e"]
NOT_APPLICABLE = {}
TEXT = {
 "C05": {
  "text": "Kernel-checked theorems over Go-faithful models: SelectProducers for any sorting algorithm and any rand.Perm "
          "(exactly NodeCount slots, members only, input-order irrelevance for distinct names, no pillar twice when enough "
          "pillars), ticker (ToTime(ToTick t) <= t < next, monotone, round trip), schedule (slots tile the tick, producer "
          "lookup answers exactly at slot starts with the i-th elected pillar), GetMomentumBeforeTime = last momentum with "
          "ts < t (estimate loop + sort.Search, total for whole-second instants), proof momentum determined by the chain "
          "prefix, cache = recomputation, and momentum_verify_sound for the verifier whose check ORDER is read from the Go "
          "AST on every run; all tied to the tree by three differential streams (election, ticker, mverify on a real mock "
          "chain with every single-field mutation and wrongly signed momentums) with model-free monitors.",
  "design_ref": "§3 C05",
  "note": "rand.Perm / sort.Sort / hashes / ed25519 / momentum VM are parameters or oracle values with explicit hypotheses; "
          "pillar weights (ComputePillarDelegations) are taken from the real code; cross-node schedule equality after "
          "restart/reorg is by the cold-vs-cached comparison on one node plus the prefix theorem, not by a multi-node run.",
  "technique": "Lean 4 proof (induction, permutation reasoning) + regenerated facts (constants, verifier check order from "
               "the AST) + differential correspondence + model-free monitors",
 },
 "C12": {
  "text": "Kernel-checked theorems over the Go-faithful model of getTargetByDifficulty / greaterDifficulty / "
          "DifficultyToPlasma / FussedAmountToPlasma: threshold = 2^64 - 2^64/d for every 2 <= d < 2^64, comparison = "
          "little-endian >=, plasma maps capped/monotone/paid-for; model tied to the tree by regenerated constants and "
          "a differential stream over the full uint64 range.",
  "design_ref": "§3 C12",
  "note": "SHA3 is a parameter; the model is hand-written and tied by correspondence (boundary + random inputs); "
          "enoughPlasma over ledger states is covered by correspondence only.",
  "technique": "Lean 4 proof (omega/induction) + regenerated constants + differential correspondence",
 },
 "C18": {
  "text": "Kernel-checked theorems that GetRange is the statement's slice for all (index,count,len), pages tile the "
          "list and each element lies on exactly one page; model tied by a differential stream over the full uint32 range.",
  "design_ref": "§3 C18",
  "note": "JSON-RPC server survival and embedded getters are not theorems (runtime / correspondence).",
  "technique": "Lean 4 proof (omega) + differential correspondence",
 },
}
