HOOK_COMMITS = ["02bc05e", "18a3dee"]
NOT_APPLICABLE = {}
TEXT = {
 "C17": {
  "text": "Kernel-checked over tables regenerated from the real GetEmbeddedMethod for all 8 spork regimes: more active "
          "sporks never remove a method (tables_monotone), gated methods are available exactly when their own spork is "
          "enforced along the order accelerator/bridge/htlc (gate_in_order_partial; negative witness for out-of-order "
          "activation); over the spork state machine: activity is monotone in height, on exactly from acknowledged height + "
          "delay, never at the genesis store, activation cannot be repeated, only the designated keys (community key only "
          "inside its window) succeed, the unimplemented-spork report is non-empty iff an enforced spork is unknown. Tied "
          "to the code by scenarios on a real node comparing every call outcome, IsSporkActive on every height, the report "
          "and method availability around each enforcement height.",
  "design_ref": "§3 C17",
  "note": "Method tables enter as generated facts (trusted extractor calling the real function); F17 (out-of-order "
          "activation exposes features of not-enforced sporks) is a known finding.",
  "technique": "Lean 4 proof (decide +kernel over regenerated tables; invariants of the spork state machine) + differential scenarios",
 },
 "C02": {
  "text": "Kernel-checked: two stores holding the same sequence of accepted commits are observationally equal whatever "
          "refused or rolled-back commits, batching or reorganisations happened on the way (commit_determinism), the "
          "frontier is the fold of the accepted patches (state_is_fold_of_patches), a view at the acknowledged momentum is "
          "independent of how far the frontier has moved (view_independent_of_frontier), change sets are write-order "
          "independent; generated fact: no wall-clock/random/goroutine site outside the reviewed list. Tied to the code by "
          "a producer + five followers under generated delivery schedules with byte-exact state comparison and by feeding "
          "the real redo patches through the model.",
  "design_ref": "§3 C02",
  "note": "Hash functions are parameters; determinism of the Go VM itself is correspondence (multi-node) + AST fact.",
  "technique": "Lean 4 refinement corollaries + regenerated AST fact + multi-node differential replay",
 },
 "C08": {
  "text": "Kernel-checked: the write plan of a commit / rollback is ONE leveldb batch whose effect is exactly the manager "
          "model's state transition (add_plan_effect, pop_plan_effect), hence after any number of completed writes the disk "
          "is the state before or after (crash_atomic_*), and re-delivery from either state reaches the crash-free state; "
          "negative witness for the per-key plan (finding F6, fixed). Tied to the code without call-site hooks: the journal "
          "of the live database gives the real write sequence, which is compared with the model's plan, and every cut point "
          "is materialised as a crash image and checked.",
  "design_ref": "§3 C08",
  "note": "leveldb's batch atomicity and journal recovery are trusted; fsync/power-loss durability is out of scope "
          "(the property speaks of process death).",
  "technique": "Lean 4 proof about the write plan + journal-derived crash images (fault enumeration at every write boundary)",
 },
 "C01": {
  "text": "Kernel-checked invariants of the abstract ledger state machine (balances, confirmed sends, receive markers, "
          "token contract issue/mint/burn/update), by induction over accepted blocks and lifted to all reachable states: "
          "above the receiver-enforcement height, recorded supply = sum of balances + sum of unreceived sends for every "
          "token (conservation); no debit of an accepted block exceeds the balance it is applied to and a burn never "
          "exceeds the recorded supply (no_underflow, burn_within_supply); supply <= max supply (supply_le_max); only a "
          "status-1 receive of the token contract changes token storage, every other block - in particular a refunded "
          "call, which emits exactly the refund - leaves supply and the sum unchanged; negative witness for the "
          "pre-enforcement-height double receive. The model is replayed against every accepted block of generated "
          "histories on a real node with all balances/supplies compared after each momentum, and a model-free monitor "
          "checks balances + unreceived sends = supply <= max at every momentum and pool state.",
  "design_ref": "§3 C01",
  "note": "Non-token contract methods enter as observed outcomes (status, descendants); hash freshness and the send-time "
          "check total <= max of issue calls are hypotheses of reachability; genesis consistency (T5) is C20; below "
          "ReceiverMismatchEnforcementHeight the property is false of the code (known finding F8).",
  "technique": "Lean 4 invariant proof (induction over reachable states) + differential replay of accepted blocks + conservation monitor",
 },
 "C04": {
  "text": "Kernel-checked invariants of the ledger state machine, by induction over accepted blocks (user send, user "
          "receive, contract receive with observed outcome): receive markers pairwise distinct (no account receives a "
          "send twice; a second attempt is refused with exactly alreadyReceived / notNext in every later state); above "
          "the receiver-enforcement height every marker belongs to the send's addressee and every send hash has at most "
          "one marker on the whole ledger; for every embedded contract the received hashes in acceptance order are a "
          "prefix (= take front) of the confirmed sends addressed to it in confirmation order. Negative witness: below "
          "the gate one send gets two markers. The model is the one replayed against every accepted block of generated "
          "histories on a real node (ledger stream); model-free monitors scan send-hash -> receiving blocks and the FIFO "
          "order on the real stores.",
  "design_ref": "§3 C04",
  "note": "Theorems are about the current chain of one node (T1-T4, N1); reorg/pool-replacement/restart stability (T5) is "
          "exercised by the stream only. Hash freshness is a hypothesis of reachability. Below "
          "ReceiverMismatchEnforcementHeight T2/T3 are false of the code (known finding F8).",
  "technique": "Lean 4 invariant proof (induction over reachable states) + differential replay of accepted blocks + at-most-once/FIFO monitors",
 },
 "C09": {
  "text": "Kernel-checked on the ledger model with contract methods as parameters: every accepted contract receive has "
          "status applied or refunded, a refund emits exactly the sent amount back to the sender (nothing for amount 0), "
          "leaves token storage and the contract's balance unchanged; in both cases the contract's balance moves by "
          "+amount (+mint -burn for the token contract) - sum of descendants with no truncation; afterwards the inbox has "
          "advanced by exactly one (the received send is marked, the next queued send is next in line); for a non-token "
          "contract the refund of whatever is next in line is always accepted (it cannot fail for lack of funds), so no "
          "accepted call can wedge the inbox at the VM-skeleton level; the token contract (methods modelled) always has an "
          "accepted outcome when the zero token standard has no storage entry. Kernel-checked on a line-by-line model of "
          "the ABI decoder (vm/abi: UnpackMethod, UnpackEmptyMethod, Arguments.Unpack/UnpackValues, toGoType, "
          "lengthPrefixPointsTo, forEachUnpack, readInteger/readBool/readFixedBytes) with every slice expression, every "
          "64-bit int operation and every big.Int->int conversion explicit: for EVERY byte string (up to the runtime's "
          "2^48 allocation limit) and every well-formed argument type list (any nesting of slices/arrays over "
          "uintN/intN/bool/address/tokenStandard/hash/bytesN/bytes/string) the decoder returns a value or an error, never a "
          "panic (abi_no_panic_general, by induction over the type AST); instantiated by decide on the generated table of "
          "every method and every storage variable of every embedded ABI of the working tree (abi_no_panic, "
          "abi_variables_no_panic); selectors are pairwise distinct per ABI; decoding the canonical encoding that every "
          "ValidateSendBlock stores (Arguments.Pack of the decoded values) returns exactly those values for every "
          "method of every embedded ABI (unpack_pack_partial + flat_signatures = receive_decodes_what_send_validated: the "
          "second decode on the receive path, followed by DealWithErr in several methods, cannot fail). Tied to the code by three streams: ledger "
          "(generated histories, exact-refund monitor), abi (real decoder and real ValidateSendBlock on canonical and "
          "hostile encodings of every method, result + decoded values + re-packed bytes compared with the model) and "
          "autoreceive (every contract x method x 0..3 sporks x four generators x template/gossip delivery; the "
          "producer's calls made under recover; monitors: no panic or error on the receive path, exactly one receive, "
          "status 1 or exact refund with byte-identical storage, every inbox drained).",
  "design_ref": "§3 C09",
  "note": "Panic-freedom/termination of the Go method bodies (T4, T5) is by the autoreceive stream's monitors, not by "
          "per-method Lean models. Known finding F18 (reproduced on the unchanged tree by the scenario "
          "wrap-owned-unburnable): a contract-to-contract send with an amount whose receive fails cannot be refunded (the "
          "refund to the sending contract has empty call data and is refused by applySend's method lookup); "
          "GenerateAutoReceive then dereferences a nil block on the producer path. The ledger model's applySend omits that "
          "method lookup, so refund_always_possible transfers to the code for non-embedded senders only. The decoder model "
          "bounds slices by len where Go bounds by cap (model panic is necessary, not sufficient, for a Go panic).",
  "technique": "Lean 4 proofs over the ledger state machine and over an executable model of the ABI decoder (induction "
               "over the type AST, decide over generated signature tables) + differential replay (decoder results, decoded "
               "values, re-packed bytes) + producer-path driver with model-free monitors",
 },
 "C07": {
  "text": "Kernel-checked on the EXECUTABLE manager model (Ldb = ldbManager, cache-free Get) for every reachable state "
          "(any sequence of frontier commits, commits on other parents, pops; ghost history invariant proved by "
          "induction, Lemmas/LdbInv.lean): Get(id) of every version on the chain succeeds and reads, for every key, "
          "exactly the content at that commit (view_refines, view_refines_has); its ordered prefix scan is the "
          "key-ordered list of exactly those entries (view_refines_scan_partial, via merged_scan_correct: two-way merged "
          "iterator over sorted layers = sorted entries of the merged lookup) except empty-valued keys below the "
          "frontier (F3b, negative theorems); unknown identifiers are refused, commits on a non-frontier parent change "
          "nothing (add_parent_check), views of the same version agree across states (view_immutable), a cached overlay "
          "extended above its frontier equals the rebuilt one (cached_overlay_sound), replaying a view's change set "
          "gives its reads and the change set is independent of write order (changes_replay_*, changes_order_independent). "
          "The model is tied to the code by the vdb stream (every read of every operation sequence compared) and a "
          "shadow-map monitor that states the property directly.",
  "design_ref": "§3 C07",
  "note": "Sequential model; caches are not state of the model (cache-free Get; the cached path is covered by "
          "cached_overlay_sound + correspondence); hypotheses of a frontier commit: height = frontier height + 1 < 2^64, "
          "hash not on the chain, user keys outside the hash-index prefix; goleveldb snapshots trusted; scans of "
          "historical views drop empty-valued keys (known finding F3b); patches_replay concerns the GetPatch table, "
          "which the stream does not exercise.",
  "technique": "Lean 4 refinement proof (induction over reachable manager states) + differential correspondence on op sequences",
 },
 "C06": {
  "text": "Kernel-checked on the executable manager model: in every reachable state, commit on the frontier followed "
          "by pop is observationally the identity — same logical frontier, same frontier identifier, and for every "
          "identifier Get answers alike with views agreeing on every lookup and every ordered prefix scan (pop_add, "
          "ObsEq); any two reachable states with the same chain of versions are observationally equal whatever "
          "branches were committed and popped on the way (same_history_same_obs); the undo patch recorded at commit "
          "restores the previous state for every key (rollback_exact), popping a whole branch returns to the fork "
          "point (branch_switch); tied to ldbManager by the pop-heavy vdb stream with views opened before the switch "
          "and re-read after it.",
  "design_ref": "§3 C06",
  "note": "Observational, not raw, equality (tombstones of created keys remain in the raw frontier — witness example); "
          "pool and consensus-statistics clauses are correspondence only.",
  "technique": "Lean 4 proof (invariant over reachable manager states) + differential correspondence on op sequences",
 },
 "C05": {
  "text": "Kernel-checked theorems over Go-faithful models: SelectProducers for any sorting algorithm and any rand.Perm "
          "(exactly NodeCount slots, members only, input-order irrelevance for distinct names, no pillar twice when enough "
          "pillars), ticker (ToTime(ToTick t) <= t < next, monotone, round trip), schedule (slots tile the tick, producer "
          "lookup answers exactly at slot starts with the i-th elected pillar), GetMomentumBeforeTime = last momentum with "
          "ts < t (estimate loop + sort.Search, total for whole-second instants), proof momentum determined by the chain "
          "prefix, cache = recomputation, and momentum_verify_sound for the verifier whose check ORDER is read from the Go "
          "AST on every run; all tied to the tree by three differential streams (election, ticker, mverify on a real mock "
          "chain with every single-field mutation and wrongly signed momentums) with model-free monitors.",
  "design_ref": "§3 C05",
  "note": "rand.Perm / sort.Sort / hashes / ed25519 / momentum VM are parameters or oracle values with explicit hypotheses; "
          "pillar weights (ComputePillarDelegations) are taken from the real code; cross-node schedule equality after "
          "restart/reorg is by the cold-vs-cached comparison on one node plus the prefix theorem, not by a multi-node run.",
  "technique": "Lean 4 proof (induction, permutation reasoning) + regenerated facts (constants, verifier check order from "
               "the AST) + differential correspondence + model-free monitors",
 },
 "C12": {
  "text": "Kernel-checked theorems over the Go-faithful model of getTargetByDifficulty / greaterDifficulty / "
          "DifficultyToPlasma / FussedAmountToPlasma: threshold = 2^64 - 2^64/d for every 2 <= d < 2^64, comparison = "
          "little-endian >=, plasma maps capped/monotone/paid-for; model tied to the tree by regenerated constants and "
          "a differential stream over the full uint64 range.",
  "design_ref": "§3 C12",
  "note": "SHA3 is a parameter; the model is hand-written and tied by correspondence (boundary + random inputs); "
          "enoughPlasma over ledger states is covered by correspondence only.",
  "technique": "Lean 4 proof (omega/induction) + regenerated constants + differential correspondence",
 },
 "C18": {
  "text": "Kernel-checked theorems that GetRange is the statement's slice for all (index,count,len), pages tile the "
          "list and each element lies on exactly one page; model tied by a differential stream over the full uint32 range.",
  "design_ref": "§3 C18",
  "note": "JSON-RPC server survival and embedded getters are not theorems (runtime / correspondence).",
  "technique": "Lean 4 proof (omega) + differential correspondence",
 },
 "C14": {
  "text": "Kernel-checked theorems over the Go-faithful model of higherPriority (uint64 products), filterBlocksToCommit "
          "and the per-address memdbManager-backed pool: the competition rule is total/antisymmetric for all uint64 inputs, "
          "transitive and arrival-order independent in the accepted plasma range (negative witnesses for zero plasma and "
          "wrap-around), the momentum content is the longest batch-boundary prefix within the limit, and the pooled blocks "
          "form one chain above the confirmed frontier under all operation sequences; tied by regenerated constants and "
          "differential streams.",
  "design_ref": "§3 C14",
  "note": "Data-race freedom and reader atomicity are runtime properties (not theorems). The pool state machine is a "
          "hand-written model; the two pure decision functions are tied by differential streams.",
  "technique": "Lean 4 proof (induction/omega) + regenerated constants + differential correspondence",
 },
 "C11": {
  "text": "Kernel-checked theorems over the Go-faithful model (wrapping int64, truncating big.Int.Quo) of the reward "
          "arithmetic: rounded-down pro-rata shares never exceed the split amount (stake, sentinel, pillar/backers, "
          "liquidity stake), the pillar formula stays within (delegation+producing per momentum) x expected momentums, "
          "and for every uint64 epoch the regenerated emission tables give non-negative pieces that sum to at most the "
          "network emission per coin; tied by regenerated tables and a differential stream that runs the real contract "
          "functions on an in-memory storage.",
  "design_ref": "§3 C11",
  "note": "Arithmetic part only (T1-T3). Epoch cursor (exactly once, in order), collect-once and node-independence are "
          "not covered by this check yet.",
  "technique": "Lean 4 proof (induction/omega/decide over generated tables) + regenerated constants + differential correspondence",
 },
}
