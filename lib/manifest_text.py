HOOK_COMMITS = ["02bc05e", "18a3dee", "c34a517", "1653682", "8fdc782", "1eb066b", "8c4ff0b", "c0c5b94"]
NOT_APPLICABLE = {}
TEXT = {
 "C17": {
  "text": "Kernel-checked over tables regenerated from the real GetEmbeddedMethod for all 8 spork regimes: they are exactly "
          "what a REVIEWED table method -> introducing spork says (tables_exact: resolved iff the method's spork is at or below "
          "the last enforced spork of the order accelerator/bridge/htlc; methods added to existing contracts included; F17's "
          "inclusion structure explicit, f17_inclusion; receive-gated methods follow their own spork in every regime, "
          "receive_gate_closes_f17), more active "
          "sporks never remove a method (tables_monotone), gated methods are available exactly when their own spork is "
          "enforced along the order accelerator/bridge/htlc (gate_in_order_partial; negative witness for out-of-order "
          "activation); over the spork state machine: activity is monotone in height, on exactly from acknowledged height + "
          "delay, never at the genesis store, activation cannot be repeated, only the designated keys succeed — the community "
          "key only while the frontier height the executing contract sees lies inside its window, for every window "
          "(spork_authority_window, community_outside_window / community_inside_window; the mainnet window is a regenerated "
          "constant) — the unimplemented-spork report is non-empty iff an enforced spork is unknown. Tied "
          "to the code by scenarios on a real node comparing every call outcome, IsSporkActive on every height, the report "
          "and method availability around each enforcement height; a third of the scenarios run the real contract with a "
          "community key the harness holds and a window of a few momentums (calls before, inside, after the window, also "
          "acknowledging an older momentum inside it). Sporks DEFINED IN THE GENESIS CONFIGURATION (SporkConfig: activated "
          "with enforcement height 0 / a low / a later height, defined but not activated) are part of the model's initial "
          "state (defineGenesis): active from their configured height on - with height 0 from the first momentum after "
          "genesis, there is no range of heights that is too early for every spork (genesis_gate_by_height) -, their "
          "activation cannot be repeated whatever the stored height (genesis_activation_not_repeated), once enforced never "
          "switched off (genesis_feature_never_switched_off); every third scenario starts a real node on a generated "
          "SporkConfig and compares every height from 2 on, all gated methods, real gated calls at the first heights and "
          "repeated activation attempts.",
  "design_ref": "§3 C17",
  "note": "Method tables enter as generated facts (trusted extractor calling the real function); F17 (out-of-order "
          "activation exposes features of not-enforced sporks) is a known finding.",
  "technique": "Lean 4 proof (decide +kernel over regenerated tables; invariants of the spork state machine) + differential scenarios",
 },
 "C02": {
  "text": "Kernel-checked: two stores holding the same sequence of accepted commits are observationally equal whatever "
          "refused or rolled-back commits, batching or reorganisations happened on the way (commit_determinism), the "
          "frontier is the fold of the accepted patches (state_is_fold_of_patches), a view at the acknowledged momentum is "
          "independent of how far the frontier has moved (view_independent_of_frontier), change sets are write-order "
          "independent; generated fact: no wall-clock/random/goroutine site outside the reviewed list. Tied to the code by "
          "a producer + seven followers under generated delivery schedules (batches, gossip ahead, gossiped RIVAL blocks of the "
          "same account and height, restarts, overlaps) with byte-exact state comparison, by feeding the real redo patches "
          "through the model, and by a deep scenario: a chain longer than the near-cache window (360), historical views near "
          "and far materialised before the head momentum is replaced by a delivered branch, every view compared warm, after "
          "restart and on a node that only saw the final chain. Node level (Props/C02Node.lean): a model of the node — "
          "chain, pool of executed blocks, gossip under the priority rule, delivery that reuses a pooled patch or executes "
          "in the context the block states and force-inserts, changes-hash comparison, restart — with the VM as an arbitrary "
          "function parameter; kernel-checked: in every reachable state every pooled and every confirmed patch is the VM's "
          "value on (ledger as of the acknowledged momentum, account chain up to the stated previous, block) "
          "(pool_patches_sound, confirmed_patches_sound); any two operation sequences — any interleaving of gossip of "
          "arbitrary blocks, batch boundaries, refused deliveries, restarts — that end with the same accepted momentum "
          "sequence end with the same stored history and ledger (ledger_schedule_independent); a momentum produced on a "
          "reachable node is accepted by every reachable node holding the same chain whatever its pool holds "
          "(honest_momentum_accepted); with an injective changes hash the sequence pins the ledger even between different "
          "VMs (ledger_pinned_by_changes_hash); negative witnesses for executing on the pool frontier and for delivery "
          "without force. Tied to the code by AST facts (context = store of the acknowledged momentum + account store at "
          "Previous(); InsertChain: pooled patch or execute + ForceAdd; AddAccountBlocks: plain add) and by replaying the "
          "abstract trace of every follower of the sync stream on the model (every gossip / delivery verdict, the pool "
          "content after each, equal final ledgers). The consensus statistics a pillar reader answers (weights of every period, "
          "statistics and delegations of every epoch) are compared warm / restarted / cold on nodes whose epochs of several "
          "periods finish while the weights change (epoch-fold stream, model-free; stored point bytes decoded by the model).",
  "design_ref": "§3 C02",
  "note": "Hash functions are parameters; determinism of the Go VM itself is correspondence (multi-node) + AST fact: in the "
          "node-level model the VM is a parameter, and schedule independence GIVEN a deterministic VM is a theorem. "
          "Rollback / side chains: Props/C06Reorg.lean over Model/NodeReorg.lean (the same node with the whole InsertChain as its "
          "delivery) - equal current chains give equal ledgers and equal acceptance of honest momentums whatever was abandoned before.",
  "technique": "Lean 4 refinement corollaries + node-level state-machine invariant and schedule-independence proof + "
               "regenerated AST facts + multi-node differential replay",
 },
 "C08": {
  "text": "Kernel-checked: the write plan of a commit / rollback is ONE leveldb batch whose effect is exactly the manager "
          "model's state transition (add_plan_effect, pop_plan_effect), hence after any number of completed writes the disk "
          "is the state before or after (crash_atomic_*), and re-delivery from either state reaches the crash-free state; "
          "negative witness for the per-key plan (finding F6, fixed). One level down (C08Journal, model of goleveldb's log "
          "format - 32 KiB blocks, 7-byte chunk headers, FULL/FIRST/MIDDLE/LAST, zero padding of block trailers - and of its "
          "non-strict reader, for every block size 8..65542 and every checksum function): reader after writer is the identity "
          "(recover_encode); EVERY byte prefix of a journal is read back as exactly the write calls whose record ends inside "
          "it, in order, nothing of the torn one (recover_truncate_exact); hence a commit / rollback interrupted at any BYTE "
          "leaves the state before or after (crash_atomic_add_bytes / _pop_bytes, via replay_truncate: byte granularity = "
          "write-call granularity); zeros behind the cut change nothing when the checksum rejects the one torn chunk "
          "(recover_zero_tail; unconditional behind a complete journal: recover_zero_padded); negative witness "
          "strict_reader_refuses_torn_tail: with opt.StrictJournal the torn two-block record makes the reader refuse the "
          "journal (seeded change C08-r2-1). Tied to the code without call-site hooks: the journal "
          "of the live database gives the real write sequence, which is compared with the model's plan, and every cut point "
          "is materialised as a crash image and checked - between two writes, and inside one write (the journal record of a "
          "commit reaches the file in 32 KiB blocks, one system call each: images cut at the block boundaries inside the "
          "record, inside chunks and chunk headers, at arbitrary offsets, with zero / arbitrary tails); every image is "
          "opened by the real NewLevelDBManager first, as a restarting node does. The journal model itself is replayed on "
          "real journal files (live ones and ones written by goleveldb's journal.Writer at the corners of the format) "
          "against goleveldb's own journal.Reader - non-strict and strict - and against the harness parser, for whole files, "
          "cuts and cuts with zero / arbitrary tails, with the real CRC-32C computed in Lean; re-encoding the recovered records "
          "must give the file byte for byte. Continuation (C08Redeliver): commit, roll back, deliver the very same momentum "
          "again - the second delivery is not ignored and restores exactly the state after the first one, raw keys, redo and "
          "undo records (pop_then_readd), also when the rollback was interrupted at any write (redeliver_popped_after_crash); "
          "the stream drives this on every crash image and compares with a node that never rolled back and with a fresh node "
          "given only the final chain. One write per operation is checked at every depth threshold of the store (histories of "
          "700+ commits, one journal record per operation) and pinned in the source: the regenerated table of every access to "
          "the leveldb handle (C08Gen: Add and Pop contain exactly one mutating call, the Write of one batch; no other writer; "
          "no raw read on the handle).",
  "design_ref": "§3 C08",
  "note": "Trusted: goleveldb writes one journal record per write call and replays a delivered record as one batch; its "
          "journal.go implements the format as modelled (checked on real files, not proved about the Go source); the OS keeps "
          "the written prefix of a file across a process death. The zero-tail theorem assumes the checksum rejects the torn "
          "chunk; arbitrary bytes behind a cut and corruption inside a journal are outside the theorems (model compared with "
          "goleveldb on such images). Commits above the 4 MiB write buffer bypass the journal (end points only). "
          "fsync/power-loss durability is out of scope (the property speaks of process death).",
  "technique": "Lean 4 proof about the write plan and about the journal format/reader (byte-level truncation theorem) + "
               "journal-derived crash images (fault enumeration at every write boundary and at the system-call boundaries "
               "inside a write) + differential replay of the journal model against goleveldb's reader/writer on real bytes",
 },
 "C10": {
  "text": "Per contract a Lean state machine that follows the Go ReceiveBlock code; kernel-checked: the sum of recorded "
          "entries stays covered by the balance through every receive (applied or refunded) and every history, the per-"
          "beneficiary fused total equals the sum of its fusion entries, each withdrawal pays only the recorded owner, only "
          "after the lock matured, exactly the recorded amount, and the same withdrawal cannot pay twice. Tied to the tree by "
          "the contract stream (real node, every receive predicted, storage compared after each momentum; htlc secrets "
          "with lengths around KeyMaxSize, 255/256/257 and k*256+j presented against their real digest; every Allow/Deny "
          "history of the htlc proxy flag up to length 4 followed by a proxy unlock and an own unlock, the flag read back "
          "through the RPC and the storage getter = the last call; bridge unwrap requests with amounts up to 2^256-1 and "
          "signatures made for a request that differs in one field from the presented one, judged by the harness's own "
          "encoding of the signed message) and model-free monitors on the real storage and blocks. Joint theorem "
          "(C10Joint.backed_joint): all contracts side by side, every receive of every method - modelled, or an arbitrary "
          "method through the VM skeleton - interleaved arbitrarily; every contract stays backed provided unmodelled methods "
          "do not lower balance - liabilities (KeepsBacking, discharged for reward Update incl. the deletion of cancelled "
          "stake entries, CollectReward, Donate, legacy registration; hypothesis for liquidity administration / spork "
          "methods, of which BurnZnn provably violates it); a receive touches only its own contract (AST facts).",
  "design_ref": "§3 C10",
  "note": "Reward bookkeeping, liquidity reward pools, bridge wrap/fees/administration are outside the models (observed "
          "outcomes only); lock periods are parameters (theorems hold for all values, production values regenerated from "
          "the tree); liquidity backing is false of the code once the spork address burns/funds from a balance that "
          "contains ZNN/QSR stakes (known finding F14, negative witness theorem + stream scenario).",
  "technique": "Lean 4 proof (invariant by induction over receives) + differential replay on a real node + liability monitor",
 },
 "C01": {
  "text": "Kernel-checked invariants of the abstract ledger state machine (balances, confirmed sends, receive markers, "
          "token contract issue/mint/burn/update), by induction over accepted blocks and lifted to all reachable states: "
          "above the receiver-enforcement height, recorded supply = sum of balances + sum of unreceived sends for every "
          "token (conservation); no debit of an accepted block exceeds the balance it is applied to and a burn never "
          "exceeds the recorded supply (no_underflow, burn_within_supply); supply <= max supply (supply_le_max); only a "
          "status-1 receive of the token contract changes token storage, every other block - in particular a refunded "
          "call, which emits exactly the refund - leaves supply and the sum unchanged; negative witness for the "
          "pre-enforcement-height double receive. The model is replayed against every accepted block of generated "
          "histories on a real node with all balances/supplies compared after each momentum, and a model-free monitor "
          "checks balances + unreceived sends = supply <= max at every momentum and pool state. The histories include user "
          "sends with negative / oversized / oddly written amounts delivered through every acceptance path (template, raw "
          "ApplyBlock, protobuf, nom JSON, RPC JSON + PublishRawTransaction) with in-flight amounts read back from the ledger "
          "and an own-balance delta monitor on every accepted user block, a supply-change monitor (supply moves only by "
          "applied issue / mint / burn calls; a refused mint leaves it unchanged), chains whose genesis puts ZNN / QSR within "
          "0..k reward mints of MaxSupply with reward epochs inside the history, and - through the genesis stream - the "
          "equality on the chain started from every accepted generated / perturbed genesis configuration; user-issued tokens of "
          "huge supply (2^64 .. 2^255-1) whose credits, debits, mints and burns land on 2^k-1 / 2^k / 2^k+1 for k = 31 .. 254; "
          "and a model-free conservation monitor that walks the chain itself, after every momentum and produced receive of the "
          "contract-heavy autoreceive (incl. failed contract-to-contract calls) and contract streams.",
  "design_ref": "§3 C01",
  "note": "Non-token contract methods enter as observed outcomes (status, descendants); hash freshness and the send-time "
          "check total <= max of issue calls are hypotheses of reachability; genesis consistency (T5) is C20; below "
          "ReceiverMismatchEnforcementHeight the property is false of the code (known finding F8).",
  "technique": "Lean 4 invariant proof (induction over reachable states) + differential replay of accepted blocks + conservation monitor",
 },
 "C04": {
  "text": "Kernel-checked invariants of the ledger state machine, by induction over accepted blocks (user send, user "
          "receive, contract receive with observed outcome): receive markers pairwise distinct (no account receives a "
          "send twice; a second attempt is refused with exactly alreadyReceived / notNext in every later state); above "
          "the receiver-enforcement height every marker belongs to the send's addressee and every send hash has at most "
          "one marker on the whole ledger; for every embedded contract the received hashes in acceptance order are a "
          "prefix (= take front) of the confirmed sends addressed to it in confirmation order. Negative witness: below "
          "the gate one send gets two markers. The model is the one replayed against every accepted block of generated "
          "histories on a real node (ledger stream); model-free monitors scan send-hash -> receiving blocks and the FIFO "
          "order on the real stores.",
  "design_ref": "§3 C04",
  "note": "T1-T4, N1 are about the current chain; T5 (reorganisation, replacement of unconfirmed blocks, restart) are theorems "
          "of Props/C04Node over the node model LedgerNode (momentum version stack, pool, stored inbox counters refined to the "
          "list view), tied by the ledger-node stream (one real node driven through put / momentum / rollback / restart, every "
          "store read compared, model-free monitors); the model re-verifies where Go re-applies stored patches - the "
          "equivalence is compared by the stream, not proved. Hash freshness is a hypothesis of reachability. Below "
          "ReceiverMismatchEnforcementHeight T2/T3 are false of the code (known finding F8). Database read faults are not "
          "injected: that a failing read of the received mark / inbox position is not answered like an absent key is a "
          "regenerated AST fact (reviewed list of all reads of chain/account with their error handling).",
  "technique": "Lean 4 invariant proof (induction over reachable states) + differential replay of accepted blocks + at-most-once/FIFO monitors",
 },
 "C09": {
  "text": "Kernel-checked on the ledger model with contract methods as parameters: every accepted contract receive has "
          "status applied or refunded, a refund emits exactly the sent amount back to the sender (nothing for amount 0), "
          "leaves token storage and the contract's balance unchanged; in both cases the contract's balance moves by "
          "+amount (+mint -burn for the token contract) - sum of descendants with no truncation; afterwards the inbox has "
          "advanced by exactly one (the received send is marked, the next queued send is next in line); for a non-token "
          "contract the refund of whatever is next in line is always accepted (it cannot fail for lack of funds), so no "
          "accepted call can wedge the inbox at the VM-skeleton level; the token contract (methods modelled) always has an "
          "accepted outcome when the zero token standard has no storage entry. Per method (C09Effect, over the contract "
          "state machines of C10): an applied receive of plasma / stake / htlc / pillar / sentinel / liquidity-stake / "
          "bridge-unwrap methods leaves exactly the entry the call asked for (amount, owner, beneficiary, lock times, hash "
          "lock - field by field), every other entry as it was, the balance moved by the sent amount minus the payouts; a "
          "refused one leaves the storage as it was and refunds exactly the amount; tied by the contract stream (10 "
          "histories here, 60 under C10) whose asked-effect monitor reads every entry back through the definition getters "
          "and compares it with the confirmed call. Kernel-checked on a line-by-line model of "
          "the ABI decoder (vm/abi: UnpackMethod, UnpackEmptyMethod, Arguments.Unpack/UnpackValues, toGoType, "
          "lengthPrefixPointsTo, forEachUnpack, readInteger/readBool/readFixedBytes) with every slice expression, every "
          "64-bit int operation and every big.Int->int conversion explicit: for EVERY byte string (up to the runtime's "
          "2^48 allocation limit) and every well-formed argument type list (any nesting of slices/arrays over "
          "uintN/intN/bool/address/tokenStandard/hash/bytesN/bytes/string) the decoder returns a value or an error, never a "
          "panic (abi_no_panic_general, by induction over the type AST); instantiated by decide on the generated table of "
          "every method and every storage variable of every embedded ABI of the working tree (abi_no_panic, "
          "abi_variables_no_panic); selectors are pairwise distinct per ABI; decoding the canonical encoding that every "
          "ValidateSendBlock stores (Arguments.Pack of the decoded values) returns exactly those values for every "
          "method of every embedded ABI (unpack_pack_partial + flat_signatures = receive_decodes_what_send_validated: the "
          "second decode on the receive path, followed by DealWithErr in several methods, cannot fail). Tied to the code by three streams: ledger "
          "(generated histories, exact-refund monitor), abi (real decoder and real ValidateSendBlock on canonical and "
          "hostile encodings of every method, result + decoded values + re-packed bytes compared with the model) and "
          "autoreceive (every contract x method x 0..3 sporks x four generators x template/gossip delivery; the "
          "producer's calls made under recover; monitors: no panic or error on the receive path, exactly one receive, "
          "status 1 or exact refund with byte-identical storage, every inbox drained; plus a systematic sweep of every "
          "integer argument and of the block amount of every method over 0/1/2, 2^k-1/2^k/2^k+1, every numeric bound of "
          "vm/constants +-1, the ends of the argument's type and the balances / token supplies +-1, incl. amounts in a "
          "token of maximal supply, and over the whole multiples (j + k*2^b)*u of the units u the contracts divide by "
          "whose quotient wraps into the valid range when narrowed to 8..64 bits; calls that carry a cryptographic proof "
          "(legacy-key signatures of swap.RetrieveAssets / pillar.RegisterLegacy, TSS signatures of the bridge, htlc "
          "preimages) are generated with real proofs, made again after every generator mutation, and a directed scenario "
          "walks the key / entry behind each proof through absent / present / consumed / foreign / malformed; plus reward "
          "epochs reached with degenerate participants: weightless / no / single "
          "backers, total weight 0, idle producer, revoked sentinel / stake / pillar entries; plus histories in which the three "
          "sporks are enforced DURING the history in every order with batches of calls to the gated contracts in every momentum "
          "around each enforcement height, so that calls accepted under one regime are received under the next; plus every "
          "combination of lengths 0..3 of the slice arguments of every method that has any (found by reflection over the ABI), "
          "sent by the administrator; the security state machine of liquidity and bridge (guardian sets growing / shrinking / "
          "staying, emergency, votes of the first / middle / last guardian, administrator changes, halts, with the invariant "
          "'as many vote slots as guardians'); calls that become invalid through chain time only (accelerator life time and "
          "voting period shortened so that they end during the history, expiring HTLCs, halt / unhalt delays) with "
          "amount-carrying calls before, in flight across and after every switch; an amount-carrying call answered with "
          "status 1 must have written contract storage or sent a block on).",
  "design_ref": "§3 C09",
  "note": "Panic-freedom/termination of the Go method bodies (T4, T5) is by the autoreceive stream's monitors, not by "
          "per-method Lean models. Known finding F18 (reproduced on the unchanged tree by the scenario "
          "wrap-owned-unburnable): a contract-to-contract send with an amount whose receive fails cannot be refunded (the "
          "refund to the sending contract has empty call data and is refused by applySend's method lookup); "
          "GenerateAutoReceive then dereferences a nil block on the producer path. The ledger model's applySend omits that "
          "method lookup, so refund_always_possible transfers to the code for non-embedded senders only. The decoder model "
          "bounds slices by len where Go bounds by cap (model panic is necessary, not sufficient, for a Go panic).",
  "technique": "Lean 4 proofs over the ledger state machine and over an executable model of the ABI decoder (induction "
               "over the type AST, decide over generated signature tables) + differential replay (decoder results, decoded "
               "values, re-packed bytes) + producer-path driver with model-free monitors",
 },
 "C03": {
  "text": "Supervisor.ApplyBlock (getContext, the nine checks of accountBlockVerifier.all, enoughPlasma/enoughFunds/"
          "applySend/contract-receive regeneration compare, the four checks of accountBlockTransactionVerifier.all) as a "
          "pure decision function over the block's fields and explicit context facts; kernel-checked: every accepted "
          "block satisfies the property's sentence ValidBlock (verify_sound, for all blocks and all contexts), any "
          "mutation is rejected or valid again (mutation_closed), acceptance is exactly ValidBlock plus an explicit list of "
          "admission conditions (verify_complete, verify_exact; honest user send / user receive / contract receive "
          "instances for non-vacuity), the check order of the model equals the order extracted from the tree's AST. "
          "Tied to the code by the verify stream: ~300 candidates per base block on real node states, verdict and "
          "reason (52 distinct reasons reached) compared with the model, and a statement-only monitor on every "
          "accepted candidate.",
  "design_ref": "§3 C03",
  "note": "Cryptography, PoW hash, embedded method table and contract-block regeneration are oracle facts; the decision "
          "model is hand-written and tied by correspondence + the generated check order. Finding F20b (fixed by 48b97c9): altered "
          "descendant-block content was accepted and stored under the recorded descendant hashes; the monitor produced the "
          "concrete candidates; now delivered_descendant_content_irrelevant + regenerated_descendants_adopted.",
  "technique": "Lean 4 proof over a decision-procedure model + AST-extracted check order + differential mutation stream + statement monitor",
 },
 "C07": {
  "text": "Kernel-checked on the EXECUTABLE manager model (Ldb = ldbManager, cache-free Get) for every reachable state "
          "(any sequence of frontier commits, commits on other parents, pops; ghost history invariant proved by "
          "induction, Lemmas/LdbInv.lean): Get(id) of every version on the chain succeeds and reads, for every key, "
          "exactly the content at that commit (view_refines, view_refines_has); its ordered prefix scan is the "
          "key-ordered list of exactly those entries, at the frontier and below it, empty values included "
          "(view_refines_scan, via merged_scan_correct: two-way merged iterator over sorted layers = sorted entries of the "
          "merged lookup, seen through the delete-enabled iterator, which skips exactly the deleted entries; scan and "
          "Get/Has agree key by key: view_scan_agrees_get; the same through a view with own writes over any root: "
          "layer_scan_spec, version_view_refines); unknown identifiers are refused, commits on a non-frontier parent change "
          "nothing (add_parent_check), views of the same version agree across states (view_immutable), a cached overlay "
          "extended above its frontier equals the rebuilt one (cached_overlay_sound), replaying a view's change set "
          "gives its reads and the change set is independent of write order (changes_replay_*, changes_order_independent). "
          "The model is tied to the code by the vdb stream (every read of every operation sequence compared), a "
          "shadow-map monitor that states the property directly and a scan-vs-Get/Has monitor on every view (key alphabets "
          "incl. the empty key, the record under a bare Subset prefix, 00 / ff runs, the internal prefix bytes); the two cache levels "
          "are exercised by order families around maximumCacheHeightDifference (an identifier re-opened near→far / far→far with the "
          "frontier advancing, then every former frontier tag and its neighbours opened and validated in full); the in-memory manager "
          "(vdb-mem) also with transactions of 2-4 commits that are added and rolled back as a whole. "
          "THE CACHES ARE INSIDE A SECOND MODEL (CLdb, Model/VersionedCache.lean = Ldb + heap of mutable overlay objects + l1/l2 "
          "(identifier -> tag, object pointer) + the views handed out, each holding the pointer and its old snapshot; LRU replacement "
          "= an eviction step that may remove any entry at any time; Props/C07Cache.lean): for EVERY reachable cached state (any "
          "interleaving of commits, stale-parent commits, pops, Gets, evictions; invariant CInv by induction, Lemmas/LdbCache.lean) "
          "and every identifier the cached Get hands out exactly the root the cache-free Get builds, entry by entry "
          "(cached_get_eq_uncached, cached_get_reads_eq_uncached, cached_view_shows_version; the projection of a reachable cached "
          "state is a reachable cache-free state: projection_reachable); every view handed out earlier, read through the heap of ANY "
          "later state over its old snapshot, still shows its commit on every key and every ordered scan although later Gets extend "
          "the overlay object it points to in place (old_views_survive_in_place_extension: apply-without-override only adds keys no "
          "commit in between touched, with the value they have in the old snapshot); answers depend only on the store, so any eviction "
          "schedule is invisible (answers_depend_only_on_store, evictions_are_invisible; whole runs: cached_run_eq_uncached_run, "
          "eviction_schedules_are_invisible); a commit keeps every entry valid "
          "(add_keeps_cache_valid, cache_entries_valid); a tag only has to be a lower bound of what the object holds "
          "(tag_lower_bound_suffices: the first-level entry that stays behind with an older tag is harmless). Tied by regenerated AST "
          "facts (Gen/VdbCache: every access to the cache fields in the package, Get's lookup order / loop bounds / filing, Pop's "
          "statements; the model's Pop purges a level iff the AST says so) and the vdb-cache stream (the complete content of the "
          "real caches after every operation, object identities and overlay digests included, real LRU evictions announced to the model).",
  "design_ref": "§3 C07",
  "note": "Sequential model (a reader of an old view racing with a Get that extends its overlay object is outside it); the "
          "cache-free model Ldb stays the reference, the cached model CLdb is proved equivalent to it; hypotheses of a frontier commit: height = frontier height + 1 < 2^64, "
          "hash not on the chain, user keys outside the hash-index prefix; goleveldb snapshots trusted; finding F3b "
          "(scans of historical views dropped empty-valued keys) was fixed by 734ff49 on top of 522bff7 (iterators skip "
          "deleted entries): the former negative theorems are replaced by positive witnesses and the model has no "
          "skipDeleted layer any more; patches_replay concerns the GetPatch table, which the stream does not exercise.",
  "technique": "Lean 4 refinement proof (induction over reachable manager states) + differential correspondence on op sequences",
 },
 "C06": {
  "text": "Kernel-checked on the executable manager model: in every reachable state, commit on the frontier followed "
          "by pop is observationally the identity — same logical frontier, same frontier identifier, and for every "
          "identifier Get answers alike with views agreeing on every lookup and every ordered prefix scan (pop_add, "
          "ObsEq); any two reachable states with the same chain of versions are observationally equal whatever "
          "branches were committed and popped on the way (same_history_same_obs); the undo patch recorded at commit "
          "restores the previous state for every key (rollback_exact), popping a whole branch returns to the fork "
          "point (branch_switch); tied to ldbManager by the pop-heavy vdb stream with views opened before the switch "
          "and re-read after it. The rollback-overlay caches are inside the cached model CLdb (Props/C07Cache.lean): after Pop no "
          "entry exists (pop_purges, with the purge read from the AST: code_purges, pop_statements_reviewed), in every reachable "
          "cached state an identifier of an abandoned branch is refused and every view shows its commit whatever the caches held "
          "before the switch (cached_unknown_id_refused, cached_view_shows_version), and the purge is necessary: without it (either "
          "level) the view of a version below the switch serves a key of the NEW branch (pop_without_purge_serves_abandoned_branch, "
          "pop_without_l2_purge_serves_abandoned_branch = former finding F5); tied by the vdb-cache stream in its pop-heavy mix "
          "(cache content after every pop compared with the model). The other two stateful components have their own model (Model/NodeCache.lean, "
          "Props/C06Node.lean): for every sequence of momentum inserts, rollbacks of any depth and queries at any time, "
          "the period-point reader and the election lookup answer what a node that only ever saw the current chain answers "
          "(points_no_trace, election_no_trace; invariant: every stored entry is what a computation from scratch gives on the "
          "chain its end/proof hash names — it does not mention the node's chain, which is why the delete events do nothing), "
          "and so does the epoch reader for every epoch, finished or running (epoch_points_no_trace, unconditional since b4e9eef); "
          "the end-hash comparison and the epoch reader's is-finished test are necessary (points_without_endhash_check_stale: "
          "the seeded readers serve the abandoned branch's producer; epoch_served_while_unfinished_keeps_trace: the reader before "
          "the repair of FX1 counts periods that have not started); after "
          "any interleaving of readers with RollbackTo every pool manager was built from the ledger as it is now and every "
          "pooled block acknowledges a momentum of the current chain (pool_no_trace), which fails for notify-before-pop and "
          "for a partial drop (two witnesses); the shape of GetPoint / generateProducers / RollbackTo / DeleteMomentum in the "
          "working tree is regenerated from the AST and pinned by theorems; tied to real nodes by the nc- lines of "
          "sync-batches (complete consensus database, served/recomputed classification, momentums per pillar). The listener "
          "table through which pool and consensus learn about a rollback is exercised by the pool-node stream (model-free): "
          "listeners registered / unregistered in every order, never-registered and twice-unregistered ones, module Stop() "
          "without Start(); every registered probe is told the ledger's inserts / deletes once and in order, the pool monitors "
          "run after every operation.",
  "design_ref": "§3 C06",
  "note": "Observational, not raw, equality (tombstones of created keys remain in the raw frontier — witness example — and "
          "are skipped by every iterator since 522bff7: a regression shows as a listed-but-absent key in the vdb scan monitor "
          "and as F22 in the ledger stream); "
          "the consensus and pool theorems are over an arbitrary specification of the computed values under the hash-chaining "
          "hypothesis ChainWF; finding FX1 (statistics of an unfinished epoch right after a rollback to its last momentum) was "
          "predicted by this model, reproduced and repaired (b4e9eef); pool block content and fork rules are C14's model.",
  "technique": "Lean 4 proof (invariant over reachable manager states; cache invariant keyed by hash over reachable node states; "
               "negative witnesses by evaluation) + regenerated AST facts + differential correspondence on op sequences",
 },
 "C05": {
  "text": "Kernel-checked theorems over Go-faithful models: SelectProducers for any sorting algorithm and any rand.Perm "
          "(exactly NodeCount slots, members only, input-order irrelevance for distinct names, no pillar twice when enough "
          "pillars), ticker (ToTime(ToTick t) <= t < next, monotone, round trip), schedule (slots tile the tick, producer "
          "lookup answers exactly at slot starts with the i-th elected pillar), GetMomentumBeforeTime = last momentum with "
          "ts < t (estimate loop + sort.Search, total for whole-second instants), proof momentum determined by the chain "
          "prefix, cache = recomputation, and momentum_verify_sound for the verifier whose check ORDER is read from the Go "
          "AST on every run; all tied to the tree by three differential streams (election, ticker, mverify on a real mock "
          "chain with every single-field mutation and wrongly signed momentums) with model-free monitors, including "
          "persistence round trips of the consensus store (protobuf + leveldb, evicted LRU, re-opened directory), a node "
          "restarted on its persistent consensus database every round, consensus instances started mid-tick on an empty "
          "consensus database after weight changes and fed by the chain's momentum events, the node's own production path "
          "(GenerateMomentum / a pillar manager asked with every key and instant: only the elected pillar gets a signed "
          "momentum), and every election repeated while other goroutines "
          "draw from the process-wide math/rand generator (regenerated fact: no reference to it in the deciding packages). "
          "Consensus store (Props.C05Store, shared with C11): a proto3 codec model of ElectionData / Point on the wire model of "
          "C13 with round-trip theorems (election_roundtrip, point_roundtrip: two different producers, weight 0 = empty bytes, "
          "empty maps), storage.DB as a key-value map under the real keys with the LRUs in front (cache_transparent, "
          "restart_same_answer, store_get through any later evictions / restarts, key injectivity and keys_disjoint with the "
          "regenerated prefix bytes), the byte string of a Point shown NOT canonical (Marshal ranges over a map) while its "
          "decoded value is, schema / assignment / cache-size facts pinned, negative witnesses for an aliasing Marshal and a "
          "skipping Unmarshal; tied by cs-* lines: the model decodes the REAL bytes, re-encodes them, computes the keys and "
          "replays the store/get/delete/restart sequence performed on real storage.DB instances.",
  "design_ref": "§3 C05",
  "note": "rand.Perm / sort.Sort / hashes / ed25519 / momentum VM are parameters or oracle values with explicit hypotheses; "
          "pillar weights (ComputePillarDelegations) are taken from the real code; cross-node schedule equality after "
          "restart/reorg is by the cold-vs-cached-vs-restarted comparison on one node plus the prefix theorem, not by a multi-node run; "
          "independence from process-wide randomness is monitors and a regenerated AST fact, not a model theorem; the consensus "
          "store theorems assume that no caller mutates an object held by the LRU (Store.Coherent - checked on the real cached "
          "objects by the cs-pt-dec / cs-db lines), names are ASCII (proto3 UTF-8 validation is outside), leveldb is C08.",
  "technique": "Lean 4 proof (induction, permutation reasoning) + regenerated facts (constants, verifier check order from "
               "the AST) + differential correspondence + model-free monitors",
 },
 "C12": {
  "text": "Kernel-checked theorems over the Go-faithful model of getTargetByDifficulty / greaterDifficulty / "
          "DifficultyToPlasma / FussedAmountToPlasma: threshold = 2^64 - 2^64/d for every 2 <= d < 2^64, comparison = "
          "little-endian >=, plasma maps capped/monotone/paid-for; a session of checks (checkSeq) answers every query by "
          "the pure predicate whatever was asked before (check_seq_history_free / _honoured_iff / _repeat); enoughPlasma "
          "sound (fused <= available, total = fused + PoW >= base, <= cap) and no double spend of plasma along unconfirmed "
          "blocks; model tied to the tree by regenerated constants, a differential stream over the full uint64 range, "
          "sessions of real CheckPoWNonce calls on the same (hash, nonce) under changing difficulties, and hand-built "
          "blocks over the product fused claim x proof-of-work x account state through ApplyBlock on a real node; the base cost "
          "itself over block type x destination (ordinary, zero, own, unknown address, embedded) x data length (0 .. 16 KiB+1) "
          "against basePlasmaChecked (base_cost_checked: the destination of a plain send plays no role) and by hand-built sends "
          "one plasma unit below / at that cost; the cost of the called contract method by a reviewed table of method kinds "
          "(simple / withdraw / double withdraw / ...) proved equal to the regenerated GetPlasma of every method under all 8 "
          "spork regimes with total coverage of the method names (method_costs_every_method_reviewed, method_costs_as_reviewed), "
          "used by the harness to price every embedded call, tied to behaviour by a descendant-count monitor and by calls of "
          "every method carrying cost-1 / cost; plasma only from fused QSR by a storage-free replay of the plasma contract's "
          "chain (Fuse calls with every token x amounts around the minimum) compared at every momentum with the fused amounts "
          "the node records and fed to enoughPlasma; across reorganisations and pool operations (chain.RollbackTo by 1-3 "
          "momentums, InsertChain of a longer side chain on a second node, re-delivery of blocks pooled before): availability is "
          "a function of the chain at the acknowledged momentum and of the account's blocks unconfirmed as of it only "
          "(available_history_free, available_same_on_agreeing_chains, no_plasma_without_fusion_on_chain), tied by plasma-avail "
          "lines after every operation and by a monitor that recomputes the clause for every confirmed / pooled block from the "
          "chain the block is now on, plus equality of all plasma figures with a fresh node fed only the adopted chain.",
  "design_ref": "§3 C12",
  "note": "SHA3 is a parameter; the model is hand-written and tied by correspondence (boundary + random inputs); "
          "the facts enoughPlasma rests on (fused QSR, committed / uncommitted chain plasma, base cost) are read from the "
          "real stores by the harness and are inputs of the model.",
  "technique": "Lean 4 proof (omega/induction) + regenerated constants + differential correspondence",
 },
 "C13": {
  "text": "Kernel-checked theorems over a byte-exact model of AccountBlock.ComputeHash / Momentum.ComputeHash (hash "
          "function as parameter): the pre-image determines every covered field for all amounts >= 0 (the sign is the one "
          "thing lost: negative witness), equal hashes of hash-consistent blocks give equal covered fields recursively "
          "through descendants, momentums likewise incl. content list and ChangesHash; protobuf: Proto/DeProto round trip, "
          "proto3 wire encoder/decoder round trip for AccountBlockProto (nested descendants) and MomentumProto, "
          "Deserialize(Serialize(b)) = b; JSON amount / nonce text forms; generic RLP item round trip. Field order, "
          "encoders, struct-field coverage, protobuf schema, Proto()/DeProto() assignments, the verifier's amount bound and "
          "the re-packing of call data are regenerated from the AST / live types of the tree and compared by theorems; "
          "models tied by a differential stream on pre-image, Serialize(), Deserialize (also on re-arranged wire forms), "
          "RLP and text-form bytes plus Go-side round-trip and one-field-alteration monitors; every JSON entry point of "
          "the tree (nom and rpc/api block, paired block, list, detailed momentum, the hand-written marshal structs, Copy) is "
          "taken with every field non-zero and compared field by field by reflection, in hash and in serialised bytes, and "
          "blocks published through the JSON parameter of PublishRawTransaction on a real node are stored byte for byte.",
  "design_ref": "§3 C13",
  "note": "Hash function is a parameter; T2 (stored bytes are a function of covered fields and state) is a theorem over the "
          "model of Supervisor.ApplyBlock for a delivered block (Model/Accept.lean, Props/C13Accept.lean: user blocks equal except the "
          "named residue ChangesHash = F9 and Signature = key holder, with negative witnesses; a contract receive is stored as the "
          "regenerated block; the assignments to / reads of uncovered fields in vm/ and verifier/ are regenerated from the AST and "
          "pinned; the gossip deliveries of the variants stream are replayed through the model: accepted / refused and stored equal / "
          "different), for the other delivery paths it is "
          "decided on real nodes by the `variants` stream (every alteration of every field the hash does not cover, for user "
          "blocks, contract blocks and momentums, delivered to a follower before the honest data - generated contract blocks also by "
          "gossip with their empty key fields filled - and AFTER the follower verified the original and lost it in a reorganisation; "
          "whatever is accepted must be "
          "stored with the original's bytes; known finding F9 for ChangesHash; and the complementary class: every field the hash DOES "
          "cover altered in turn while hash, changes hash, key and signature stay, for user sends / receives, contract receives with and "
          "without descendants, descendant sends and momentums, by gossip before / after the honest copy, inside the confirming momentum, "
          "after confirmation and after a reorganisation - whatever the follower then holds under a hash must hash to it under the "
          "harness's own pre-image, which is the hash oracle of the whole stream, and have the producer's bytes); "
          "the typed RLP decoder of account blocks "
          "(Model/CodecRLPTyped, Props/C13Rlp: typed round trip, ab-unrlp lines with typed-level mutations) and the JSON object "
          "structure of blocks and momentums (Model/CodecJson, Props/C13Json: round trips, unknown / missing members, amount and "
          "number forms; member names regenerated from the struct tags; json-mar / json-unm lines: real MarshalJSON output and real "
          "UnmarshalJSON of mutated texts against the model) are modelled, with bech32 / hex / base64 leaf forms as parameters; the "
          "typed RLP decoder of momentums and the rpc/api wrapper members are covered by "
          "Go-side round-trip monitors, T4 by an AST fact plus monitors (no Lean model of the ABI): ValidateSendBlock of every "
          "method directly, and owner-signed send blocks with non-canonical call data delivered end to end to real nodes "
          "(gossip, publish, inside a momentum) - refused or stored canonical, never stored as delivered.",
  "technique": "Lean 4 proof (induction/omega/decide) + regenerated AST facts + differential correspondence",
 },
 "C19": {
  "text": "Kernel-checked theorems over the Go-faithful model of wallet/{derivation,keystore,keyfile,crypto,password}.go "
          "with the primitives as parameters: isValidPath accepts exactly m(/<decimal below 2^32>')+, every HMAC step uses "
          "an index in [2^31,2^32), DeriveForPath succeeds iff all segments are below 2^31 (DeriveWithIndex iff i < 2^31), "
          "step input = 0x00||key||be32(i) injective, Decrypt(Encrypt(ks,pw),pw) = ks from open_seal, recorded address = "
          "index-0 address, Decrypt ignores the members of a key file that are not bound to the password and returns the key store "
          "of the decrypted entropy whose base address (and the address a key file re-encrypted from it records) is the index-0 "
          "address whatever the file recorded (decrypt_ignores_unauthenticated, decrypt_base_address), address = 0x00||sha3(pk)[:19], sign/verify from verify_sign; no sequence of operations on a "
          "key file object (decrypt with any passwords, unlock/lock, write + read back) changes the key file, so the round "
          "trip holds on every decryption (kfRun_keyfile, kfRun_right_password); tied to the tree by regenerated "
          "constants (regex text, ParseUint bit size, Argon2 parameters and AD string on both sides read from the AST) and "
          "a differential stream on the real wallet code with independently computed oracle values.",
  "design_ref": "§3 C19",
  "note": "Tamper evidence (wrong password / flipped bit fails) is a cryptographic assumption, covered by the stream's "
          "monitor only (incl. near-miss passwords that differ in white space, case or normalisation); that the real "
          "KeyFile object is not modified by reading it is the stream's sequence monitor + model comparison (incl. every "
          "password-taking entry point of wallet.Manager in every manager state); the JSON text layer and the persisted file "
          "(Write over a path that already holds another key file or garbage, read back by ReadKeyFile / Manager.Start) are "
          "covered by the stream only; that derivation through one KeyStore object is a function of (entropy, index) and not of "
          "what was derived before is the stream's sequence family over colliding index sets (i, i+128, i+2^k, ...), each result "
          "compared with the stateless derivation and the Lean model.",
  "technique": "Lean 4 proof (induction/omega/simp) + regenerated facts from AST + differential correspondence with oracle tables",
 },
 "C18": {
  "text": "Kernel-checked theorems that GetRange is the statement's slice for all (index,count,len), pages tile the "
          "list and each element lies on exactly one page; model tied by a differential stream over the full uint32 range "
          "and by every page of every paged getter of every registered service (found by reflection) on ledgers whose "
          "collections span several pages; the JSON-RPC server is driven in a child process over all five transports with a "
          "per-request answer monitor derived from JSON-RPC 2.0, and its dispatch logic has a Lean model (Model/JsonRpc.lean) with "
          "kernel-checked theorems (Props/C18Rpc.lean): no JSON value reaches a panic site (nil message, reqs[0], "
          "Method[0:-1]), a batch is answered by exactly one reply per element that is neither notification nor response-shaped, in "
          "order, with the element's id or null, every non-object and every method-less non-response gets -32600, the former "
          "counterexamples [null], [call,null], [null,call] by evaluation, id kinds as hasValidID has them; tied by one rpc-req "
          "line per well-formed directed request and transport (the model recomputes the shape of the real answer with the "
          "registry reflected from the served services) and by AST facts of readBatch / parseMessage / handleBatch / the "
          "classification predicates / the dispatch switches / the error codes pinned by theorems; the subscription service "
          "(rpc/api/subscribe) runs on a producing mock chain with subscribers of every kind, and every notification is compared "
          "with the ledger (momentums in order, the blocks of each momentum, per address, the sends - user and contract - entering "
          "each mailbox), momentum by momentum and after bursts.",
  "design_ref": "§3 C18",
  "note": "Of the JSON-RPC server the dispatch from a syntactically valid JSON value to the shape of the answer is proved and "
          "compared; what a registered method returns once entered (result / typed-argument error / method error = class app), "
          "malformed text, HTTP refusals, the transports and process survival are runtime monitors; deviations of the code from "
          "JSON-RPC 2.0 that the model follows are listed in Props/C18Rpc.lean (boolean ids, unchecked version member, "
          "case-insensitive members, response-shaped messages dropped). The content of embedded getters is not a theorem; known "
          "findings F2b (index*size wrap in the reward / epoch history pagers) and F23 (AcceleratorApi.GetAll unbounded).",
  "technique": "Lean 4 proof (omega, induction, case analysis, decide) + regenerated facts from AST and reflection + differential correspondence",
 },
 "C14": {
  "text": "Kernel-checked theorems over the Go-faithful model of higherPriority (uint64 products), filterBlocksToCommit "
          "and the per-address memdbManager-backed pool: the competition rule is total/antisymmetric for all uint64 inputs, "
          "transitive and arrival-order independent in the accepted plasma range (negative witnesses for zero plasma and "
          "wrap-around), the momentum content is the longest batch-boundary prefix within the limit, and the pooled blocks "
          "form one chain above the confirmed frontier under all operation sequences; tied by regenerated constants and "
          "differential streams. The per-account in-memory versioned store of the pool is replayed through the Lean manager "
          "model (a popped version answers like an unknown one), and real nodes (a producer rolling back and three competing "
          "branches, followers fed by gossip and sync, readers inside every momentum notification before and after the pool) "
          "are checked after every operation: pool = ledger frontier extended by the pooled chain, GetPatch answers exactly "
          "for the pooled chain, every valid delivery is adopted. The WHOLE pool (any number of addresses, transactions with "
          "several commits: a contract receive with its descendant sends) is a second model (Props/C14Multi.lean) with the "
          "same clauses for all operation sequences - one chain per address, confirmed never displaced, transactions in the "
          "pool entirely or not at all, addresses independent and rebuilt in any order, after a momentum exactly the "
          "unconfirmed transactions that still link - replayed against a real pool by the pool-multi stream; the winner clause "
          "for transactions with descendants is false of the code (known finding FDF1: negative witnesses, partial theorem for "
          "the code as it is, full theorem for the repaired rule).",
  "design_ref": "§3 C14",
  "note": "Data-race freedom and reader atomicity are runtime properties (not theorems); readers are interposed at the "
          "listener boundaries of momentum insert/delete. The pool state machine is a "
          "hand-written model; the two pure decision functions are tied by differential streams. Confinement of the "
          "subscription table of rpc/api/subscribe to its worker goroutine is a regenerated call-graph fact (AST), not a race-detector run; "
          "that every value sent on its channels is freshly allocated by the sender is a regenerated fact too, and the subscribe stream "
          "compares every event delivered after a burst of momentums (inserted while a subscriber does not read) with the ledger.",
  "technique": "Lean 4 proof (induction/omega) + regenerated constants + differential correspondence + node-level monitors",
 },
 "C11": {
  "text": "Kernel-checked theorems over Go-faithful models. Arithmetic (wrapping int64, truncating big.Int.Quo): rounded-down "
          "pro-rata shares never exceed the split amount (stake, sentinel, pillar/backers, liquidity stake), the pillar "
          "formula stays within (delegation+producing per momentum) x expected momentums, and for every uint64 epoch the "
          "regenerated emission tables give non-negative pieces that sum to at most the network emission per coin. Epoch "
          "cursor (checkAndPerformUpdateEpoch and the update*Rewards loops, defined by well-founded recursion): one Update "
          "rewards exactly the consecutive epochs after the cursor that ended RewardTimeLimit before the frontier momentum "
          "and stops only at an epoch not yet due; over any sequence of Update/credit/collect calls the rewarded epochs are "
          "strictly increasing and - for the pillar/stake/sentinel loops and the post-spork liquidity method - exactly the "
          "epochs the cursor passed, each once; iteration count bounded by elapsed epochs. Deposits: CollectReward mints "
          "exactly the deposit to the caller, zeroes it, a second call is refused; over any call sequence minted + "
          "collectable = initial + credited. Tied to the code by regenerated tables, a differential stream on the real "
          "contract functions, and real short-epoch chains whose every Update/credit/collect is replayed through the model, "
          "with per-epoch emission bounds recomputed in Lean, model-free monitors, and producer/follower comparison of "
          "cursor, deposits and history entries.",
  "design_ref": "§3 C11",
  "note": "Credited amounts enter the cursor model as observed inputs (arithmetic proved separately); node-independence "
          "of the consensus statistics: the aggregation of period points into an epoch point is a Lean function that counts "
          "every momentum once (Props.C11Points), compared with folds over real cached storage.Point objects; what a node "
          "stores of a point is what it or a restarted node reads back (Props.C05Store: point_roundtrip incl. weight-0 pillars, "
          "store_get_point, restart_same_answer_point, point_value_canonical; cs-pt-* lines decode the real bytes and compare "
          "the cached period points after the real folds with the decode of the stored bytes); that a node's "
          "answers do not depend on what it was asked before is correspondence (each question twice, against a fresh "
          "consensus instance, statistics against the chain, followers synced one by one, in batches, with restarts), not a "
          "theorem. Known finding F14: the origin/accelerator-table liquidity Update consumes one epoch without reward when "
          "more than 10 epochs behind (partial theorem + negative witness; reproduced on a real chain by the stream).",
  "technique": "Lean 4 proof (well-founded recursion, induction, omega, decide over generated tables) + regenerated constants + "
               "differential correspondence on pure functions and on real multi-node chains + monitors",
 },
 "C20": {
  "text": "Kernel-checked theorems over the Go-faithful model of NewMomentumContent (sorted by address|height|hash bytes; any two "
          "sorted arrangements of the same headers are equal, so sort(perm l) = sort l independently of the algorithm), of "
          "CheckGenesis and its five validators as repaired (contract without entry, second entry for an address, nil / negative "
          "amount, MaxSupply, nil / negative fusion, pillar and swap amounts) — check_genesis_sound: accepted => for every declared token the LEDGER balances (one per address "
          "and token, as NewGenesis stores them) add up to TotalSupply with 0 <= TotalSupply <= MaxSupply, every held token is "
          "declared, no balance is negative or missing, no address has two entries, the plasma contract holds exactly the sum of "
          "the fusions in QSR, the pillar contract exactly the sum of the stakes in ZNN, neither anything else, the swap contract "
          "nothing, every fusion / pillar / swap amount is present and non-negative; the only premise is the representation invariant of a Go map — and of checkGenesisCompatibility (refused iff "
          "stored height-1 hash differs); tied to the tree by regenerated facts (validator order, comparer operator, header "
          "field order, contract addresses) and a differential stream on the real NewGenesis / CheckGenesis / "
          "ReadGenesisConfigFromFile / chain.Init, and through the node-level path (node.NewNode on genesis files, several nodes in "
          "one process: the genesis follows the contents of the configured file, not the path or what the process loaded before; "
          "start on a foreign database refused). One genesis object initialising several ledgers in one process: every "
          "ledger that ends up initialised holds the full configured initial state (byte for byte the first ledger's key "
          "space), a later start on it is refused or finds that state (model-free monitor; a refused / crashing second "
          "initialisation is counted, not judged). Pure function of the configuration: the header of the genesis momentum is "
          "modelled (genesisHeader; genesis_timestamp_is_config: TimestampUnix = uint64(GenesisTimestampSec) for every value, 0 / "
          "member left out included) and replayed on every construction; one configuration - scalar members on boundary values, "
          "members left out of the file - is built under changed clocks, time zones, GOMAXPROCS, working directories, environments, "
          "math/rand states, in child processes and >= 1.1 s later, and must give the same hash, content, state patch and ledger; "
          "a node restarted on its own database at a later clock must start; the references of the genesis-building code to "
          "time / os / runtime / rand / Clock and its ranges over Go maps are regenerated facts pinned to the reviewed lists.",
  "design_ref": "§3 C20",
  "note": "Permutation / fresh-process invariance of the whole genesis momentum is decided on the real code by the stream's "
          "monitor, not by a theorem. The six defects the check had found in the validators (F13a-f: no contract entry, "
          "duplicate address entry, supply above MaxSupply, (nil,nil) from ReadGenesisConfigFromFile, negative amounts, unchecked "
          "signs of individual fusion / pillar / swap amounts) are "
          "repaired in /repo; the former _partial theorems are full statements, the former negative witnesses are theorems that "
          "the same configurations are refused, and the stream produces each of these configurations on every run (a model-free "
          "monitor fails if one is accepted again). Configurations on which the validators dereference nil are outside the "
          "model: never accepted (panic in CheckGenesis, error from ReadGenesisConfigFromFile).",
  "technique": "Lean 4 proof (core List.mergeSort/Perm lemmas, induction, decide examples) + regenerated facts from AST + "
               "differential correspondence + ledger monitor on a real chain",
 },
 "C15": {
  "text": "Kernel-checked theorems over the Go-faithful model of handleMsg (size gate, dispatch, the uint64 request arithmetic of "
          "GetBlockHashes / GetBlockHashesFromNumber / GetBlocks incl. GetMomentumsByHeight's range and the nil/makeslice panics): "
          "reply caps for every chain height and every request without premise, no panic for every message (held or unknown hash, "
          "every number and amount) on a node that holds its genesis momentum and fewer than 2^64-1 momentums (both premises shown "
          "necessary), size gate before decoding, unknown codes refused without state change; the former counterexamples "
          "(unknown hash; from-number (0,0), (0,1), (1,0)) are positive theorems; "
          "model tied to the tree by regenerated constants/AST facts (incl. every write of request.Amount and the nil test of "
          "GetMomentumsByHash) and by a differential stream driving the real ProtocolManager. "
          "Synchronisation (Props/C15Sync.lean): the control logic of protocol/downloader (Synchronise, findAncestor, fetchHashes, "
          "fetchBlocks, process, queue.Reserve/Deliver/Expire, the three channels, the hash time-out and the block deadlines) as a "
          "transition system over events (hash pack / block pack from any peer, tick, update with the requests handed out, import, "
          "cancel, register / unregister, Synchronise); for the code as it is — pinned by AST facts and the real time-outs — the "
          "time-out of the pending hash request is armed in every reachable state in which the hash fetcher waits (whatever other "
          "peers send), silence ends a synchronisation within an explicit measure in the real constants, a synchronisation starts with "
          "empty channels whatever the previous one left and its block fetcher cannot return before its hash fetcher said so, and a "
          "dropped peer is the one at fault (forged block / failed import: the deliverer; the peer synchronised from only for its own "
          "faults); the seeded change C15-r2-1 and the pre-repair code of FU1 / FU2 are variants of the same step function with "
          "kernel-checked counterexamples; a request in flight at a peer that LEFT (unregister) expires like any other - the hashes go "
          "back to the queue, an update drops only registered peers, the peer that stayed serves them (expired_request_goes_back, "
          "update_drops_only_registered, departed_peer_request_*). The p2p-net scenarios - incl. the family in which a peer leaves "
          "(disconnect with each reason / closed or reset connection / protocol error) at every stage while a request to it is in "
          "flight - are replayed through the model by the driver (who is dropped, synced, stalled). "
          "Frames and datagrams (Props/C15Frame.lean): the RLPx frame reader / writer and the discovery packet decoder as total "
          "functions over byte streams with the cryptography as a parameter - for every byte string: read(write m) = m with the "
          "rest of the stream untouched, no bounds check can fail, nothing is delivered unless header MAC and frame MAC compared "
          "equal, a delivered message is below 2^24 bytes, a strict prefix of a frame never yields a message, a changed MAC tag is "
          "rejected with no premise and changed header / body bytes unless they carry the right tag (explicit premise), re-ordered "
          "and replayed frames fail at the header when the tag separates MAC states (explicit premise), a rejection changes only "
          "the offending connection's state; datagrams shorter than 98 bytes, with a wrong hash, an unknown type or an expired "
          "request are refused before the table is touched, and a neighbors reply of at most maxNeighbors nodes is below 1280 "
          "bytes; constants and the order of the checks are regenerated from the tree, and the real functions are replayed on raw "
          "bytes through the model (streams frame-model, disc-model).",
  "design_ref": "§3 C15",
  "note": "Only the handler logic is proved. Survival on arbitrary bytes, allocation inside rlp, goroutine hygiene and liveness are "
          "differential testing against the total model, not proof; the rlpx frame reader and the discovery packet decoder are "
          "proved around a PARAMETRIC cryptography (unforgeability of the MAC is a premise, never a theorem) and keep their "
          "monitor-only mutation streams (incl. the re-sealed families: inner bytes mutated first, hash/signature/MACs "
          "recomputed with the sender's key, codec under recover and a live ListenUDP node that must keep answering). Liveness is a "
          "monitor: after every refused account block / momentum delivery the insert lock is free, an honest peer's block reaches "
          "the pool, an honest request is answered and the node produces its next momentum (class=stalled-*). Findings "
          "F7a (unknown hash panicked) and F7b (Number+Amount<=1 returned the whole chain) are fixed in d85e958 and 99f2642; their "
          "inputs are sent on every run and a recurrence is reported as a violation. The devp2p base protocol (disconnect reasons and "
          "payload shapes, ping/pong payloads, repeated / altered handshakes, unknown codes — after and instead of the handshake) and the "
          "downloader / fetcher under scripted hostile peers (sync peer silent at seven stages with a bystander's unsolicited packs, 22 "
          "kinds of hostile answers, hostile helpers, import batches assembled from two peers) are exercised by the stream "
          "p2p-net on a node in a child process behind a real p2p.Server with raw RLPx clients; monitors: process survival, the node "
          "reaches the honest peer's height within deadlines derived from the real time-outs, honest peers are never disconnected, the "
          "peer that delivered a refused momentum is. The encryption handshake in BOTH directions (auth messages sent to the node, auth "
          "responses to a node that dials the harness, every field family hostile behind a correct ECIES envelope, hostile envelopes, "
          "truncated / half-open / trailing / replayed) and SOLICITED discovery replies (the full bonding exchange and Table.Lookup "
          "answered with correctly signed hostile pongs / neighbors) are exercised by the stream p2p-hs, also against a child process, "
          "with monitors only (survival, honest peers served, the node still dials, half-open connections time out, a lookup returns). "
          "All p2p streams run with production-like logging (every record formatted at debug "
          "level). FU1 (errInvalidChain from any peer's mis-numbered block pack dropped the honest origin peer) and FU2 (a stale "
          "processCh value after a cancelled synchronisation stalled the downloader for ever), found by this stream, are repaired "
          "(7ec6f07 + 5b338e6, 4fc5ee4). The downloader model abstracts the goroutines to event interleavings and MODELS Go channels "
          "and timers (not verified); its liveness statement assumes that every update offers a request to every idle peer and does "
          "not cover throttling, the 262144-hash limit, or a peer that keeps answering just in time; the replay of the scenarios "
          "compares who is dropped and synced / stalled, not times, and the scenarios in which a block pack can cross a request "
          "(five of 49 as a rule) are replayed on the hash level only.",
  "technique": "Lean 4 proof (omega/case analysis; invariant + decreasing measure for the downloader state machine; decide for the "
               "variant counterexamples) + regenerated constants and AST facts + differential correspondence over p2p.MsgPipe + "
               "scenario monitors and model replay of scripted-peer traces on a node process behind a real p2p.Server",
 },
 "C16": {
  "text": "Kernel-checked theorems over a line-by-line model of chainBridge.InsertChain on an abstract chain with a verification "
          "oracle: a node leaves its chain only when the delivered suffix links to an own momentum at most 30 below the frontier and "
          "claims a greater height; every new element passed the oracle in order and the chain stays linked; on a verification error "
          "the index is the position in the original batch and the node holds exactly the verified prefix; known batches (the empty "
          "one included) are no-ops; no panic for any node and batch; a batch whose first unknown momentum claims height 0, 1 or "
          "frontier+2 and above is refused with the link error and the node untouched; every non-verification refusal leaves the "
          "node as it was. Tied by AST facts (window 30, operators, order of the tests incl. the emptiness and nil-target tests, "
          "returned indices; nothing is read from the node before the insert lock is taken and the lock is released by a deferred "
          "Unlock — theorem insertChain_reads_under_lock — so the model's node is the chain at insertion time) "
          "and a differential stream feeding followers through the real InsertChain, including deliveries that wait for the insert "
          "lock while the node's chain grows.",
  "design_ref": "§3 C16",
  "note": "Verification itself (verifier/*, vm) is an oracle here; the account-block side is monitored model-free: one account block of "
          "a delivered momentum altered by type and position (30 mutations), after every delivery the node's chain and its pool of "
          "unconfirmed blocks hold only the producer's bytes, and the genuine version of a refused batch is adopted next; momentums "
          "delivered with one more account block than they list (a block of a sibling momentum, valid on its own on the same state, "
          "at the front / middle / end; a block of another momentum of the batch) must be refused at that element. "
          "Known finding F7d (rollback before verification) is open (and F9, owned by C13, is visible here as a pooled user block "
          "with an altered ChangesHash); "
          "F7c (panics on empty / non-linking-by-height batches) was fixed in 264f72a, F7e (stale-parent momentum silently dropped "
          "and reported as success) in 9a5065f.",
  "technique": "Lean 4 proof (induction over the batch) + AST facts + differential correspondence on real nodes + model-free monitors",
 },
}


# ---- round 5 additions (appended; text joins what the entries above say) ------------------------------------------------------
_TR = (" TRANSLATED CODE (Props/Translated.lean, round 5): the pure integer functions this property rests on are no longer only "
       "hand-modelled: a Go->Lean translator (harness/cmd/zvh/f_translate.go, a strict go/ast subset: fixed-width integers with "
       "wrap-around, big.Int through a fixed method set, if/return, let-rebinding, explicit panics) regenerates their bodies into "
       "Gen/Translated.lean on every run, and for every translated definition a theorem proves it equal to the hand model the "
       "property theorems are about (or pins it at machine level where marked _pinned / _partial); `all_translated` fails the build "
       "when a function leaves the subset; the `translated` stream runs the real functions on boundary and random inputs against both "
       "the translated definition and the hand model.")
for _k, _what in (("C18", "GetRange, the page requests of GetAccountBlocksByPage / GetMomentumsByPage, the reward-history first-epoch expression"),
                  ("C14", "higherPriority (wrapping uint64 products, hash tie-break)"),
                  ("C12", "DifficultyToPlasma, GetDifficultyForPlasma, FussedAmountToPlasma, getTargetByDifficulty, GetThresholdByDifficulty"),
                  ("C05", "ticker.ToTick / ToTime offsets / TickMultiplier tail"),
                  ("C15", "the MaxHashFetch caps, Number+Amount-1, the available clamp and the beyond-frontier exit of handleMsg"),
                  ("C11", "MinInt64 / MaxInt64, getWeightedStakeAmount, getWeightedStake, getWeightedSentinel")):
    TEXT[_k]["text"] += _TR + " Translated here: " + _what + "."
    TEXT[_k]["technique"] += " + Go->Lean translation of the integer core with refinement theorems"
# ---- round 6 additions: the translator covers loops, tables, switch and more fragments ------------------------------------------
_TR6 = (" TRANSLATED CODE, round 6: the subset now has counting loops (folds over the counter's values with continue / break / return), "
        "indexing of byte slices and of package-level tables with Go's bounds panic explicit, switch, on-demand min/max helpers; the "
        "definitions that were only pinned at machine level in round 5 are proved equal to the Nat/Int hand models.")
for _k, _what in (("C18", "the page request against Rpc.pageRequest (needs the page-size guard: negative witness without it), the reward-history epoch, and the page-size guard of ALL 27 paged getters as one fact list (pageGuards_translation_refines_model: each has a bound <= RpcMaxPageSize)"),
                  ("C14", "accountPool.filterBlocksToCommit (range loop with break over the slice of block pointers projected to BlockType, make / self-append / x[:0]) proved equal to the model loop Pool.filterGo for every list, by induction"),
                  ("C12", "greaterDifficulty (downward loop over 8 bytes, panics on shorter slices), the plain-send base cost of GetBasePlasmaForAccountBlock, the three inequalities of enoughPlasma composed against Pow.enoughPlasma"),
                  ("C05", "ToTime offsets against Ticker.toTime, the TickMultiplier tail against Consensus.tickMultiplier, the two timestamp tests of rawMomentumVerifier.timestamp"),
                  ("C15", "nothing new"),
                  ("C11", "NetworkZnnRewardPerEpoch / NetworkQsrRewardPerEpoch with their tables read from the AST, the CanPerformEpochUpdate test against EpochCursor.tooRecent, the cursor increment, getWeightedStakeAmount against RewardEpoch.stakeWeightedAmount"),
                  ("C03", "the amount bounds (Sign() == -1, BitLen() > 255) and the three height / previous-hash checks of accountBlockVerifier against Verify.amountTooBig / Verify.heightChecks"),
                  ("C16", "the rollback-target height, the 30-momentum window and the strictly-longer test of chainBridge.InsertChain against Proto.sub64 / Gen.InsertChainWindow / Sync.pred64")):
    TEXT[_k]["text"] += _TR6 + " Translated in round 6: " + _what + "."
for _k in ("C03", "C16"):
    TEXT[_k]["technique"] += " + Go->Lean translation of the integer comparisons with refinement theorems"
TEXT["C11"]["text"] += (" END-TO-END (Props/C11Epoch.lean, Model/RewardEpoch.lean, round 5): one composed machine per contract - the cursor loop "
    "calling a line-by-line model of compute...ForEpoch (stake, sentinel, pillar with producer / delegate split, liquidity with both "
    "tables) on the storage the previous epoch left - with theorems over arbitrary runs: per epoch the sum credited over all accounts "
    "is within the contract's emission (stake / sentinel / pillar / liquidity_epoch_within_emission), over any run the total credited "
    "is within the emission summed over exactly the rewarded epochs, which are cursor0+1 .. cursor without gap or repeat "
    "(total_credited_le_total_emission), minted <= credited with equality after a collect (total_minted_le_total_emission), credits "
    "independent of the order of stake entries and backers; consensus premises (produced <= expected, weights within the total) are "
    "named hypotheses, discharged from C11Points where the statistics are a compound point; every real epoch update's complete input "
    "and credits are replayed through the composed model (RE-* lines).")
TEXT["C15"]["text"] += (" BLOCK FETCHER (Props/C15Fetcher.lean, Model/Fetcher.lean): protocol/fetcher (Notify / Enqueue / Filter, loop, enqueue, "
    "insert, forgetHash, forgetBlock, the limits and time-outs as generated constants, the shape of every function pinned by AST facts) as a "
    "transition system over events of any number of peers; for every reachable state: per peer <= blockLimit queued blocks, in total <= "
    "peers x blockLimit, each accepted within [-maxUncleDist, +maxQueueDist] of the chain height; the queue counters equal the entries; "
    "dropPeer only for the origin of a block that failed validateBlock; insertChain only for a queued, popped, validated entry with known "
    "parent at height <= head+1, and nothing of that hash is kept when its goroutine ends. The announce side (per peer <= hashLimit pending announcements, "
    "announce counters equal the entries) holds of the code since the fix of finding FGD1 (the timer case now counts the fetch it stores; "
    "before, the counter of pending announcements went negative, lifting hashLimit): theorems announces_bounded / counters_consistent for "
    "the code as it is, negative witnesses beforeFGD1_* for the tree before the fix; stream fetcher replays the real fetcher through the "
    "model, its announce-counter / announce-bound monitors are strict.")
TEXT["C16"]["text"] += (" At fetcher level (Props/C15Fetcher.lean): never_imports_unqueued, import_in_height_order, failed_import_not_kept.")
