HOOK_COMMITS = ["02bc05e"]
NOT_APPLICABLE = {}
TEXT = {
 "C12": {
  "text": "Kernel-checked theorems over the Go-faithful model of getTargetByDifficulty / greaterDifficulty / "
          "DifficultyToPlasma / FussedAmountToPlasma: threshold = 2^64 - 2^64/d for every 2 <= d < 2^64, comparison = "
          "little-endian >=, plasma maps capped/monotone/paid-for; model tied to the tree by regenerated constants and "
          "a differential stream over the full uint64 range.",
  "design_ref": "§3 C12",
  "note": "SHA3 is a parameter; the model is hand-written and tied by correspondence (boundary + random inputs); "
          "enoughPlasma over ledger states is covered by correspondence only.",
  "technique": "Lean 4 proof (omega/induction) + regenerated constants + differential correspondence",
 },
 "C18": {
  "text": "Kernel-checked theorems that GetRange is the statement's slice for all (index,count,len), pages tile the "
          "list and each element lies on exactly one page; model tied by a differential stream over the full uint32 range.",
  "design_ref": "§3 C18",
  "note": "JSON-RPC server survival and embedded getters are not theorems (runtime / correspondence).",
  "technique": "Lean 4 proof (omega) + differential correspondence",
 },
 "C14": {
  "text": "Kernel-checked theorems over the Go-faithful model of higherPriority (uint64 products), filterBlocksToCommit "
          "and the per-address memdbManager-backed pool: the competition rule is total/antisymmetric for all uint64 inputs, "
          "transitive and arrival-order independent in the accepted plasma range (negative witnesses for zero plasma and "
          "wrap-around), the momentum content is the longest batch-boundary prefix within the limit, and the pooled blocks "
          "form one chain above the confirmed frontier under all operation sequences; tied by regenerated constants and "
          "differential streams.",
  "design_ref": "§3 C14",
  "note": "Data-race freedom and reader atomicity are runtime properties (not theorems). The pool state machine is a "
          "hand-written model; the two pure decision functions are tied by differential streams.",
  "technique": "Lean 4 proof (induction/omega) + regenerated constants + differential correspondence",
 },
 "C11": {
  "text": "Kernel-checked theorems over the Go-faithful model (wrapping int64, truncating big.Int.Quo) of the reward "
          "arithmetic: rounded-down pro-rata shares never exceed the split amount (stake, sentinel, pillar/backers, "
          "liquidity stake), the pillar formula stays within (delegation+producing per momentum) x expected momentums, "
          "and for every uint64 epoch the regenerated emission tables give non-negative pieces that sum to at most the "
          "network emission per coin; tied by regenerated tables and a differential stream that runs the real contract "
          "functions on an in-memory storage.",
  "design_ref": "§3 C11",
  "note": "Arithmetic part only (T1-T3). Epoch cursor (exactly once, in order), collect-once and node-independence are "
          "not covered by this check yet.",
  "technique": "Lean 4 proof (induction/omega/decide over generated tables) + regenerated constants + differential correspondence",
 },
}
