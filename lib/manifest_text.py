HOOK_COMMITS = ["02bc05e"]
NOT_APPLICABLE = {}
TEXT = {
 "C12": {
  "text": "Kernel-checked theorems over the Go-faithful model of getTargetByDifficulty / greaterDifficulty / "
          "DifficultyToPlasma / FussedAmountToPlasma: threshold = 2^64 - 2^64/d for every 2 <= d < 2^64, comparison = "
          "little-endian >=, plasma maps capped/monotone/paid-for; model tied to the tree by regenerated constants and "
          "a differential stream over the full uint64 range.",
  "design_ref": "§3 C12",
  "note": "SHA3 is a parameter; the model is hand-written and tied by correspondence (boundary + random inputs); "
          "enoughPlasma over ledger states is covered by correspondence only.",
  "technique": "Lean 4 proof (omega/induction) + regenerated constants + differential correspondence",
 },
 "C13": {
  "text": "Kernel-checked theorems over a byte-exact model of AccountBlock.ComputeHash / Momentum.ComputeHash (hash "
          "function as parameter): the pre-image determines every covered field for all amounts >= 0 (the sign is the one "
          "thing lost: negative witness), equal hashes of hash-consistent blocks give equal covered fields recursively "
          "through descendants, momentums likewise incl. content list and ChangesHash; protobuf: Proto/DeProto round trip, "
          "proto3 wire encoder/decoder round trip for AccountBlockProto (nested descendants) and MomentumProto, "
          "Deserialize(Serialize(b)) = b; JSON amount / nonce text forms; generic RLP item round trip. Field order, "
          "encoders, struct-field coverage, protobuf schema, Proto()/DeProto() assignments, the verifier's amount bound and "
          "the re-packing of call data are regenerated from the AST / live types of the tree and compared by theorems; "
          "models tied by a differential stream on pre-image, Serialize(), Deserialize (also on re-arranged wire forms), "
          "RLP and text-form bytes plus Go-side round-trip and one-field-alteration monitors.",
  "design_ref": "§3 C13",
  "note": "Hash function is a parameter; T2 (stored bytes are a function of covered fields and state) and the two-node "
          "`variants` stream are not built in this round; typed RLP decoding and JSON object structure are covered by "
          "Go-side round-trip monitors, T4 by an AST fact plus monitors (no Lean model of the ABI).",
  "technique": "Lean 4 proof (induction/omega/decide) + regenerated AST facts + differential correspondence",
 },
 "C18": {
  "text": "Kernel-checked theorems that GetRange is the statement's slice for all (index,count,len), pages tile the "
          "list and each element lies on exactly one page; model tied by a differential stream over the full uint32 range.",
  "design_ref": "§3 C18",
  "note": "JSON-RPC server survival and embedded getters are not theorems (runtime / correspondence).",
  "technique": "Lean 4 proof (omega) + differential correspondence",
 },
}
