HOOK_COMMITS = ["02bc05e"]
NOT_APPLICABLE = {}
TEXT = {
 "C01": {
  "text": "Abstract ledger model (balances, confirmed sends, receive markers, token contract issue/mint/burn/update) with "
          "kernel-checked guards (no send above balance, zero-token sends empty) and the negative witness for the "
          "pre-enforcement-height double receive; the model is replayed against every accepted block of generated "
          "histories on a real node with all balances/supplies compared after each momentum, and a model-free monitor "
          "checks balances + unreceived sends = supply <= max at every momentum and pool state.",
  "design_ref": "§3 C01",
  "note": "Invariant-by-induction theorems are being extended (see evidence.theorems for what is proved in this run); "
          "non-token contract methods enter as observed outcomes; below ReceiverMismatchEnforcementHeight the property is "
          "false of the code (known finding F8).",
  "technique": "Lean 4 proof over a ledger state machine + differential replay of accepted blocks + conservation monitor",
 },
 "C03": {
  "text": "Supervisor.ApplyBlock (getContext, the nine checks of accountBlockVerifier.all, enoughPlasma/enoughFunds/"
          "applySend/contract-receive regeneration compare, the four checks of accountBlockTransactionVerifier.all) as a "
          "pure decision function over the block's fields and explicit context facts; kernel-checked: every accepted "
          "block satisfies the property's sentence ValidBlock (verify_sound, for all blocks and all contexts), any "
          "mutation is rejected or valid again (mutation_closed), honest user send / user receive / contract receive "
          "are accepted (non-vacuity), the check order of the model equals the order extracted from the tree's AST. "
          "Tied to the code by the verify stream: ~300 candidates per base block on real node states, verdict and "
          "reason (52 distinct reasons reached) compared with the model, and a statement-only monitor on every "
          "accepted candidate.",
  "design_ref": "§3 C03",
  "note": "Cryptography, PoW hash, embedded method table and contract-block regeneration are oracle facts; the decision "
          "model is hand-written and tied by correspondence + the generated check order. Finding F20b (fixed by 48b97c9): altered "
          "descendant-block content was accepted and stored under the recorded descendant hashes; the monitor produced the "
          "concrete candidates; now delivered_descendant_content_irrelevant + regenerated_descendants_adopted.",
  "technique": "Lean 4 proof over a decision-procedure model + AST-extracted check order + differential mutation stream + statement monitor",
 },
 "C07": {
  "text": "Kernel-checked refinement: the rollback overlay that Get(X) folds from the stored undo patches, laid over the "
          "frontier, equals the store as of X for every key and every sequence of later commits (view_reconstructs), the "
          "byte-level tombstone/marker encoding refines the logical level (hist_get_refines, overlay_refines, apply_refines). "
          "The hand-written model of ldbManager and the view tree is tied to the code by the vdb stream (every read of every "
          "operation sequence compared) and a shadow-map monitor that states the property directly.",
  "design_ref": "§3 C07",
  "note": "Sequential model; caches not modelled (cache-free Get) — cached real code compared by correspondence; "
          "goleveldb snapshots trusted; scans of historical views drop empty-valued keys (known finding F3b).",
  "technique": "Lean 4 refinement proof (induction over commits) + differential correspondence on op sequences",
 },
 "C06": {
  "text": "Kernel-checked: the undo patch recorded at commit restores the previous state for every key (rollback_exact), "
          "popping a whole branch returns to the fork point and committing the other branch ends in the state of a node "
          "that only saw that branch (branch_switch); tied to ldbManager by the pop-heavy vdb stream with views opened "
          "before the switch and re-read after it.",
  "design_ref": "§3 C06",
  "note": "State-level theorems; pool and consensus-statistics clauses are correspondence only.",
  "technique": "Lean 4 proof (induction) + differential correspondence on op sequences",
 },
 "C12": {
  "text": "Kernel-checked theorems over the Go-faithful model of getTargetByDifficulty / greaterDifficulty / "
          "DifficultyToPlasma / FussedAmountToPlasma: threshold = 2^64 - 2^64/d for every 2 <= d < 2^64, comparison = "
          "little-endian >=, plasma maps capped/monotone/paid-for; model tied to the tree by regenerated constants and "
          "a differential stream over the full uint64 range.",
  "design_ref": "§3 C12",
  "note": "SHA3 is a parameter; the model is hand-written and tied by correspondence (boundary + random inputs); "
          "enoughPlasma over ledger states is covered by correspondence only.",
  "technique": "Lean 4 proof (omega/induction) + regenerated constants + differential correspondence",
 },
 "C18": {
  "text": "Kernel-checked theorems that GetRange is the statement's slice for all (index,count,len), pages tile the "
          "list and each element lies on exactly one page; model tied by a differential stream over the full uint32 range.",
  "design_ref": "§3 C18",
  "note": "JSON-RPC server survival and embedded getters are not theorems (runtime / correspondence).",
  "technique": "Lean 4 proof (omega) + differential correspondence",
 },
}
