HOOK_COMMITS = ["02bc05e"]
NOT_APPLICABLE = {}
TEXT = {
 "C01": {
  "text": "Kernel-checked invariants of the abstract ledger state machine (balances, confirmed sends, receive markers, "
          "token contract issue/mint/burn/update), by induction over accepted blocks and lifted to all reachable states: "
          "above the receiver-enforcement height, recorded supply = sum of balances + sum of unreceived sends for every "
          "token (conservation); no debit of an accepted block exceeds the balance it is applied to and a burn never "
          "exceeds the recorded supply (no_underflow, burn_within_supply); supply <= max supply (supply_le_max); only a "
          "status-1 receive of the token contract changes token storage, every other block - in particular a refunded "
          "call, which emits exactly the refund - leaves supply and the sum unchanged; negative witness for the "
          "pre-enforcement-height double receive. The model is replayed against every accepted block of generated "
          "histories on a real node with all balances/supplies compared after each momentum, and a model-free monitor "
          "checks balances + unreceived sends = supply <= max at every momentum and pool state.",
  "design_ref": "§3 C01",
  "note": "Non-token contract methods enter as observed outcomes (status, descendants); hash freshness and the send-time "
          "check total <= max of issue calls are hypotheses of reachability; genesis consistency (T5) is C20; below "
          "ReceiverMismatchEnforcementHeight the property is false of the code (known finding F8).",
  "technique": "Lean 4 invariant proof (induction over reachable states) + differential replay of accepted blocks + conservation monitor",
 },
 "C04": {
  "text": "Kernel-checked invariants of the ledger state machine, by induction over accepted blocks (user send, user "
          "receive, contract receive with observed outcome): receive markers pairwise distinct (no account receives a "
          "send twice; a second attempt is refused with exactly alreadyReceived / notNext in every later state); above "
          "the receiver-enforcement height every marker belongs to the send's addressee and every send hash has at most "
          "one marker on the whole ledger; for every embedded contract the received hashes in acceptance order are a "
          "prefix (= take front) of the confirmed sends addressed to it in confirmation order. Negative witness: below "
          "the gate one send gets two markers. The model is the one replayed against every accepted block of generated "
          "histories on a real node (ledger stream); model-free monitors scan send-hash -> receiving blocks and the FIFO "
          "order on the real stores.",
  "design_ref": "§3 C04",
  "note": "Theorems are about the current chain of one node (T1-T4, N1); reorg/pool-replacement/restart stability (T5) is "
          "exercised by the stream only. Hash freshness is a hypothesis of reachability. Below "
          "ReceiverMismatchEnforcementHeight T2/T3 are false of the code (known finding F8).",
  "technique": "Lean 4 invariant proof (induction over reachable states) + differential replay of accepted blocks + at-most-once/FIFO monitors",
 },
 "C09": {
  "text": "Kernel-checked on the ledger model with contract methods as parameters: every accepted contract receive has "
          "status applied or refunded, a refund emits exactly the sent amount back to the sender (nothing for amount 0), "
          "leaves token storage and the contract's balance unchanged; in both cases the contract's balance moves by "
          "+amount (+mint -burn for the token contract) - sum of descendants with no truncation; afterwards the inbox has "
          "advanced by exactly one (the received send is marked, the next queued send is next in line); for a non-token "
          "contract the refund of whatever is next in line is always accepted (it cannot fail for lack of funds), so no "
          "accepted call can wedge the inbox at the VM-skeleton level; the token contract (methods modelled) always has an "
          "accepted outcome when the zero token standard has no storage entry. Tied to the code by the ledger stream "
          "(every embedded method with generated ABI arguments; exact-refund monitor).",
  "design_ref": "§3 C09",
  "note": "Panic-freedom/termination of the Go methods and ABI decoder (T3-T5) is correspondence only in this round. The "
          "model's applySend omits the destination contract's method lookup: in Go a refund to an embedded sender (empty "
          "call data) is refused, so the refund-always-possible theorem transfers to the code for non-embedded senders only.",
  "technique": "Lean 4 proof over the ledger state machine + differential replay of accepted blocks + exact-refund monitor",
 },
 "C07": {
  "text": "Kernel-checked refinement: the rollback overlay that Get(X) folds from the stored undo patches, laid over the "
          "frontier, equals the store as of X for every key and every sequence of later commits (view_reconstructs), the "
          "byte-level tombstone/marker encoding refines the logical level (hist_get_refines, overlay_refines, apply_refines). "
          "The hand-written model of ldbManager and the view tree is tied to the code by the vdb stream (every read of every "
          "operation sequence compared) and a shadow-map monitor that states the property directly.",
  "design_ref": "§3 C07",
  "note": "Sequential model; caches not modelled (cache-free Get) — cached real code compared by correspondence; "
          "goleveldb snapshots trusted; scans of historical views drop empty-valued keys (known finding F3b).",
  "technique": "Lean 4 refinement proof (induction over commits) + differential correspondence on op sequences",
 },
 "C06": {
  "text": "Kernel-checked: the undo patch recorded at commit restores the previous state for every key (rollback_exact), "
          "popping a whole branch returns to the fork point and committing the other branch ends in the state of a node "
          "that only saw that branch (branch_switch); tied to ldbManager by the pop-heavy vdb stream with views opened "
          "before the switch and re-read after it.",
  "design_ref": "§3 C06",
  "note": "State-level theorems; pool and consensus-statistics clauses are correspondence only.",
  "technique": "Lean 4 proof (induction) + differential correspondence on op sequences",
 },
 "C12": {
  "text": "Kernel-checked theorems over the Go-faithful model of getTargetByDifficulty / greaterDifficulty / "
          "DifficultyToPlasma / FussedAmountToPlasma: threshold = 2^64 - 2^64/d for every 2 <= d < 2^64, comparison = "
          "little-endian >=, plasma maps capped/monotone/paid-for; model tied to the tree by regenerated constants and "
          "a differential stream over the full uint64 range.",
  "design_ref": "§3 C12",
  "note": "SHA3 is a parameter; the model is hand-written and tied by correspondence (boundary + random inputs); "
          "enoughPlasma over ledger states is covered by correspondence only.",
  "technique": "Lean 4 proof (omega/induction) + regenerated constants + differential correspondence",
 },
 "C18": {
  "text": "Kernel-checked theorems that GetRange is the statement's slice for all (index,count,len), pages tile the "
          "list and each element lies on exactly one page; model tied by a differential stream over the full uint32 range.",
  "design_ref": "§3 C18",
  "note": "JSON-RPC server survival and embedded getters are not theorems (runtime / correspondence).",
  "technique": "Lean 4 proof (omega) + differential correspondence",
 },
}
