#!/usr/bin/env python3
"""seedpipe.py <Cxx> [check ids...] — confirm every seeded change delivered in /tmp/seed/<Cxx>.out/<k>/, run the named
checks (default: the property's own) against it through lib/seedtest.sh, and keep it under /verif/seeded/<Cxx>-<k>/
with a meta.json that records what was run and which check caught it."""
import json, os, re, shutil, subprocess, sys
ROOT = os.path.dirname(os.path.dirname(os.path.abspath(__file__)))
prop = sys.argv[1]
checks = sys.argv[2:] or [prop]
src = os.environ.get("SEED_SRC", "/tmp/seed/%s.out" % prop)  # SEED_SRC=/tmp/seed2/Cxx.out SEED_TAG=r2- for a second round
for k in sorted(os.listdir(src)):
    if os.environ.get("SEED_ONLY") and k not in os.environ["SEED_ONLY"].split(","):
        continue
    d = os.path.join(src, k)
    if not (os.path.isdir(d) and os.path.exists(os.path.join(d, "patch.diff"))):
        continue
    name = "%s-%s%s" % (prop, os.environ.get("SEED_TAG", ""), k)
    conf = subprocess.run([os.path.join(ROOT, "lib/seedconfirm.sh"), d], capture_output=True, text=True).stdout.strip()
    print("==", name, conf.splitlines()[0] if conf else "no output")
    if not conf.startswith("CONFIRMED"):
        continue
    out = subprocess.run([os.path.join(ROOT, "lib/seedtest.sh"), name, os.path.join(d, "patch.diff")] + checks,
                         capture_output=True, text=True).stdout
    print(out[:1500])
    results = {}
    for c in checks:
        m = re.search(r"^%s rc=(\d+) (.*)$" % c, out, re.M)
        if m:
            line = m.group(2)
            after = out[m.end():].strip().splitlines()
            what = next((l for l in after[:3] if l.startswith(("impl-violates", "model-impl", "proof-obligation", "harness", "axiom", "driver"))), "")
            results[c] = {"exit": int(m.group(1)), "verdict": "VIOLATION" if "VIOLATION" in line else "OK",
                          "no_failing_input": "no-failing-input-found" in line, "what": what[:500]}
    keep = os.path.join(ROOT, "seeded", name)
    os.makedirs(keep, exist_ok=True)
    for f in ("patch.diff", "demo_test.go"):
        if os.path.exists(os.path.join(d, f)):
            shutil.copy(os.path.join(d, f), os.path.join(keep, f))
    meta = json.load(open(os.path.join(d, "meta.json")))
    meta["breaks_property"] = prop
    meta["confirmed_by_me"] = conf + " — lib/seedconfirm.sh in a scratch worktree: go build ./... ok; demonstration passes without the patch and fails with it; tests of the touched packages pass with the patch"
    meta["checks_run"] = results
    meta["detected"] = any(r["verdict"] == "VIOLATION" for r in results.values())
    meta["detected_with_failing_input"] = any(r["verdict"] == "VIOLATION" and not r["no_failing_input"] for r in results.values())
    json.dump(meta, open(os.path.join(keep, "meta.json"), "w"), indent=1)
