#!/bin/bash
# seedconfirm.sh <out-dir-of-one-change> : confirm a seeded change in a scratch worktree of /repo:
#   builds, touched packages' tests pass, demo FAILS with the patch and PASSES without it.
# prints CONFIRMED or NOT-CONFIRMED:<why>
set -u
d=$1
w=/tmp/vt/confirm.$$
rm -rf $w; git -C /repo worktree add -q --detach $w HEAD || { echo "NOT-CONFIRMED:worktree"; exit 1; }
cleanup() { git -C /repo worktree remove --force $w >/dev/null 2>&1; }
trap cleanup EXIT
dir=$(python3 - "$d" <<'PY'
import re,sys,json,os
d=sys.argv[1]
src=open(os.path.join(d,'demo_test.go')).read()
m=re.search(r'[Bb]elongs in(?: the)?(?: directory| package)?:?\s*`?\.?/?([A-Za-z0-9_.-]+(?:/[A-Za-z0-9_.-]+)*)', src)
if m and os.path.isdir(os.path.join('/repo', m.group(1).rstrip('/'))): print(m.group(1).rstrip('/'))
else:
    m=re.search(r'go test[^\n]*?\./((?:[A-Za-z0-9_.-]+/)+)', src)
    if m: print(m.group(1).rstrip('/'))
    else: print(os.path.dirname(json.load(open(os.path.join(d,'meta.json')))['files'][0]))
PY
)
run=$(grep -m1 -oE 'Test[A-Za-z0-9_]+' $d/demo_test.go | head -1)
pat=$(grep -oE '^func (Test[A-Za-z0-9_]+)' $d/demo_test.go | sed 's/func //' | paste -sd'|')
cp $d/demo_test.go $w/$dir/zz_seed_demo_test.go
# without the patch: demo passes
if ! (cd $w && go test -vet=off -count=1 -run "^($pat)\$" ./$dir/ >/tmp/vt/confirm.$$.without.log 2>&1); then echo "NOT-CONFIRMED:demo-fails-without-patch"; tail -5 /tmp/vt/confirm.$$.without.log; exit 1; fi
git -C $w apply $d/patch.diff || { echo "NOT-CONFIRMED:patch-does-not-apply"; exit 1; }
(cd $w && go build ./... ) >/tmp/vt/confirm.$$.build.log 2>&1 || { echo "NOT-CONFIRMED:build"; tail -5 /tmp/vt/confirm.$$.build.log; exit 1; }
if (cd $w && go test -vet=off -count=1 -run "^($pat)\$" ./$dir/ >/tmp/vt/confirm.$$.with.log 2>&1); then echo "NOT-CONFIRMED:demo-passes-with-patch"; exit 1; fi
# existing tests of touched packages (demo removed)
rm $w/$dir/zz_seed_demo_test.go
pk=$(git -C $w diff --name-only | xargs -n1 dirname | sort -u | sed 's#^#./#; s#$#/...#' | paste -sd' ')
if ! (cd $w && go test -vet=off -count=1 -timeout 20m $pk ${EXTRA_PKGS:-} >/tmp/vt/confirm.$$.tests.log 2>&1); then
  if grep -v "TestSimple_MomentumInsertionBenchmark" /tmp/vt/confirm.$$.tests.log | grep -q "^--- FAIL"; then echo "NOT-CONFIRMED:existing-tests-fail"; grep "^--- FAIL" /tmp/vt/confirm.$$.tests.log | head; exit 1; fi
fi
echo "CONFIRMED dir=$dir tests=[$pat] packages=[$pk]"
