#!/usr/bin/env python3
"""Regenerate MANIFEST.json from lib/props.py + lib/manifest_text.py."""
import json, os, sys
ROOT = os.path.dirname(os.path.dirname(os.path.abspath(__file__)))
sys.path.insert(0, os.path.join(ROOT, "lib"))
from props import PROPS
from manifest_text import TEXT, NOT_APPLICABLE, HOOK_COMMITS

ALL = ["C%02d" % i for i in range(1, 21)]
checks = []
for pid in ALL:
    if pid not in PROPS:
        continue
    t = TEXT[pid]
    checks.append({
        "property_id": pid,
        "quick_cmd": "./check %s --tier quick" % pid,
        "thorough_cmd": "./check %s --tier thorough" % pid,
        "evidence_file": "/verif/evidence/%s.json" % pid,
        "replay_cmd_template": "./check %s --replay {path}" % pid,
        "engine": "lean4-proof+correspondence",
        "level_claimed": {"category": PROPS[pid].get("level", "proof"), "text": t["text"], "design_ref": t["design_ref"]},
        "level_note": t["note"],
        "technique": t["technique"],
    })
na = [{"property_id": p, "reason": NOT_APPLICABLE.get(p, "check not built yet in this round; see DESIGN.md §9 build order")}
      for p in ALL if p not in PROPS]
m = {
    "version": 1,
    "setup_cmd": "./check --setup",
    "hooks": {
        "guard": "verif",
        "enable": "go build -tags verif (harness module /verif/harness with replace => /repo)",
        "baseline_off_cmd": "cd /repo && go test -vet=off -count=1 -timeout 25m ./...",
        "source_commits": HOOK_COMMITS,
        "add_only": True,
    },
    "engines": [{
        "name": "lean4-proof+correspondence",
        "path": "/verif/check",
        "serves_properties": [c["property_id"] for c in checks],
        "kind_free_text": "Lean 4 theorems over hand-written executable models (lean/ZenonVerif), regenerated facts "
                          "(zvh facts -> lean/ZenonVerif/Gen), Go correspondence harness (harness/cmd/zvh, -tags verif) "
                          "feeding the compiled Lean driver (zvdriver) over a line protocol, model-free monitors for the "
                          "failing-input search",
    }],
    "checks": checks,
    "not_applicable": na,
    "notes": "Every check rebuilds the harness from /repo's working tree, regenerates Gen/*.lean, re-checks the theorems "
             "with lake, audits axioms, then runs the correspondence. See DESIGN.md.",
}
json.dump(m, open(os.path.join(ROOT, "MANIFEST.json"), "w"), indent=1)
print("MANIFEST.json:", len(checks), "checks,", len(na), "not_applicable")
