module zvharness

go 1.23

require (
	github.com/ethereum/go-ethereum v1.10.22
	github.com/gorilla/websocket v1.5.0
	github.com/inconshreveable/log15 v0.0.0-20201112154412-8562bdadbbac
	github.com/syndtr/goleveldb v1.0.1-0.20210819022825-2ae1ddf74ef7
	github.com/tyler-smith/go-bip39 v1.1.0
	github.com/zenon-network/go-zenon v0.0.0
	golang.org/x/crypto v0.1.0
	google.golang.org/protobuf v1.27.1
)

require (
	github.com/btcsuite/btcd/btcutil v1.1.3 // indirect
	github.com/deckarep/golang-set v1.8.0 // indirect
	github.com/go-stack/stack v1.8.1 // indirect
	github.com/golang-collections/collections v0.0.0-20130729185459-604e922904d3 // indirect
	github.com/golang/snappy v0.0.4 // indirect
	github.com/hashicorp/golang-lru v0.5.5-0.20210104140557-80c98217689d // indirect
	github.com/huin/goupnp v1.0.3 // indirect
	github.com/jackpal/go-nat-pmp v1.0.2 // indirect
	github.com/mattn/go-colorable v0.1.12 // indirect
	github.com/mattn/go-isatty v0.0.14 // indirect
	github.com/pkg/errors v0.9.1 // indirect
	github.com/prometheus/tsdb v0.10.0 // indirect
	github.com/rs/cors v1.8.2 // indirect
	github.com/shirou/gopsutil v3.21.11+incompatible // indirect
	github.com/tklauser/go-sysconf v0.3.10 // indirect
	github.com/tklauser/numcpus v0.4.0 // indirect
	golang.org/x/sync v0.0.0-20210220032951-036812b2e83c // indirect
	golang.org/x/sys v0.1.0 // indirect
	gopkg.in/karalabe/cookiejar.v2 v2.0.0-20150724131613-8dcd6a7f4951 // indirect
	gopkg.in/natefinch/lumberjack.v2 v2.0.0 // indirect
)

replace github.com/zenon-network/go-zenon => /repo
