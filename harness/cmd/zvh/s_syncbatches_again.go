package main

// sync-batches (C16), "verification verdicts must not be remembered across deliveries".
//
// C16: "… whose every momentum and account block passes full verification in order. The node never ends up holding a momentum or
// account block that failed verification". What is verified is the DELIVERED element: hash-covered fields AND the fields the hash does
// not cover (signature, public key). Two deliveries may carry the same hash with different uncovered fields, so a verdict reached on
// one delivery says nothing about the next one. The directed part below presents every kind of element the node verifies AGAIN —
// same hash, one verification-relevant field the hash does not cover damaged — after the node
//
//	(a) verified the honest original and still HOLDS it            (skipped as known: allowed; the node keeps its own copy),
//	(b) verified it and LOST it in a reorganisation                (flip-flop P -> Q -> P', P' strictly longer, inside the window),
//	(c) verified it in a batch that FAILED at a later element       (then lost it as in (b); the blocks of the failing element itself
//	                                                               were verified and pooled and are dropped by the rollback),
//	(d) REFUSED it before                                           (the same damaged variant again, another variant, then the honest
//	                                                               copy: re-delivery of honest data after a bad variant must succeed),
//
// each time inside a delivery that would otherwise be adopted. Variants: momentum Signature garbage / one bit / truncated / absent /
// the signature of ANOTHER momentum by the same pillar / PublicKey of another pillar with and without that pillar's valid signature;
// account blocks: Signature flipped / truncated / absent, PublicKey foreign with and without the foreign key's valid signature,
// a contract receive carrying a key / a signature / a pillar's valid signature. (Nonce and Difficulty of a PoW block are covered by
// the block hash: a variant under the SAME hash does not exist; M7 still checks the nonce of every held block.)
//
// Expectation (model-free): InsertChain refuses at the damaged element's index (class=remembered-verdict otherwise) and
// M7 `heldVerifies`: after EVERY delivery of the stream every momentum and account block the node now holds above the point where its
// chain changed verifies under the harness's own, independent verification: SHA3 of the harness's own pre-image = stored hash,
// ed25519.Verify(stored key, that hash, stored signature), a user block's key owns its address, a contract block carries neither
// key nor signature, a claimed PoW difficulty is met by the stored nonce (harness's SHA3 arithmetic, powmine.go) and — in this
// directed part, from the fork point — the momentum's key owns the address a COLD consensus instance elects for its slot.
// The model lines stay what they are: a damaged element is `valid = 0` at its index of the sync-insert / nr-deliver line (the
// models have no memory of verdicts: Props/C16Redelivery.lean).

import (
	"bytes"
	"crypto/ed25519"
	"fmt"
	"time"

	"golang.org/x/crypto/sha3"

	g "github.com/zenon-network/go-zenon/chain/genesis/mock"
	"github.com/zenon-network/go-zenon/chain/nom"
	"github.com/zenon-network/go-zenon/common/db"
	"github.com/zenon-network/go-zenon/common/types"
	"github.com/zenon-network/go-zenon/consensus"
)

// ---- M7: independent verification of what the node holds -------------------------------------------------

// ownAddress: user address of a public key = 0x00 ‖ first 19 bytes of SHA3-256(key) (computed here, not by package types)
func ownAddress(pub []byte) (a types.Address) {
	h := sha3.Sum256(pub)
	a[0] = 0
	copy(a[1:], h[:types.AddressSize-1])
	return a
}

func ownSigOK(pub, msg, sig []byte) bool {
	return len(pub) == ed25519.PublicKeySize && len(sig) == ed25519.SignatureSize && ed25519.Verify(ed25519.PublicKey(pub), msg, sig)
}

// heldVerifies: every momentum above height `fromH` of the follower's chain, and every account block it confirms, as STORED by the
// node, passes the harness's own verification. elect: also ask a cold consensus instance (empty cache, the node's own chain) which
// pillar owns the slot of the momentum's timestamp.
func (r *syncRun) heldVerifies(f *syncFollower, fromH int, elect bool, desc string) (ok bool) {
	c := r.c
	ok = true
	bad := func(format string, a ...interface{}) {
		ok = false
		c.Fail("C16 class=holds-element-that-fails-verification follower %d: "+format+"; previous deliveries to this node: %s; %s",
			append(append([]interface{}{f.id}, a...), f.recent(), desc)...)
	}
	if p := safely(func() {
		st := f.ch.GetFrontierMomentumStore()
		fr, err := st.GetFrontierMomentum()
		if err != nil {
			return
		}
		var cold consensus.Consensus
		if elect {
			cold = consensus.NewConsensus(db.NewMemDB(), f.ch, true)
		}
		if fromH < 1 {
			fromH = 1 // the genesis momentum is not delivered
		}
		for h := uint64(fromH) + 1; h <= fr.Height && ok; h++ {
			m, err := st.GetMomentumByHeight(h)
			if err != nil || m == nil {
				bad("cannot read its own momentum at height %d (%v)", h, err)
				return
			}
			c.Hit("m7-momentums-checked")
			own := sha3.Sum256(momentumPreimage(m))
			if !bytes.Equal(own[:], m.Hash[:]) {
				bad("the stored momentum at height %d has hash %s, its fields hash to %x", h, h8e(m.Hash), own[:8])
				return
			}
			if !ownSigOK(m.PublicKey, own[:], m.Signature) {
				bad("the stored momentum %d:%s carries a signature (%d bytes) that does not verify over its hash under its public key (%d bytes)",
					h, h8e(m.Hash), len(m.Signature), len(m.PublicKey))
				return
			}
			if elect {
				exp, err := cold.GetMomentumProducer(time.Unix(int64(m.TimestampUnix), 0))
				if err != nil || exp == nil || *exp != ownAddress(m.PublicKey) {
					bad("the stored momentum %d:%s is signed by the key of %s, a cold consensus instance elects %v (err %v) for its slot",
						h, h8e(m.Hash), addrName(ownAddress(m.PublicKey)), exp, err)
					return
				}
				c.Hit("m7-elections-checked")
			}
			for _, hd := range m.Content {
				b, err := st.GetAccountBlock(*hd)
				if err != nil || b == nil {
					bad("momentum %d:%s lists block %s#%d:%s which the node cannot serve (%v)", h, h8e(m.Hash), addrName(hd.Address), hd.Height, h8e(hd.Hash), err)
					return
				}
				c.Hit("m7-blocks-checked")
				bh := sha3.Sum256(abPreimage(b))
				if !bytes.Equal(bh[:], b.Hash[:]) || b.Hash != hd.Hash || b.Address != hd.Address || b.Height != hd.Height {
					bad("the stored block %s#%d:%s of momentum %d does not hash to the header the momentum lists (%s#%d:%s, fields hash to %x)",
						addrName(b.Address), b.Height, h8e(b.Hash), h, addrName(hd.Address), hd.Height, h8e(hd.Hash), bh[:8])
					return
				}
				if types.IsEmbeddedAddress(b.Address) {
					if len(b.PublicKey) != 0 || len(b.Signature) != 0 {
						bad("the stored contract block %s#%d:%s of momentum %d carries a public key (%d bytes) / signature (%d bytes)",
							addrName(b.Address), b.Height, h8e(b.Hash), h, len(b.PublicKey), len(b.Signature))
						return
					}
				} else {
					if !ownSigOK(b.PublicKey, bh[:], b.Signature) {
						bad("the stored block %s#%d:%s of momentum %d carries a signature (%d bytes) that does not verify over its hash under its public key (%d bytes)",
							addrName(b.Address), b.Height, h8e(b.Hash), h, len(b.Signature), len(b.PublicKey))
						return
					}
					if ownAddress(b.PublicKey) != b.Address {
						bad("the stored block %s#%d:%s of momentum %d is signed by a key that does not own its address", addrName(b.Address), b.Height, h8e(b.Hash), h)
						return
					}
				}
				if b.Difficulty > 0 {
					c.Hit("m7-pow-checked")
					if !powMeets(powH8(powDataHash(b.Address, b.PreviousHash), b.Nonce.Data), b.Difficulty) {
						bad("the stored block %s#%d:%s of momentum %d claims difficulty %d, its nonce does not meet it", addrName(b.Address), b.Height, h8e(b.Hash), h, b.Difficulty)
						return
					}
				}
			}
		}
	}); p != "" {
		bad("reading the node's chain panics: %s", firstLine(p))
	}
	return ok
}

// ---- variants: one uncovered, verification-relevant field damaged under the unchanged hash ---------------

type againVariant struct {
	name  string // momentum level: the note of the element (its part in front of '@' is one of nrCleanNotes); block level: an abMutations name
	block bool
	apply func(r *syncRun, e *elem) bool // momentum level; false: not applicable to this element
}

func (r *syncRun) otherSignatureBySamePillar(m *nom.Momentum) []byte {
	for _, p := range r.hist.paths {
		for _, hh := range p[1:] {
			if hh == m.Hash {
				continue
			}
			o, err := nom.DeserializeMomentum(r.hist.byHash[hh].mom)
			if err == nil && bytes.Equal(o.PublicKey, m.PublicKey) && !bytes.Equal(o.Signature, m.Signature) {
				return append([]byte{}, o.Signature...)
			}
		}
	}
	return nil
}

func otherPillarKey(m *nom.Momentum) (pub []byte, sign func([]byte) []byte) {
	for _, k := range g.PillarKeys {
		if !bytes.Equal(k.Public, m.PublicKey) {
			return append([]byte{}, k.Public...), k.Sign
		}
	}
	return nil, nil
}

var againVariants = []againVariant{
	{name: "sig@garbage", apply: func(r *syncRun, e *elem) bool {
		s := make([]byte, 64)
		r.c.R.Read(s)
		e.dm.Momentum.Signature = s
		return true
	}},
	{name: "sig@one-bit", apply: func(r *syncRun, e *elem) bool {
		e.dm.Momentum.Signature = flipRandBit(r.c, e.dm.Momentum.Signature)
		return true
	}},
	{name: "sig@truncated", apply: func(r *syncRun, e *elem) bool {
		m := e.dm.Momentum
		m.Signature = append([]byte{}, m.Signature[:len(m.Signature)-1]...)
		return true
	}},
	{name: "sig@of-another-momentum-by-the-same-pillar", apply: func(r *syncRun, e *elem) bool {
		s := r.otherSignatureBySamePillar(e.dm.Momentum)
		if s == nil {
			return false
		}
		e.dm.Momentum.Signature = s
		return true
	}},
	{name: "producer@other-pillar-with-its-valid-signature", apply: func(r *syncRun, e *elem) bool {
		m := e.dm.Momentum
		pub, sign := otherPillarKey(m)
		m.PublicKey = pub
		m.Signature = sign(m.Hash.Bytes())
		return true
	}},
	{name: "producer@other-pillar-key-only", apply: func(r *syncRun, e *elem) bool {
		m := e.dm.Momentum
		m.PublicKey, _ = otherPillarKey(m)
		return true
	}},
	{name: "user-signature-flipped", block: true},
	{name: "user-signature-truncated", block: true},
	{name: "user-signature-absent", block: true},
	{name: "user-signed-by-foreign-key", block: true},
	{name: "user-pubkey-foreign", block: true},
	{name: "cr-signed-by-pillar", block: true},
	{name: "cr-signature", block: true},
	{name: "cr-pubkey", block: true},
}

// damage applies the variant to the element (a fresh copy of the producer's momentum); false: the element has nothing the variant
// applies to.
func (v *againVariant) damage(r *syncRun, e *elem) bool {
	if v.block {
		// always the FIRST block of the momentum the mutation applies to: "the same variant again" must damage the same block (the
		// blocks in front of it are verified and pooled by the delivery that is refused at it)
		return corruptAB(r.c, e, abMutByName(v.name), 0)
	}
	if !v.apply(r, e) {
		return false
	}
	e.valid = false
	e.note = v.name
	r.c.Hit("corrupt-again-" + v.name)
	return true
}

func (v *againVariant) applicable(r *syncRun, mh types.Hash) bool {
	if !v.block {
		return true
	}
	return len(abApplicable(abMutByName(v.name), r.hist.dm(mh))) > 0
}

// ---- the directed part -----------------------------------------------------------------------------------

type againCfg struct {
	pi, qi int // history paths: P is the branch whose elements are presented again, Q the competitor
	fork   int // height of the last momentum P and Q share
}

func (r *syncRun) directedAgain() {
	c, hist := r.c, r.hist
	const reach = 4 // the damaged element lies at most this far above the fork point
	var cfgs []againCfg
	for br := 1; br < len(hist.paths); br++ {
		fork := int(hist.forkAt[br])
		// room for: `reach` lost elements, one adopted while held, the longer competitor, the still longer return, a fresh tail
		if fork < 2 || len(hist.paths[br])-fork < reach+6 || len(hist.paths[0])-fork < reach+6 {
			continue
		}
		cfgs = append(cfgs, againCfg{0, br, fork}, againCfg{br, 0, fork})
	}
	if len(cfgs) == 0 {
		c.Hit("again-no-configuration")
		return
	}
	vs := make([]*againVariant, len(againVariants))
	for i := range againVariants {
		vs[i] = &againVariants[i]
	}
	c.R.Shuffle(len(vs), func(i, j int) { vs[i], vs[j] = vs[j], vs[i] })
	for vi, v := range vs {
		// a configuration and a target offset t (element P[fork+1+t]) the variant applies to
		found := false
		var cfg againCfg
		t := 0
		off := c.R.Intn(len(cfgs))
		for k := 0; k < len(cfgs) && !found; k++ {
			cfg = cfgs[(off+k)%len(cfgs)]
			t0 := c.R.Intn(reach)
			for j := 0; j < reach && !found; j++ {
				t = (t0 + j) % reach
				found = v.applicable(r, hist.paths[cfg.pi][cfg.fork+t])
			}
		}
		if !found {
			c.Hit("again-no-target-" + v.name)
			continue
		}
		// the "other variant" of step (d) is a momentum-level one: after a refusal at the momentum's own checks the node pools the
		// momentum's (verified) account blocks and, rightly, no longer looks at delivered copies of them
		v2 := v
		for k := 1; k <= len(vs); k++ {
			if w := vs[(vi+k)%len(vs)]; !w.block {
				v2 = w
				break
			}
		}
		r.againScenario(v, v2, cfg, t, vi%2 == 1)
	}
}

// againScenario: one follower, one element P[fork+1+t], the histories (a)-(d) in a row. failing: the node's first contact with P's
// elements above the fork point is a batch that FAILS (c).
func (r *syncRun) againScenario(v, v2 *againVariant, cfg againCfg, t int, failing bool) {
	c, hist := r.c, r.hist
	P, Q, fork := hist.paths[cfg.pi], hist.paths[cfg.qi], cfg.fork
	target := P[fork+t] // height fork+1+t
	f := r.newFollower()
	defer f.stop()
	if !r.syncTo(f, cfg.pi, fork) {
		return
	}
	c.Hit("again-scenarios")
	height := func() int { return len(f.hashes()) }
	onP := func() bool { hs := f.hashes(); return len(hs) <= len(P) && isPrefix(hs, P) }
	// mk: P[fork+1 .. toH] with the target damaged by variant w (nil: the honest batch)
	mk := func(toH int, w *againVariant) []elem {
		b := r.seg(P, fork+1, toH)
		if w != nil && !w.damage(r, &b[t]) {
			return nil
		}
		if w != nil && w.block && height() == fork+t {
			// the target extends the node's frontier (no rollback in this call): a block of it that the node POOLS — verified in an
			// earlier, refused delivery — is skipped by InsertChain, the momentum is built from the node's own copy. A damaged copy of
			// such a block is not something the node verifies (cf. corrupt-ignored-pooled-block): not a case of this part.
			for _, blk := range b[t].dm.AccountBlocks {
				genuine, known := hist.blk[blk.Hash]
				if bb, err := blk.Serialize(); err == nil && known && bytes.Equal(bb, genuine) {
					continue
				}
				pooled := false
				safely(func() { pooled = f.ch.GetPatch(blk.Address, blk.Identifier()) != nil })
				if pooled {
					c.Hit("again-skipped-variant-of-pooled-block")
					return nil
				}
			}
		}
		return b
	}
	// expectRefusedAt: the delivery just made must have been refused at the target's index, with the node on P below the target
	expectRefusedAt := func(what string, w *againVariant) bool {
		if f.lastClass == "verify" && f.lastIdx == t && onP() && height() <= fork+t {
			c.Hit("again-refused-" + what)
			return true
		}
		c.Fail("C16 class=remembered-verdict follower %d, %s: the momentum %d:%s of the delivered chain is a variant of the producer's momentum with the same hash and a damaged "+
			"%s; it fails verification, InsertChain must refuse the batch at index %d and hold nothing of it from there on — it returned (%d, %s), the node's chain has height %d; "+
			"fork point %d, previous deliveries to this node: %s", f.id, what, fork+1+t, h8e(target), w.name, t, f.lastIdx, f.lastClass, height(), fork, f.recent())
		return false
	}

	// ---- first contact with P above the fork point: d elements are verified and adopted
	d := t + 1 + c.R.Intn(2)
	if failing {
		// (c) the batch fails at its LAST element (a never-seen momentum with a garbage signature, its account blocks verify and are
		// pooled); d may equal t: then the target is that failing element, whose blocks the node verified in the failed delivery
		if t >= 1 && v.block && c.R.Intn(2) == 0 {
			d = t
		}
		b := r.seg(P, fork+1, fork+d+1)
		corrupt(c, hist, &b[d], "sig")
		c.Hit("again-first-contact-failing-batch")
		if !r.deliver(f, "again-first-failing", b) || f.lastClass != "verify" || f.lastIdx != d {
			return
		}
	} else if !r.deliver(f, "again-first", r.seg(P, fork+1, fork+d)) {
		return
	}
	if height() != fork+d {
		c.Hit("again-first-contact-unexpected-height")
		return
	}

	// ---- (a) the variant of an element the node HOLDS, in front of one new honest element: skipped as known, the extension adopted
	if t < d {
		if b := mk(fork+d+1, v); b != nil {
			c.Hit("again-held")
			if !r.deliver(f, "again-held-"+nrBaseNote(b[t].note), b) {
				return
			}
			if !f.lastOK || height() != fork+d+1 {
				c.Fail("C16 class=known-variant-not-skipped follower %d holds the momentums %d..%d of the delivered chain (the copy of %d:%s in the batch has a damaged %s, "+
					"the node does not look at copies of momentums it holds) and the batch extends its frontier by one honest momentum: InsertChain returned (%d, %s), height %d",
					f.id, fork+1, fork+d, fork+1+t, h8e(target), v.name, f.lastIdx, f.lastClass, height())
				return
			}
		}
	}
	hp := height() - fork

	// ---- the longer honest competitor Q rolls P's elements back
	if !r.deliver(f, "again-switch", r.seg(Q, fork+1, fork+hp+1)) {
		return
	}
	if !f.lastOK || height() != fork+hp+1 || f.hashes()[fork+hp] != Q[fork+hp] {
		c.Hit("again-switch-not-adopted")
		return
	}
	c.Hit("again-switched")

	// ---- (b)/(c) P again, strictly longer, the target damaged: verified before, lost in the reorganisation
	toH := fork + hp + 2
	b := mk(toH, v)
	if b == nil {
		return
	}
	what := "verified-then-lost-in-a-reorganisation"
	if failing && t >= d {
		what = "blocks-verified-in-a-failed-batch-then-dropped"
	} else if failing {
		what = "verified-in-a-failed-batch-then-lost"
	}
	if !r.deliver(f, "again-lost-"+nrBaseNote(b[t].note), b) || !expectRefusedAt(what, v) {
		return
	}
	// ---- (d) refused before: the same variant once more, then another variant of the same element
	if b = mk(toH, v); b != nil {
		if !r.deliver(f, "again-refused-same-"+nrBaseNote(b[t].note), b) || !expectRefusedAt("refused-before-same-variant", v) {
			return
		}
	}
	if v2.applicable(r, target) {
		if b = mk(toH, v2); b != nil {
			if !r.deliver(f, "again-refused-other-"+nrBaseNote(b[t].note), b) || !expectRefusedAt("refused-before-other-variant", v2) {
				return
			}
		}
	}
	// ---- the honest copy after the bad variants: must be adopted (a node must not remember "bad" under a hash either)
	if !r.deliver(f, "again-honest-after-variants", mk(toH, nil)) {
		return
	}
	if !f.lastOK || height() != toH || !onP() {
		c.Fail("C16 class=honest-copy-refused-after-bad-variant follower %d refused variants of momentum %d:%s with a damaged %s; the honest chain (heights %d..%d, strictly "+
			"longer than the node's, fork point %d) delivered afterwards was not adopted: InsertChain returned (%d, %s), height %d; previous deliveries: %s",
			f.id, fork+1+t, h8e(target), v.name, fork+1, toH, fork, f.lastIdx, f.lastClass, height(), f.recent())
		return
	}
	c.Hit("again-honest-adopted-after-variants")

	// ---- (d) on a plain extension: a never-seen element refused, the same variant again, the honest copy
	if toH+2 <= len(P) && c.R.Intn(2) == 0 {
		ext := func(w *againVariant) []elem {
			b := r.seg(P, toH+1, toH+2)
			for i := range b {
				if w == nil {
					return b
				}
				if w.applicable(r, b[i].dm.Momentum.Hash) && w.damage(r, &b[i]) {
					return b
				}
			}
			return nil
		}
		for k := 0; k < 2; k++ {
			if b := ext(v); b != nil {
				if !r.deliver(f, "again-ext-"+nrBaseNote(b[0].note+b[1].note), b) {
					return
				}
				if f.lastOK || height() >= toH+2 {
					return // M3 has reported it
				}
				c.Hit("again-ext-refused")
			}
		}
		if !r.deliver(f, "again-ext-honest", ext(nil)) {
			return
		}
		if !f.lastOK || height() != toH+2 {
			c.Fail("C16 class=honest-copy-refused-after-bad-variant follower %d: the honest extension %d..%d was not adopted after its variant with a damaged %s had been refused: (%d, %s)",
				f.id, toH+1, toH+2, v.name, f.lastIdx, f.lastClass)
			return
		}
	}
	// M7 with the election, from the fork point; now and then the whole chain on a fresh node
	if !r.heldVerifies(f, fork, true, fmt.Sprintf("directed scenario %s on follower %d", v.name, f.id)) {
		return
	}
	if c.R.Intn(3) == 0 {
		r.reverify(f)
	}
}
