package main

// Stream `p2p-hs` (C15): HANDSHAKE-LEVEL hostile inputs, in both directions, against the node in a CHILD process.
//
// Everything the other C15 streams send travels either in front of the outermost check of a handshake (a flipped bit of a valid
// ciphertext stops at the ECIES tag, a corrupted datagram at its hash) or behind a COMPLETED handshake. A remote peer, however,
// holds keys of its own: it can wrap any plaintext in a correct ECIES envelope addressed to the node, it can be the side that is
// DIALLED (the node dials whatever its configuration and the discovery hand it) and answer the node's own messages, and it can
// answer the node's discovery requests (ping, findnode) with correctly hashed and signed, unexpired replies of any body. The
// code behind those checks — decodeAuthMsg / decodeAuthResp / secrets / ecdhShared in p2p/rlpx.go, the pending-reply callbacks
// of udp.ping / udp.findnode inside udp.loop — runs on goroutines without a recover (Server.listenLoop / dialTask.Do ->
// setupConn; udp.loop; Table.bond), so one unchecked value there ends the process.
//
//	part rlpx, responder side  we dial the node: auth messages whose every plaintext field family is hostile behind a correct
//	                           envelope (static key off the curve in every way, signature unrecoverable / recovering to another
//	                           key, ephemeral-key hash, nonce, token flag), hostile envelopes (ephemeral key of the ECIES layer
//	                           off the curve / compressed / other prefix bytes, flipped bits, garbage), truncated (closed and
//	                           half-open), trailing bytes, EIP-8-style sizes, replayed auth messages;
//	part rlpx, dialled side    the node dials us (a static node added through Server.AddPeer, the path of the configured
//	                           seeders; one fresh identity per case): auth responses whose ephemeral-key field is hostile in the
//	                           same ways, nonce, flag, hostile envelopes, wrong lengths, garbage, replays; then an honest
//	                           encryption handshake followed by a hostile protocol handshake (the `pre` cases of p2p-net part A);
//	part disc                  solicited discovery replies with hostile bodies against live ListenUDP nodes: the full bonding
//	                           exchange (stranger pings, the node pongs and pings back, the stranger answers with a signed,
//	                           unexpired pong whose ReplyTok has 0..40 / 64 / 255 / 1000 bytes, other tokens, hostile endpoints,
//	                           expirations, field counts) and findnode (Table.Lookup, what the dialer's discoverTask runs, asks a
//	                           bonded hostile peer, which answers with neighbors of 0..36 nodes, off-curve / own / foreign ids,
//	                           IPs of every odd length, multicast / unspecified / broadcast addresses, port 0, expirations,
//	                           unsolicited and repeated packets).
//
// Monitors (model-free, the sentence of C15): the process survives (a death is class=process-terminated with the panic, the
// node's frames and the last inputs); after every case an honest peer that stays connected is still served, newcomers are
// accepted, the node still dials and completes the handshakes with an honest responder, half-open connections are closed by the
// node's handshake time-out, the discovery node still answers an honest ping and a bonded honest peer's findnode, a Lookup
// returns; a reply that is expired or not of the packet's shape must not complete a bond.

import (
	"bufio"
	"bytes"
	"crypto/ecdsa"
	crand "crypto/rand"
	"encoding/binary"
	"fmt"
	"io"
	"math/big"
	"math/rand"
	"net"
	"os"
	"strings"
	"sync"
	"time"

	"github.com/ethereum/go-ethereum/crypto"
	"github.com/ethereum/go-ethereum/crypto/ecies"
	"github.com/ethereum/go-ethereum/rlp"
	"golang.org/x/crypto/sha3"

	"github.com/zenon-network/go-zenon/common/types"
	"github.com/zenon-network/go-zenon/p2p"
	"github.com/zenon-network/go-zenon/p2p/discover"
	"github.com/zenon-network/go-zenon/protocol"
)

func init() {
	register("p2p-hs", func(c *Ctx) {
		runNodeChild(c, "p2p-hs", "p2p-hs-survived", -2, "p2phs-child", fmt.Sprint(c.Seed), fmt.Sprint(c.N), c.Tier, c.Args["only"], c.Args["case"])
	})
}

func p2pHsChild(seed int64, nreq int, tier, only, one string) {
	realOut := os.Stdout
	n := &netCtx{w: bufio.NewWriter(realOut), seed: seed, n: nreq, tier: tier, only: strings.ReplaceAll(only, "+", ","), scn: one}
	a := newProducer() // (redirects os.Stdout of the node code; the report goes to the descriptor kept above)
	for a.frontier().Height < 6 {
		a.momentum()
	}
	formatLogs()
	var wg sync.WaitGroup
	if n.wants("disc") {
		// the discovery part needs no chain and runs next to the rlpx part (its waits are reply time-outs of the node)
		wg.Add(1)
		go func() { defer wg.Done(); hsDisc(n) }()
	}
	if n.wants("rlpx") {
		hsRlpx(n, a)
	}
	wg.Wait()
	stopped := make(chan struct{})
	go func() { safely(a.stop); close(stopped) }()
	select {
	case <-stopped:
	case <-time.After(10 * time.Second):
	}
	n.line("CHILD-FINISHED", "")
}

// ---- key material a peer can put where a curve point is expected -------------------------------------------------------------

type keyField struct {
	label string
	b     []byte // 64 bytes: X ‖ Y
}

func be32(x *big.Int) []byte { b := make([]byte, 32); x.FillBytes(b); return b }

func onCurve64(b []byte) bool {
	if len(b) != 64 {
		return false
	}
	x, y := new(big.Int).SetBytes(b[:32]), new(big.Int).SetBytes(b[32:])
	P := crypto.S256().Params().P
	return x.Cmp(P) < 0 && y.Cmp(P) < 0 && crypto.S256().IsOnCurve(x, y)
}

// hostileKeyFields: 64-byte strings around every way of not being (or of being another) point of secp256k1. `valid` is a real
// public key (64 bytes).
func hostileKeyFields(valid []byte, r *rand.Rand) []keyField {
	P := crypto.S256().Params().P
	cat := func(x, y []byte) []byte { return append(append([]byte{}, x...), y...) }
	rep := func(v byte) []byte { return bytes.Repeat([]byte{v}, 64) }
	vx, vy := valid[:32], valid[32:]
	flip := func(pos int, bit uint) []byte { b := append([]byte{}, valid...); b[pos] ^= 1 << bit; return b }
	rnd := make([]byte, 64)
	r.Read(rnd)
	zero32 := make([]byte, 32)
	negY := be32(new(big.Int).Sub(P, new(big.Int).SetBytes(vy)))
	out := []keyField{
		{"zeros(point-at-infinity-encoding)", rep(0)},
		{"all-0x01", rep(1)},
		{"all-0xff", rep(0xff)},
		{"valid-point-lowest-bit-of-y-flipped", flip(63, 0)},
		{"valid-point-highest-bit-of-y-flipped", flip(32, 7)},
		{"valid-point-lowest-bit-of-x-flipped", flip(31, 0)},
		{"valid-point-random-bit-flipped", flip(r.Intn(64), uint(r.Intn(8)))},
		{"valid-x-zero-y", cat(vx, zero32)},
		{"zero-x-valid-y", cat(zero32, vy)},
		{"x=p,y=p", cat(be32(P), be32(P))},
		{"x=p+1,valid-y", cat(be32(new(big.Int).Add(P, big.NewInt(1))), vy)},
		{"x=p-1,y=1", cat(be32(new(big.Int).Sub(P, big.NewInt(1))), be32(big.NewInt(1)))},
		{"valid-x,y=p", cat(vx, be32(P))},
		{"x-and-y-swapped", cat(vy, vx)},
		{"random-64-bytes", rnd},
		{"generator-x-with-y+1", cat(be32(crypto.S256().Params().Gx), be32(new(big.Int).Add(crypto.S256().Params().Gy, big.NewInt(1))))},
		{"other-valid-point(-y)", cat(vx, negY)},
		{"other-valid-point(generator)", cat(be32(crypto.S256().Params().Gx), be32(crypto.S256().Params().Gy))},
	}
	return out
}

func keyFieldDesc(k keyField) string {
	oc := "NOT a point of secp256k1"
	if onCurve64(k.b) {
		oc = "a point of secp256k1"
	}
	return fmt.Sprintf("%s [%s] %x", k.label, oc, k.b)
}

// ---- the encryption handshake written out from the wire format, both sides ---------------------------------------------------

// authMat: an honest initiator's auth message in parts.
type authMat struct {
	key   *ecdsa.PrivateKey
	eph   *ecies.PrivateKey
	nonce []byte
	token []byte
	plain []byte // signature(65) ‖ keccak(ephemeral pub)(32) ‖ static pub(64) ‖ nonce(32) ‖ token flag(1)
}

const (
	authOffHash   = rlpxSigLen
	authOffStatic = rlpxSigLen + rlpxShaLen
	authOffNonce  = rlpxSigLen + rlpxShaLen + rlpxPubLen
	authOffFlag   = rlpxAuthMsgLen - 1
	encAuthLen    = rlpxAuthMsgLen + rlpxEciesBytes  // 307
	encRespLen    = rlpxAuthRespLen + rlpxEciesBytes // 210
)

func newAuthMat(node *ecdsa.PublicKey) *authMat {
	m := &authMat{nonce: make([]byte, rlpxShaLen)}
	m.key, _ = crypto.GenerateKey()
	crand.Read(m.nonce)
	m.eph, _ = ecies.GenerateKey(crand.Reader, crypto.S256(), nil)
	m.token, _ = ecies.ImportECDSA(m.key).GenerateShared(ecies.ImportECDSAPublic(node), rlpxSskLen, rlpxSskLen)
	sig, _ := crypto.Sign(xorBytes(m.token, m.nonce), m.eph.ExportECDSA())
	m.plain = make([]byte, rlpxAuthMsgLen)
	k := copy(m.plain, sig)
	k += copy(m.plain[k:], crypto.Keccak256(pub64(m.eph.PublicKey.ExportECDSA())))
	k += copy(m.plain[k:], pub64(&m.key.PublicKey))
	copy(m.plain[k:], m.nonce)
	return m
}

// sealTo: the ECIES envelope around any plaintext, addressed to pub.
func sealTo(pub *ecdsa.PublicKey, plain []byte) []byte {
	ct, err := ecies.Encrypt(crand.Reader, ecies.ImportECDSAPublic(pub), plain, nil, nil)
	if err != nil {
		panic(err)
	}
	return ct
}

func authPlainDesc(p []byte) string {
	if len(p) != rlpxAuthMsgLen {
		return fmt.Sprintf("plaintext of %d bytes %x", len(p), p)
	}
	return fmt.Sprintf("plaintext signature=%x ephemeral-key-hash=%x static-key=%x nonce=%x token-flag=%02x", p[:authOffHash],
		p[authOffHash:authOffStatic], p[authOffStatic:authOffNonce], p[authOffNonce:authOffFlag], p[authOffFlag])
}

// respMat: what a responder knows after reading the initiator's auth message.
type respMat struct {
	key        *ecdsa.PrivateKey // the identity that was dialled
	auth       []byte            // the initiator's auth message as read from the wire
	nodeStatic *ecdsa.PublicKey
	nodeEph    *ecdsa.PublicKey
	initNonce  []byte
	eph        *ecies.PrivateKey
	respNonce  []byte
	plain      []byte // honest response: ephemeral pub(64) ‖ nonce(32) ‖ flag(1)
}

func readAuth(fd net.Conn, key *ecdsa.PrivateKey) (*respMat, error) {
	m := &respMat{key: key, auth: make([]byte, encAuthLen), respNonce: make([]byte, rlpxShaLen)}
	if _, err := io.ReadFull(fd, m.auth); err != nil {
		return nil, fmt.Errorf("reading the node's auth message: %v", err)
	}
	plain, err := ecies.ImportECDSA(key).Decrypt(m.auth, nil, nil)
	if err != nil || len(plain) != rlpxAuthMsgLen {
		return nil, fmt.Errorf("the node's auth message does not decrypt: %v", err)
	}
	sx, sy := unmarshal64(plain[authOffStatic:authOffNonce])
	if sx == nil {
		return nil, fmt.Errorf("the node's auth message carries no curve point as static key")
	}
	m.nodeStatic = &ecdsa.PublicKey{Curve: crypto.S256(), X: sx, Y: sy}
	m.initNonce = append([]byte{}, plain[authOffNonce:authOffFlag]...)
	token, err := ecies.ImportECDSA(key).GenerateShared(ecies.ImportECDSAPublic(m.nodeStatic), rlpxSskLen, rlpxSskLen)
	if err != nil {
		return nil, err
	}
	eph, err := crypto.Ecrecover(xorBytes(token, m.initNonce), plain[:rlpxSigLen])
	if err != nil {
		return nil, fmt.Errorf("the node's signature does not recover: %v", err)
	}
	ex, ey := unmarshal64(eph[1:])
	if ex == nil {
		return nil, fmt.Errorf("the node's ephemeral key is no curve point")
	}
	m.nodeEph = &ecdsa.PublicKey{Curve: crypto.S256(), X: ex, Y: ey}
	m.eph, _ = ecies.GenerateKey(crand.Reader, crypto.S256(), nil)
	crand.Read(m.respNonce)
	m.plain = make([]byte, rlpxAuthRespLen)
	k := copy(m.plain, pub64(m.eph.PublicKey.ExportECDSA()))
	copy(m.plain[k:], m.respNonce)
	return m, nil
}

func unmarshal64(b []byte) (x, y *big.Int) {
	if !onCurve64(b) {
		return nil, nil
	}
	return new(big.Int).SetBytes(b[:32]), new(big.Int).SetBytes(b[32:])
}

// frames: the frame reader/writer of the responder after the honest response `resp` was written.
func (m *respMat) frames(fd net.Conn, resp []byte) (p2p.MsgReadWriter, error) {
	ecdhe, err := m.eph.GenerateShared(ecies.ImportECDSAPublic(m.nodeEph), rlpxSskLen, rlpxSskLen)
	if err != nil {
		return nil, err
	}
	shared := crypto.Keccak256(ecdhe, crypto.Keccak256(m.respNonce, m.initNonce))
	aesSecret := crypto.Keccak256(ecdhe, shared)
	macSecret := crypto.Keccak256(ecdhe, aesSecret)
	mac1 := sha3.New256()
	mac1.Write(xorBytes(macSecret, m.respNonce))
	mac1.Write(m.auth)
	mac2 := sha3.New256()
	mac2.Write(xorBytes(macSecret, m.initNonce))
	mac2.Write(resp)
	return p2p.NewFrameRWVerif(fd, aesSecret, macSecret, mac2, mac1), nil // responder: egress = mac2, ingress = mac1
}

func respPlainDesc(p []byte) string {
	if len(p) != rlpxAuthRespLen {
		return fmt.Sprintf("plaintext of %d bytes %x", len(p), p)
	}
	return fmt.Sprintf("plaintext ephemeral-key=%x nonce=%x token-flag=%02x", p[:rlpxPubLen], p[rlpxPubLen:rlpxPubLen+rlpxShaLen], p[rlpxAuthRespLen-1])
}

// ---- cases ----------------------------------------------------------------------------------------------------------------------

// hsCase is one hostile handshake message. Exactly one of plain / wire is used: plain mutates the honest plaintext and is sealed
// with a correct envelope addressed to the node; wire mutates (or replaces) the sealed bytes.
type hsCase struct {
	label string
	plain func(honest []byte) []byte
	wire  func(sealed []byte) []byte
	tail  []byte // sent right behind the message
	hold  bool   // keep the connection open and silent afterwards (the node's handshake time-out must end it)
}

func setAt(off int, v []byte) func([]byte) []byte {
	return func(h []byte) []byte { b := append([]byte{}, h...); copy(b[off:], v); return b }
}

// envelopeCases: hostile ECIES envelopes and transport-level shapes, for a sealed message of either direction.
func envelopeCases(r *rand.Rand, valid64 []byte) []hsCase {
	var out []hsCase
	for _, k := range hostileKeyFields(valid64, r) {
		k := k
		out = append(out, hsCase{label: "envelope-key-" + k.label, wire: func(s []byte) []byte {
			b := append([]byte{}, s...)
			copy(b[1:65], k.b)
			return b
		}})
	}
	for _, pfx := range []byte{0, 1, 2, 3, 5, 6, 7, 0xff} {
		pfx := pfx
		out = append(out, hsCase{label: fmt.Sprintf("envelope-key-prefix-%02x", pfx), wire: func(s []byte) []byte {
			b := append([]byte{}, s...)
			b[0] = pfx
			return b
		}})
	}
	for _, pos := range []int{0, 1, 64, 65, 80, 81, 100, -33, -32, -1} {
		pos := pos
		out = append(out, hsCase{label: fmt.Sprintf("envelope-bit-flip-at-%d", pos), wire: func(s []byte) []byte {
			b := append([]byte{}, s...)
			p := pos
			if p < 0 {
				p += len(b)
			}
			b[p] ^= 0x10
			return b
		}})
	}
	garbage := func(n int, v int) func([]byte) []byte {
		return func(s []byte) []byte {
			b := make([]byte, len(s)+n)
			if v < 0 {
				r.Read(b)
			} else {
				for i := range b {
					b[i] = byte(v)
				}
			}
			return b
		}
	}
	out = append(out,
		hsCase{label: "garbage-random", wire: garbage(0, -1)},
		hsCase{label: "garbage-zeros", wire: garbage(0, 0)},
		hsCase{label: "garbage-0xff", wire: garbage(0, 0xff)},
		hsCase{label: "garbage-0x04-prefix", wire: func(s []byte) []byte { b := garbage(0, -1)(s); b[0] = 4; return b }},
	)
	for _, cut := range []int{0, 1, 64, 65, 66, 113, -2, -1} {
		cut := cut
		out = append(out, hsCase{label: fmt.Sprintf("truncated-to-%d-then-closed", cut), wire: func(s []byte) []byte {
			c := cut
			if c < 0 {
				c += len(s) + 1
			}
			return s[:c]
		}})
	}
	out = append(out,
		hsCase{label: "trailing-1-byte", tail: []byte{0}},
		hsCase{label: "trailing-32-bytes-0xff", tail: bytes.Repeat([]byte{0xff}, 32)},
		hsCase{label: "trailing-4KiB-random", tail: func() []byte { b := make([]byte, 4096); r.Read(b); return b }()},
		hsCase{label: "sent-twice", wire: func(s []byte) []byte { return append(append([]byte{}, s...), s...) }},
		// EIP-8 style: two bytes of size in front of an envelope with padding behind the plaintext (this code base reads fixed sizes)
		hsCase{label: "eip8-style-size-prefix", wire: func(s []byte) []byte {
			b := make([]byte, 2, 2+len(s)+100)
			binary.BigEndian.PutUint16(b, uint16(len(s)+100))
			b = append(b, s...)
			pad := make([]byte, 100)
			r.Read(pad)
			return append(b, pad...)
		}},
		hsCase{label: "eip8-style-size-0", wire: func(s []byte) []byte { return append([]byte{0, 0}, s...) }},
		hsCase{label: "eip8-style-size-65535", wire: func(s []byte) []byte { return append([]byte{0xff, 0xff}, s...) }},
	)
	return out
}

func authCases(r *rand.Rand, node *ecdsa.PublicKey) []hsCase {
	var out []hsCase
	sample := newAuthMat(node)
	// the static key of the caller: every way of not being a curve point, and other points
	for i, k := range hostileKeyFields(pub64(&sample.key.PublicKey), r) {
		i, salt := i, r.Int63()
		out = append(out, hsCase{label: "auth-static-key-" + k.label, plain: func(h []byte) []byte {
			// the family member relative to THIS message's key
			b := append([]byte{}, h...)
			copy(b[authOffStatic:], hostileKeyFields(h[authOffStatic:authOffNonce], rand.New(rand.NewSource(salt)))[i].b)
			return b
		}})
	}
	// the signature: unrecoverable, out of range, recovering to another key
	N := crypto.S256().Params().N
	sig := func(rr, ss []byte, v byte) []byte { return append(append(append([]byte{}, rr...), ss...), v) }
	one := be32(big.NewInt(1))
	zero := make([]byte, 32)
	ff := bytes.Repeat([]byte{0xff}, 32)
	rnd := func() []byte { b := make([]byte, 32); r.Read(b); return b }
	for _, s := range []struct {
		label string
		b     []byte
	}{
		{"zeros", sig(zero, zero, 0)},
		{"r=0", sig(zero, one, 0)},
		{"s=0", sig(one, zero, 0)},
		{"r=1,s=1", sig(one, one, 0)},
		{"r=n", sig(be32(N), one, 0)},
		{"s=n", sig(one, be32(N), 0)},
		{"r=n-1,s=n-1,v=1", sig(be32(new(big.Int).Sub(N, big.NewInt(1))), be32(new(big.Int).Sub(N, big.NewInt(1))), 1)},
		{"all-0xff", sig(ff, ff, 0xff)},
		{"random,v=0", sig(rnd(), rnd(), 0)},
		{"random,v=1", sig(rnd(), rnd(), 1)},
		{"random,v=2", sig(rnd(), rnd(), 2)},
		{"random,v=3", sig(rnd(), rnd(), 3)},
		{"random,v=4", sig(rnd(), rnd(), 4)},
		{"random,v=27", sig(rnd(), rnd(), 27)},
		{"random,v=255", sig(rnd(), rnd(), 255)},
	} {
		out = append(out, hsCase{label: "auth-signature-" + s.label, plain: setAt(0, s.b)})
	}
	out = append(out,
		hsCase{label: "auth-signature-v-flipped", plain: func(h []byte) []byte { b := append([]byte{}, h...); b[64] ^= 1; return b }},
		hsCase{label: "auth-signature-v+2", plain: func(h []byte) []byte { b := append([]byte{}, h...); b[64] += 2; return b }},
		hsCase{label: "auth-signature-of-another-message", plain: func(h []byte) []byte {
			k, _ := crypto.GenerateKey()
			s, _ := crypto.Sign(crypto.Keccak256([]byte("other")), k)
			return setAt(0, s)(h)
		}},
		hsCase{label: "auth-ephemeral-key-hash-zeros", plain: setAt(authOffHash, zero)},
		hsCase{label: "auth-ephemeral-key-hash-random", plain: setAt(authOffHash, rnd())},
		hsCase{label: "auth-nonce-zeros", plain: setAt(authOffNonce, zero)},
		hsCase{label: "auth-nonce-0xff", plain: setAt(authOffNonce, ff)},
		hsCase{label: "auth-nonce-random", plain: setAt(authOffNonce, rnd())},
	)
	for _, f := range []byte{1, 2, 0x7f, 0x80, 0xff} {
		out = append(out, hsCase{label: fmt.Sprintf("auth-token-flag-%02x", f), plain: setAt(authOffFlag, []byte{f})})
	}
	out = append(out,
		hsCase{label: "auth-plaintext-zeros", plain: func(h []byte) []byte { return make([]byte, len(h)) }},
		hsCase{label: "auth-plaintext-0xff", plain: func(h []byte) []byte { return bytes.Repeat([]byte{0xff}, len(h)) }},
		hsCase{label: "auth-plaintext-random", plain: func(h []byte) []byte { b := make([]byte, len(h)); r.Read(b); return b }},
		hsCase{label: "auth-honest-then-silent", hold: true},
		hsCase{label: "auth-half-then-silent", hold: true, wire: func(s []byte) []byte { return s[:150] }},
		hsCase{label: "auth-nothing-then-silent", hold: true, wire: func(s []byte) []byte { return nil }},
	)
	for _, c := range envelopeCases(r, pub64(&sample.key.PublicKey)) {
		c.label = "auth-" + c.label
		out = append(out, c)
	}
	same := func(s []byte) []byte { return s }
	out = append(out,
		hsCase{label: "auth-replayed", wire: same},
		hsCase{label: "auth-replayed-with-trailing-bytes", wire: same, tail: bytes.Repeat([]byte{0x55}, 48)},
	)
	return out
}

func respCases(r *rand.Rand) []hsCase {
	var out []hsCase
	k0, _ := crypto.GenerateKey()
	for i, k := range hostileKeyFields(pub64(&k0.PublicKey), r) {
		i, salt := i, r.Int63()
		out = append(out, hsCase{label: "resp-ephemeral-key-" + k.label, plain: func(h []byte) []byte {
			// the family member relative to THIS response's ephemeral key
			b := append([]byte{}, h...)
			copy(b, hostileKeyFields(h[:rlpxPubLen], rand.New(rand.NewSource(salt)))[i].b)
			return b
		}})
	}
	zero := make([]byte, 32)
	ff := bytes.Repeat([]byte{0xff}, 32)
	out = append(out,
		hsCase{label: "resp-nonce-zeros", plain: setAt(rlpxPubLen, zero)},
		hsCase{label: "resp-nonce-0xff", plain: setAt(rlpxPubLen, ff)},
	)
	for _, f := range []byte{1, 2, 0x80, 0xff} {
		out = append(out, hsCase{label: fmt.Sprintf("resp-token-flag-%02x", f), plain: setAt(rlpxAuthRespLen-1, []byte{f})})
	}
	out = append(out,
		hsCase{label: "resp-plaintext-zeros", plain: func(h []byte) []byte { return make([]byte, len(h)) }},
		hsCase{label: "resp-plaintext-0xff", plain: func(h []byte) []byte { return bytes.Repeat([]byte{0xff}, len(h)) }},
		hsCase{label: "resp-plaintext-random", plain: func(h []byte) []byte { b := make([]byte, len(h)); r.Read(b); return b }},
		// a plaintext of another length behind a correct envelope, padded / cut on the wire to the size the node reads
		hsCase{label: "resp-plaintext-one-byte-short", plain: func(h []byte) []byte { return h[:len(h)-1] }, tail: []byte{0}},
		hsCase{label: "resp-plaintext-one-byte-long", plain: func(h []byte) []byte { return append(append([]byte{}, h...), 0) }},
		hsCase{label: "resp-plaintext-empty", plain: func(h []byte) []byte { return nil }, tail: make([]byte, rlpxAuthRespLen)},
		hsCase{label: "resp-own-auth-echoed"}, // (the runner substitutes the node's own auth bytes)
		hsCase{label: "resp-honest-then-silent", hold: true},
		hsCase{label: "resp-half-then-silent", hold: true, wire: func(s []byte) []byte { return s[:100] }},
	)
	for _, c := range envelopeCases(r, pub64(&k0.PublicKey)) {
		c.label = "resp-" + c.label
		out = append(out, c)
	}
	return out
}

// ---- part rlpx ------------------------------------------------------------------------------------------------------------------

type hsRun struct {
	n       *netCtx
	s       *netServer
	hon     *honestPeer
	height  uint64
	head    types.Hash
	genesis types.Hash
	last3   []types.Hash
	held    []heldConn
	replay  [][]byte // auth messages of earlier honest connections
}

type heldConn struct {
	fd    net.Conn
	since time.Time
	what  string
}

func hsRlpx(n *netCtx, a *producer) {
	key, err := crypto.GenerateKey()
	if err != nil {
		n.fail("C15 p2p-hs: harness cannot generate a key: %v", err)
		return
	}
	pm := protocol.NewProtocolManager(1, netNetId, a.bridge)
	// as a production node: it listens AND dials (static nodes only: no discovery here, the discovery part has its own nodes)
	srv := &p2p.Server{PrivateKey: key, MaxPeers: 64, MaxPendingPeers: 64, Name: "zvh-node-hs", ListenAddr: "127.0.0.1:0", Protocols: pm.SubProtocols}
	if err := srv.Start(); err != nil {
		n.fail("C15 p2p-hs: harness cannot start a p2p server on loopback: %v", err)
		return
	}
	pm.Start()
	s := &netServer{pm: pm, srv: srv, key: key}
	defer s.stop()
	fr := a.frontier()
	h := &hsRun{n: n, s: s, height: fr.Height, head: fr.Hash, genesis: a.z.Chain().GetGenesisMomentum().Hash}
	st := a.z.Chain().GetFrontierMomentumStore()
	for x := fr.Height - 2; x <= fr.Height; x++ {
		m, _ := st.GetMomentumByHeight(x)
		h.last3 = append(h.last3, m.Hash)
	}
	if h.hon, err = s.honest("honest", fr.Height, fr.Hash, h.genesis); err != nil {
		n.fail("C15 p2p-hs: harness cannot connect its honest peer: %v", err)
		return
	}
	defer h.hon.close()
	if why := h.hon.served(h.height, h.last3, 10*time.Second); why != "" {
		n.fail("C15 p2p-hs: before any hostile message %s", why)
		return
	}
	if why := h.dialledHonestly(); why != "" {
		n.fail("C15 p2p-hs: before any hostile message %s", why)
		return
	}
	r := n.rnd(11)
	auth, resp := authCases(r, &key.PublicKey), respCases(r)
	// the protocol handshake of the dialled direction: the handshake / disconnect families of part A of p2p-net, sent by the
	// side that was dialled in place of its hello
	var protos []baseCase
	for _, bc := range baseCases(n.rnd(12), 0) {
		if bc.pre && (strings.HasPrefix(bc.label, "handshake-") || strings.HasPrefix(bc.label, "disconnect-") && len(bc.label)%5 == int(n.seed%5)) && len(bc.pay) < 4096 {
			protos = append(protos, bc)
		}
	}
	// interleave the two directions (the key-material families come first in both lists)
	type step struct {
		dir int // 0 = we dial (auth), 1 = the node dials (auth response), 2 = the node dials, hostile protocol handshake
		hc  hsCase
		bc  baseCase
	}
	var steps []step
	for i := 0; i < len(auth) || i < len(resp) || i < len(protos); i++ {
		if i < len(resp) {
			steps = append(steps, step{dir: 1, hc: resp[i]})
		}
		if i < len(auth) {
			steps = append(steps, step{dir: 0, hc: auth[i]})
		}
		if i < len(protos) {
			steps = append(steps, step{dir: 2, bc: protos[i]})
		}
	}
	// random: a random field of a random direction overwritten with random bytes / hostile key material
	for i := 0; i < n.n; i++ {
		off, ln := r.Intn(rlpxAuthMsgLen), 1+r.Intn(64)
		fill := make([]byte, ln)
		if r.Intn(3) == 0 {
			r.Read(fill)
		} else {
			v := []byte{0, 1, 0x7f, 0x80, 0xff}[r.Intn(5)]
			for j := range fill {
				fill[j] = v
			}
		}
		dir := r.Intn(2)
		lbl := fmt.Sprintf("random-overwrite-at-%d-len-%d", off, ln)
		mut := func(hh []byte) []byte {
			b := append([]byte{}, hh...)
			if len(b) == 0 {
				return b
			}
			copy(b[off%len(b):], fill)
			return b
		}
		if dir == 0 {
			steps = append(steps, step{dir: 0, hc: hsCase{label: "auth-" + lbl, plain: mut}})
		} else {
			steps = append(steps, step{dir: 1, hc: hsCase{label: "resp-" + lbl, plain: mut}})
		}
	}
	if n.scn != "" { // debugging aid (--arg case=<part of a label>): only the matching cases
		var keep []step
		for _, sp := range steps {
			if strings.Contains(sp.hc.label, n.scn) || sp.dir == 2 && strings.Contains("resp-honest-then-"+sp.bc.label, n.scn) {
				keep = append(keep, sp)
			}
		}
		steps = keep
	}
	for i, sp := range steps {
		var what string
		switch sp.dir {
		case 0:
			what = h.authCase(sp.hc)
		case 1:
			what = h.respCase(sp.hc, nil)
		default:
			bc := sp.bc
			what = h.respCase(hsCase{label: "resp-honest-then-" + bc.label}, &bc)
		}
		if what == "" {
			return // (failure reported)
		}
		if why := h.hon.served(h.height, h.last3, 10*time.Second); why != "" {
			n.fail("C15 p2p-hs class=honest-peer-not-served after %s: %s", what, why)
			return
		}
		if i%20 == 19 || i == len(steps)-1 {
			nw, err := s.honest("newcomer", h.height, h.head, h.genesis)
			if err != nil {
				n.fail("C15 p2p-hs class=no-new-connection after %s the node no longer accepts a connection: %v", what, err)
				return
			}
			why := nw.served(h.height, h.last3, 10*time.Second)
			nw.close()
			if why != "" {
				n.fail("C15 p2p-hs class=newcomer-not-served after %s: a peer that connects now: %s", what, why)
				return
			}
			n.hit("hs-newcomer-served")
			if why := h.dialledHonestly(); why != "" {
				n.fail("C15 p2p-hs class=node-stopped-dialling after %s: %s", what, why)
				return
			}
		}
	}
	// the half-open connections: the node's handshake time-out (5 s) must have closed every one of them
	for _, hc := range h.held {
		wait := time.Until(hc.since.Add(12 * time.Second))
		if wait < 50*time.Millisecond {
			wait = 50 * time.Millisecond
		}
		hc.fd.SetReadDeadline(time.Now().Add(wait))
		buf := make([]byte, 4096)
		closed := false
		for {
			_, err := hc.fd.Read(buf)
			if err == nil {
				continue
			}
			if ne, ok := err.(net.Error); !ok || !ne.Timeout() {
				closed = true
			}
			break
		}
		hc.fd.Close()
		n.hit("hs-half-open-checked")
		if !closed {
			n.fail("C15 p2p-hs class=half-open-kept the node keeps a connection whose handshake never completed open for more than 12 s "+
				"(its handshake time-out is 5 s): %s", hc.what)
			return
		}
	}
}

// authCase: we dial the node and send one hostile auth message.
func (h *hsRun) authCase(hc hsCase) string {
	n := h.n
	node := &h.s.key.PublicKey
	m := newAuthMat(node)
	plain := m.plain
	if hc.plain != nil {
		plain = hc.plain(m.plain)
	}
	wire := sealTo(node, plain)
	desc := "a correct ECIES envelope addressed to the node around " + authPlainDesc(plain)
	if strings.Contains(hc.label, "replayed") && len(h.replay) > 0 {
		wire = h.replay[len(h.replay)-1]
		desc = "the auth message of an earlier connection, byte for byte"
	}
	if hc.wire != nil {
		wire = hc.wire(wire)
		desc = fmt.Sprintf("wire bytes %s derived (%s) from %s", hexHead(wire, 120), hc.label, desc)
	}
	if hc.plain == nil && hc.wire == nil {
		h.replay = append(h.replay, wire)
	}
	what := fmt.Sprintf("rlpx-auth[%s] we dial the node and send as auth message (%d bytes on the wire, %d trailing): %s", hc.label, len(wire), len(hc.tail), desc)
	n.req("%s", what)
	n.hit("hs-cases")
	n.hit("hs-auth-cases")
	n.hit("hs-" + hsFamily(hc.label))
	fd, err := net.DialTimeout("tcp", h.s.srv.ListenAddr, 5*time.Second)
	if err != nil {
		n.fail("C15 p2p-hs class=no-new-connection the node no longer accepts a TCP connection (%v) before %s", err, what)
		return ""
	}
	fd.SetDeadline(time.Now().Add(10 * time.Second))
	fd.Write(append(append([]byte{}, wire...), hc.tail...))
	if hc.hold {
		h.held = append(h.held, heldConn{fd, time.Now(), what})
		return what
	}
	if len(wire) < encAuthLen {
		fd.Close() // truncated, then closed
		n.hit("hs-auth-closed-by-us")
		return what
	}
	// what the node does with the sender is its choice: recorded, not judged
	fd.SetReadDeadline(time.Now().Add(700 * time.Millisecond))
	resp := make([]byte, encRespLen)
	if _, err := io.ReadFull(fd, resp); err == nil {
		n.hit("hs-auth-answered")
		junk := make([]byte, 64)
		crand.Read(junk)
		fd.Write(junk) // a first "frame" the node cannot authenticate
	} else if ne, ok := err.(net.Error); ok && ne.Timeout() {
		n.hit("hs-auth-silent")
	} else {
		n.hit("hs-auth-refused")
	}
	fd.Close()
	return what
}

func hsFamily(label string) string {
	parts := strings.Split(label, "-")
	if len(parts) > 3 {
		parts = parts[:3]
	}
	fam := strings.Join(parts, "-")
	if i := strings.IndexAny(fam, "0123456789(=,"); i > 0 {
		fam = strings.TrimRight(fam[:i], "-")
	}
	return fam
}

// accept: the node is told to connect to a fresh identity of ours (a static node, as a configured seeder is) and dials it.
func (h *hsRun) accept(what string) (net.Listener, net.Conn, *respMat, bool) {
	n := h.n
	key, _ := crypto.GenerateKey()
	ln, err := net.Listen("tcp", "127.0.0.1:0")
	if err != nil {
		n.fail("C15 p2p-hs: harness cannot listen: %v", err)
		return nil, nil, nil, false
	}
	id := discover.PubkeyID(&key.PublicKey)
	node, err := discover.ParseNode(fmt.Sprintf("enode://%x@%s", id[:], ln.Addr().String()))
	if err != nil {
		ln.Close()
		n.fail("C15 p2p-hs: harness cannot build its node URL: %v", err)
		return nil, nil, nil, false
	}
	h.s.srv.AddPeer(node)
	ln.(*net.TCPListener).SetDeadline(time.Now().Add(10 * time.Second))
	var lastErr error
	for {
		fd, err := ln.Accept()
		if err != nil {
			ln.Close()
			n.fail("C15 p2p-hs class=node-stopped-dialling the node was told to connect to a new static node (Server.AddPeer) and does not dial it "+
				"within 10 s (%v; %v), before %s", err, lastErr, what)
			return nil, nil, nil, false
		}
		fd.SetDeadline(time.Now().Add(10 * time.Second))
		m, err := readAuth(fd, key)
		if err != nil {
			// (the node re-dials the static nodes of earlier cases every 30 s: such a connection can arrive here when the system hands
			// out a port again; it is addressed to another identity)
			lastErr = err
			fd.Close()
			continue
		}
		return ln, fd, m, true
	}
}

// respCase: the node dials us; we answer its auth message with a hostile auth response (bc == nil), or with an honest one
// followed by a hostile protocol handshake (bc != nil).
func (h *hsRun) respCase(hc hsCase, bc *baseCase) string {
	n := h.n
	ln, fd, m, ok := h.accept(hc.label)
	if !ok {
		return ""
	}
	defer ln.Close()
	plain := m.plain
	if hc.plain != nil {
		plain = hc.plain(m.plain)
	}
	wire := sealTo(m.nodeStatic, plain)
	desc := "a correct ECIES envelope addressed to the node around " + respPlainDesc(plain)
	if strings.Contains(hc.label, "own-auth-echoed") {
		wire = append([]byte{}, m.auth[:encRespLen]...)
		desc = "the first 210 bytes of the node's own auth message"
	}
	if hc.wire != nil {
		wire = hc.wire(wire)
		desc = fmt.Sprintf("wire bytes %s derived (%s) from %s", hexHead(wire, 120), hc.label, desc)
	}
	what := fmt.Sprintf("rlpx-auth-response[%s] the node dials us (static node) and we answer its auth message with (%d bytes on the wire, %d trailing): %s",
		hc.label, len(wire), len(hc.tail), desc)
	if bc != nil {
		what = fmt.Sprintf("rlpx-dialled-protocol-handshake[%s] the node dials us, the encryption handshake is completed honestly and we send in place of our hello: %v", hc.label, *bc)
	}
	n.req("%s", what)
	n.hit("hs-cases")
	if bc != nil {
		n.hit("hs-dialled-proto-cases")
	} else {
		n.hit("hs-resp-cases")
		n.hit("hs-" + hsFamily(hc.label))
	}
	fd.Write(append(append([]byte{}, wire...), hc.tail...))
	if hc.hold {
		h.held = append(h.held, heldConn{fd, time.Now(), what})
		return what
	}
	if bc != nil {
		rw, err := m.frames(fd, wire)
		if err == nil {
			size := uint32(len(bc.pay))
			if bc.size >= 0 {
				size = uint32(bc.size)
			}
			rw.WriteMsg(p2p.Msg{Code: bc.code, Size: size, Payload: bytes.NewReader(bc.pay)})
		}
	} else if len(wire) < encRespLen {
		fd.Close()
		n.hit("hs-resp-closed-by-us")
		return what
	}
	// what the node does with this connection is its choice: recorded, not judged
	fd.SetReadDeadline(time.Now().Add(700 * time.Millisecond))
	buf := make([]byte, 4096)
	got := 0
	for {
		k, err := fd.Read(buf)
		got += k
		if err != nil {
			if ne, ok := err.(net.Error); ok && ne.Timeout() {
				n.hit("hs-resp-connection-kept")
			} else if got > 0 {
				n.hit("hs-resp-talked-then-closed")
			} else {
				n.hit("hs-resp-closed")
			}
			break
		}
	}
	fd.Close()
	return what
}

// dialledHonestly: the node still dials, completes both handshakes with an honest responder and starts the eth protocol.
func (h *hsRun) dialledHonestly() string {
	ln, fd, m, ok := h.accept("an honest responder")
	if !ok {
		return "(reported above)"
	}
	defer ln.Close()
	defer fd.Close()
	resp := sealTo(m.nodeStatic, m.plain)
	fd.Write(resp)
	rw, err := m.frames(fd, resp)
	if err != nil {
		return "harness: " + err.Error()
	}
	id := discover.PubkeyID(&m.key.PublicKey)
	hello := &baseHandshake{Version: 4, Name: "honest-responder", Caps: []p2p.Cap{{Name: "eth", Version: 61}}, ID: id}
	if err := rw.WriteMsg(p2p.Msg{Code: baseHandshakeMsg, Size: uint32(len(mustRlp(hello))), Payload: bytes.NewReader(mustRlp(hello))}); err != nil {
		return "the node dialled an honest responder and closed the connection before its hello could be written: " + err.Error()
	}
	sawHello := false
	for {
		msg, err := rw.ReadMsg()
		if err != nil {
			return fmt.Sprintf("the node dialled an honest responder (correct auth response, correct hello) and the session did not start: %v (hello seen: %v)", err, sawHello)
		}
		pay, _ := io.ReadAll(msg.Payload)
		switch {
		case msg.Code == baseHandshakeMsg:
			var hs baseHandshake
			if err := rlp.DecodeBytes(pay, &hs); err != nil || hs.ID != discover.PubkeyID(&h.s.key.PublicKey) {
				return fmt.Sprintf("the node's hello to an honest responder is not its own: %v", err)
			}
			sawHello = true
		case msg.Code == baseDiscMsg:
			return fmt.Sprintf("the node dialled an honest responder and disconnected it: %x", pay)
		case msg.Code == baseProtoLen+protocol.StatusMsg:
			if !sawHello {
				return "the node sent its status before its hello"
			}
			h.n.hit("hs-node-dials-honest-responder")
			rw.WriteMsg(p2p.Msg{Code: baseDiscMsg, Size: 2, Payload: bytes.NewReader([]byte{0xc1, 0x08})}) // client quitting
			return ""
		}
	}
}
