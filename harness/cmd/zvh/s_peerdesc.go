package main

import (
	"bytes"
	"fmt"
	"math/big"
	"reflect"
	"strings"

	g "github.com/zenon-network/go-zenon/chain/genesis/mock"
	"github.com/zenon-network/go-zenon/chain/nom"
	"github.com/zenon-network/go-zenon/common"
	"github.com/zenon-network/go-zenon/common/types"
)

// ---------------------------------------------------------------------------------------------------
// peerdesc stream (C01): peer-delivered CONTRACT blocks whose content differs from what the node regenerates.
//
// Contract receive blocks are unsigned: every peer (and the producing pillar) can deliver one. The hash of a contract
// receive covers its own fields and only the HASH FIELDS of its descendant (contract-send) blocks, so the content of a
// descendant - amount, addressee, token, data - is vouched for by nothing but the receiving node's own regeneration.
// C01's mechanism ("send debits the sender exactly once, the receive credits the send's amount exactly once") therefore
// needs: whatever a node stores under a descendant's hash is the block it regenerated, never the one it was handed.
//
// The histories are those of the autoreceive stream (calls to every method of every embedded contract under the spork
// regimes, compressed calendar in the odd ones: refunds of failed calls that carry amounts, withdraws / cancels / revokes
// that pay out, reward collects that mint through the token contract, token issues / mints / burns, bridge and liquidity
// calls). A FOLLOWER node (own leveldb, consensus, supervisor, chain bridge) is attached to the producer. Every contract
// receive the producer generates reaches the follower from a lying peer first: all hash fields (receive hash, descendant
// hashes, changes hash) are the honest ones, ONE field of ONE descendant (or a covered field of the receive itself) is
// altered - Amount x3 / +1 / -1 / 0 / 2^255, ToAddress another user / an embedded contract / the zero address,
// TokenStandard ZNN<->QSR / an issued token / the zero token, and the whole generic family (s_variants_fields.go) over
// every other field the hash covers, found by experiment (Data, BlockType, Height, Address, PreviousHash, FromBlockHash,
// Version, ChainIdentifier, FusedPlasma, Difficulty, ...). Three delivery classes:
//   gossip-first     ChainBridge.AddAccountBlocks with the altered block BEFORE the honest copy
//   gossip-after     the honest copy is pooled first, the altered one follows (must change nothing)
//   momentum         nothing is gossiped; the producer's momentum is served with the altered block inside
//                    (ChainBridge.InsertChain), then honestly
// Monitors, all on the FOLLOWER and model-free:
//   (a) the C01 conservation monitor (mon_conservation.go walks the follower's chain itself) at the pool state after every
//       accepted delivery and after the (honest) receive blocks of the credited accounts are gossiped, and at the confirmed
//       state after every momentum;
//   (b) whatever the follower stores under the hash of a delivered receive / descendant has the honest content: the
//       harness's own pre-image hash (s_codec.go abPreimage) of the stored block equals its hash field, and addressee,
//       token and amount are the producer's;
//   (c) the follower accepts every honest momentum of the producer, stores its blocks with the producer's bytes and ends
//       with the producer's frontier and the producer's balances for every account.
// ---------------------------------------------------------------------------------------------------

type pdVariant struct {
	v      *nom.AccountBlock
	honest *nom.AccountBlock
	what   string
}

type pdRun struct {
	c          *Ctx
	r          *arRun
	f          *zFollower
	cons       *consMonitor
	covered    []string
	momMode    map[types.Address]bool     // contracts whose pooled receives are not gossiped in this round (they arrive inside the momentum)
	pendingMom map[types.Hash]*pdVariant  // receive hash -> the altered copy the lying peer serves inside the momentum
	tampered   map[types.Hash]string      // descendant hash -> the alteration the follower was handed (and did not refuse)
	credited   map[types.Address]bool     // user addressees (honest and delivered) of such descendants, not yet asked to receive
	dead       bool
}

func init() {
	register("peerdesc", func(c *Ctx) {
		defer func() { arAttach, c.emitOnly = nil, "" }()
		c.emitOnly = "PD-"
		arAttach = func(r *arRun) {
			f, err := newZFollower("")
			if err != nil {
				c.Fail("peerdesc run=%d: cannot start the follower: %v", r.id, err)
				return
			}
			p := &pdRun{c: c, r: r, f: f, momMode: map[types.Address]bool{}, pendingMom: map[types.Hash]*pdVariant{},
				tampered: map[types.Hash]string{}, credited: map[types.Address]bool{}}
			p.cons = newConsMonitor(c, f, fmt.Sprintf("FOLLOWER of peerdesc run=%d regime=%d", r.id, r.regime))
			r.peer = p
			c.Hit("peerdesc-history")
		}
		for i := 0; i < c.N; i++ {
			// regimes 3, 2, 1, 0, ... ; the odd ones on the compressed calendar (lock periods end, reward epochs pass)
			autoreceiveHistory(c, 3-i%4+4*(i/4), "")
		}
	})
}

func (p *pdRun) fail(format string, a ...interface{}) {
	p.dead = true
	p.r.failed = true
	p.c.Fail("C01 peer-delivered contract block: peerdesc run=%d regime=%d producer h=%d follower h=%d: %s", p.r.id, p.r.regime, p.r.n.Height(), p.f.Height(), fmt.Sprintf(format, a...))
}

func (p *pdRun) ok() bool { return !p.dead && !p.r.failed && !p.cons.failed }

// ---- alterations -------------------------------------------------------------------------------------

// abCoveredFields: the exported fields of an account block whose perturbation CHANGES the hash (found by experiment, like
// abUncoveredFields); Amount (a *big.Int) and the descendant list are handled by the directed alterations
func abCoveredFields(b *nom.AccountBlock) []string {
	base := cloneBlock(b)
	h0 := base.ComputeHash()
	t := reflect.TypeOf(base).Elem()
	var out []string
	for i := 0; i < t.NumField(); i++ {
		f := t.Field(i)
		if f.PkgPath != "" || f.Name == "Hash" {
			continue
		}
		o := cloneBlock(b)
		if !perturbField(reflect.ValueOf(o).Elem().Field(i)) {
			continue
		}
		if o.ComputeHash() != h0 {
			out = append(out, f.Name)
		}
	}
	return out
}

type pdAlt struct {
	name string
	f    func(p *pdRun, d *nom.AccountBlock) bool
}

func pdSetAmount(d *nom.AccountBlock, v *big.Int) bool {
	if d.Amount != nil && d.Amount.Cmp(v) == 0 {
		return false
	}
	d.Amount = v
	return true
}

func pdAmount(d *nom.AccountBlock) *big.Int {
	if d.Amount == nil {
		return new(big.Int)
	}
	return d.Amount
}

var pdDirected = []pdAlt{
	{"Amount:x3", func(p *pdRun, d *nom.AccountBlock) bool {
		return pdAmount(d).Sign() > 0 && pdSetAmount(d, new(big.Int).Mul(pdAmount(d), big.NewInt(3)))
	}},
	{"Amount:plus-1", func(p *pdRun, d *nom.AccountBlock) bool { return pdSetAmount(d, new(big.Int).Add(pdAmount(d), big.NewInt(1))) }},
	{"Amount:minus-1", func(p *pdRun, d *nom.AccountBlock) bool {
		return pdAmount(d).Sign() > 0 && pdSetAmount(d, new(big.Int).Sub(pdAmount(d), big.NewInt(1)))
	}},
	{"Amount:zero", func(p *pdRun, d *nom.AccountBlock) bool { return pdSetAmount(d, new(big.Int)) }},
	{"Amount:2^255", func(p *pdRun, d *nom.AccountBlock) bool { return pdSetAmount(d, new(big.Int).Lsh(big.NewInt(1), 255)) }},
	{"Amount:half", func(p *pdRun, d *nom.AccountBlock) bool {
		return pdAmount(d).Cmp(big.NewInt(1)) > 0 && pdSetAmount(d, new(big.Int).Rsh(pdAmount(d), 1))
	}},
	{"ToAddress:other-user", func(p *pdRun, d *nom.AccountBlock) bool {
		us := []types.Address{g.User1.Address, g.User2.Address, g.User3.Address, g.User4.Address, g.User9.Address, g.User10.Address}
		to := us[p.c.R.Intn(len(us))]
		if to == d.ToAddress {
			to = g.User8.Address
		}
		d.ToAddress = to
		return true
	}},
	{"ToAddress:embedded", func(p *pdRun, d *nom.AccountBlock) bool {
		to := types.EmbeddedContracts[p.c.R.Intn(len(types.EmbeddedContracts))]
		if to == d.ToAddress {
			return false
		}
		d.ToAddress = to
		return true
	}},
	{"ToAddress:zero", func(p *pdRun, d *nom.AccountBlock) bool {
		if d.ToAddress == types.ZeroAddress {
			return false
		}
		d.ToAddress = types.ZeroAddress
		return true
	}},
	{"TokenStandard:znn-qsr", func(p *pdRun, d *nom.AccountBlock) bool {
		if d.TokenStandard == types.ZnnTokenStandard {
			d.TokenStandard = types.QsrTokenStandard
		} else {
			d.TokenStandard = types.ZnnTokenStandard
		}
		return true
	}},
	{"TokenStandard:issued-token", func(p *pdRun, d *nom.AccountBlock) bool {
		t := p.r.w.tokOwned
		if p.c.R.Intn(2) == 0 {
			t = p.r.w.tokFixed
		}
		if t == types.ZeroTokenStandard || t == d.TokenStandard {
			return false
		}
		d.TokenStandard = t
		return true
	}},
	{"TokenStandard:zero", func(p *pdRun, d *nom.AccountBlock) bool {
		if d.TokenStandard == types.ZeroTokenStandard {
			return false
		}
		d.TokenStandard = types.ZeroTokenStandard
		return true
	}},
}

// makeVariant: a copy of the generated contract receive b, every hash field kept, one covered field of one descendant (or
// of the receive itself) altered; nil when nothing applicable was drawn
func (p *pdRun) makeVariant(b *nom.AccountBlock) *pdVariant {
	c := p.c
	if p.covered == nil {
		p.covered = abCoveredFields(b)
		for _, fn := range p.covered {
			c.Hit("covered-account-block-field-" + fn)
		}
	}
	for try := 0; try < 6; try++ {
		v := cloneBlock(b)
		target, where := v, "receive"
		if n := len(v.DescendantBlocks); n > 0 && c.R.Intn(5) != 0 {
			k := c.R.Intn(n)
			target, where = v.DescendantBlocks[k], fmt.Sprintf("descendant-%d/%d", k, n)
		}
		name := ""
		if c.R.Intn(3) != 0 {
			a := pdDirected[c.R.Intn(len(pdDirected))]
			if !a.f(p, target) {
				continue
			}
			name = a.name
		} else {
			fvs := fieldVariantsOf(target, p.covered)
			if len(fvs) == 0 {
				continue
			}
			fv := fvs[c.R.Intn(len(fvs))]
			noteUintDonors(b, p.covered)
			if !applyFieldMut(c, target, fv.field, fv.mut) {
				continue
			}
			name = fv.name()
		}
		// what a peer can deliver is a decoded message
		if v = rewireBlock(v); v == nil || v.Hash != b.Hash || len(v.DescendantBlocks) != len(b.DescendantBlocks) || v.ChangesHash != b.ChangesHash {
			continue
		}
		same := true
		for i, d := range v.DescendantBlocks {
			if d.Hash != b.DescendantBlocks[i].Hash {
				same = false
			}
		}
		if !same {
			continue
		}
		kind := "receive"
		if where != "receive" {
			kind = "descendant"
		}
		c.Hit("alteration-" + kind + "-" + strings.SplitN(name, ":", 2)[0])
		return &pdVariant{v: v, honest: b, what: fmt.Sprintf("%s %s", where, name)}
	}
	return nil
}

func pdDescribe(b *nom.AccountBlock) string {
	var sb strings.Builder
	status := "?"
	if len(b.Data) == 8 {
		status = fmt.Sprint(common.BytesToUint64(b.Data))
	}
	fmt.Fprintf(&sb, "receive %s/%d hash %s answering %s, status %s, descendants:", addrName(b.Address), b.Height, h8(b.Hash), h8(b.FromBlockHash), status)
	for _, d := range b.DescendantBlocks {
		fmt.Fprintf(&sb, " [%s -> %s %s %s, %d data bytes]", h8(d.Hash), addrName(d.ToAddress), amt(pdAmount(d)), tokName(d.TokenStandard), len(d.Data))
	}
	return sb.String()
}

// emitDeliver: the line for the Lean model (Model/PeerDesc.lean `accept`, Driver/PeerDesc.lean): the regenerated descendants
// (the producer's) and the facts about the delivered hash fields on the left, what the follower stores under the descendants'
// hashes on the right
func (p *pdRun) emitDeliver(pv *pdVariant, class string, accepted bool) {
	show := func(hash types.Hash, d *nom.AccountBlock) string {
		if d == nil {
			return fmt.Sprintf("%s missing - 0 -", h8(hash))
		}
		return fmt.Sprintf("%s %s %s %s %s", h8(d.Hash), addrName(d.ToAddress), tokName(d.TokenStandard), amt(pdAmount(d)), h8(types.NewHash(abPreimage(d))))
	}
	ownOk := types.NewHash(abPreimage(pv.v)) == pv.v.Hash
	// accepted = no error AND the follower holds a block under the receive's hash now (the chain bridge silently skips a
	// delivered block typed "contract send": no error, nothing stored)
	var held *nom.AccountBlock
	safely(func() { held, _ = p.f.ch.GetFrontierAccountStore(pv.honest.Address).ByHash(pv.honest.Hash) })
	if accepted && held == nil {
		accepted = false
		p.c.Hit("delivery-skipped-without-error")
	}
	verdict := "rejected"
	if accepted {
		verdict = "accepted"
	}
	var lhs, rhs strings.Builder
	for _, d := range pv.honest.DescendantBlocks {
		lhs.WriteString(" " + show(d.Hash, d))
		var hb *nom.AccountBlock
		safely(func() { hb, _ = p.f.ch.GetFrontierAccountStore(d.Address).ByHash(d.Hash) })
		rhs.WriteString(" " + show(d.Hash, hb))
	}
	obs := "rejected"
	if accepted || class == "held" {
		obs = "stored" + rhs.String()
	}
	p.c.Emit("# next line: run=%d producer h=%d, %s of %s", p.r.id, p.r.n.Height(), pv.what, pdDescribe(pv.honest))
	p.c.Emit("PD-deliver %s %v %v %v %s %d%s | %s", class, ownOk, pv.v.ChangesHash == pv.honest.ChangesHash, pv.v.Hash == pv.honest.Hash, verdict, len(pv.honest.DescendantBlocks), lhs.String(), obs)
}

// ---- monitors ----------------------------------------------------------------------------------------

// checkStored: monitor (b) - what the follower holds under the hashes of the honest receive b and its descendants
func (p *pdRun) checkStored(pv *pdVariant, how string) bool {
	b := pv.honest
	all := append([]*nom.AccountBlock{b}, b.DescendantBlocks...)
	for i, o := range all {
		var hb *nom.AccountBlock
		if q := safely(func() { hb, _ = p.f.ch.GetFrontierAccountStore(o.Address).ByHash(o.Hash) }); q != "" || hb == nil {
			continue
		}
		role := "the receive block"
		if i > 0 {
			role = fmt.Sprintf("descendant %d", i-1)
		}
		own := types.NewHash(abPreimage(hb))
		if own != hb.Hash || hb.Hash != o.Hash || hb.ToAddress != o.ToAddress || hb.TokenStandard != o.TokenStandard || pdAmount(hb).Cmp(pdAmount(o)) != 0 || hb.BlockType != o.BlockType || hb.Height != o.Height || !bytes.Equal(hb.Data, o.Data) {
			p.fail("(b) a lying peer delivered (%s) a contract receive with every hash field honest and an altered field (%s); the follower now stores under hash %s (%s) a block whose content is not the one that hash stands for: stored %s -> %s %s %s type %d height %d, %d data bytes (the harness's pre-image hash of the stored block is %s); the producer's block: -> %s %s %s type %d height %d, %d data bytes. The contract is debited what it regenerated, the addressee is credited what is stored. Honest block: %s",
				how, pv.what, h8(o.Hash), role, addrName(hb.Address), addrName(hb.ToAddress), amt(pdAmount(hb)), tokName(hb.TokenStandard), hb.BlockType, hb.Height, len(hb.Data), h8(own),
				addrName(o.ToAddress), amt(pdAmount(o)), tokName(o.TokenStandard), o.BlockType, o.Height, len(o.Data), pdDescribe(b))
			return false
		}
		p.c.Hit("stored-content-checked")
	}
	return true
}

func (p *pdRun) noteTampered(pv *pdVariant) {
	for i, d := range pv.honest.DescendantBlocks {
		p.tampered[d.Hash] = pv.what
		for _, to := range []types.Address{d.ToAddress, pv.v.DescendantBlocks[i].ToAddress} {
			if !types.IsEmbeddedAddress(to) && keyOf(to) != nil {
				p.credited[to] = true
			}
		}
	}
}

func (p *pdRun) gossipOne(b *nom.AccountBlock) error { return p.f.Gossip([]*nom.AccountBlock{b}) }

// ---- the hooks of the producer's step ------------------------------------------------------------------

// afterReceives: the producer has generated the contract receives for the sends its last momentum confirmed; they sit in
// its pool. The follower is at the producer's height.
func (p *pdRun) afterReceives() {
	if !p.ok() || p.f.Height() != p.r.n.Height() {
		return
	}
	c := p.c
	p.momMode = map[types.Address]bool{}
	checkedPool := false
	for _, b := range uncommittedSorted(p.r.n) {
		if !p.ok() {
			return
		}
		if b.BlockType != nom.BlockTypeContractReceive || p.momMode[b.Address] {
			continue
		}
		if p.f.ch.GetPatch(b.Address, b.Identifier()) != nil {
			continue
		}
		honest := func() bool {
			if err := p.gossipOne(cloneBlock(b)); err != nil {
				c.Hit("honest-contract-gossip-refused")
				p.momMode[b.Address] = true // the later receives of this contract do not link: everything arrives with the momentum
				return false
			}
			c.Hit("honest-contract-gossip-accepted")
			return true
		}
		nd := len(b.DescendantBlocks)
		if nd == 0 && c.R.Intn(4) != 0 {
			honest()
			continue
		}
		pv := p.makeVariant(b)
		if pv == nil {
			honest()
			continue
		}
		c.Hit("contract-receive-altered")
		if nd > 0 {
			c.Hit("contract-receive-with-descendants-altered")
		}
		kindOf := "nodesc"
		if nd > 0 {
			kindOf = "desc"
		}
		switch roll := c.R.Intn(100); {
		case roll < 55:
			err := p.gossipOne(pv.v)
			res := "accepted"
			if err != nil {
				res = "rejected"
			}
			p.emitDeliver(pv, "first", err == nil)
			c.Hit("gossip-first-" + kindOf + "-" + res)
			if err == nil {
				p.noteTampered(pv)
				if !p.checkStored(pv, "by gossip, before the honest copy") {
					// (a) on the same state: what the altered content does to the sum
					p.cons.checkPool(fmt.Sprintf("after a peer gossiped a copy of the generated contract receive with all hash fields honest and %s altered, before the honest copy; honest block: %s", pv.what, pdDescribe(b)))
					return
				}
				if !p.cons.checkPool(fmt.Sprintf("after a peer gossiped a copy of the generated contract receive with all hash fields honest and %s altered, before the honest copy; honest block: %s", pv.what, pdDescribe(b))) {
					p.dead = true
					return
				}
				checkedPool = true
			}
			honest()
			p.checkStored(pv, "by gossip, before the honest copy; the honest copy followed")
		case roll < 72:
			if !honest() {
				continue
			}
			err := p.gossipOne(pv.v)
			res := "accepted"
			if err != nil {
				res = "rejected"
			}
			p.emitDeliver(pv, "held", err == nil)
			c.Hit("gossip-after-" + kindOf + "-" + res)
			p.noteTampered(pv)
			if !p.checkStored(pv, "by gossip, after the honest copy was pooled") {
				return
			}
			if c.R.Intn(3) == 0 {
				if !p.cons.checkPool(fmt.Sprintf("after a peer gossiped a copy of an already pooled contract receive with %s altered; honest block: %s", pv.what, pdDescribe(b))) {
					p.dead = true
					return
				}
				checkedPool = true
			}
		default:
			p.momMode[b.Address] = true
			p.pendingMom[b.Hash] = pv
			c.Hit("momentum-mode-" + kindOf + "-planned")
		}
	}
	_ = checkedPool
}

// beforeMomentum: the user blocks the producer pooled since (the calls of the plan and the receive blocks of the users)
// reach the follower by honest gossip; the pool state is judged when one of them receives a descendant that a peer served altered
func (p *pdRun) beforeMomentum() {
	if !p.ok() || p.f.Height() != p.r.n.Height() {
		return
	}
	hot := 0
	var what []string
	for _, b := range uncommittedSorted(p.r.n) {
		if b.BlockType != nom.BlockTypeUserSend && b.BlockType != nom.BlockTypeUserReceive {
			continue
		}
		if p.f.ch.GetPatch(b.Address, b.Identifier()) != nil {
			continue
		}
		if err := p.gossipOne(cloneBlock(b)); err != nil {
			p.c.Hit("honest-user-gossip-refused")
			continue
		}
		p.c.Hit("honest-user-gossip-accepted")
		if w, yes := p.tampered[b.FromBlockHash]; yes && b.BlockType == nom.BlockTypeUserReceive {
			hot++
			what = append(what, fmt.Sprintf("%s receives %s (%s)", addrName(b.Address), h8(b.FromBlockHash), w))
			p.c.Hit("receive-of-altered-descendant-gossiped")
		}
	}
	if hot > 0 || p.c.R.Intn(6) == 0 {
		if len(what) > 4 {
			what = what[:4]
		}
		if !p.cons.checkPool("after the honest receive blocks of the credited accounts reached the follower by gossip: " + strings.Join(what, "; ")) {
			p.dead = true
		}
	}
}

func (p *pdRun) producerMomentum(h uint64) *nom.DetailedMomentum {
	st := p.r.n.Chain().GetFrontierMomentumStore()
	m, _ := st.GetMomentumByHeight(h)
	if m == nil {
		return nil
	}
	dm, _ := st.PrefetchMomentum(m)
	return dm
}

// afterMomentum: the follower is brought to the producer's height; a momentum that confirms a receive kept for the momentum
// class is first served by the lying peer with the altered copy inside
func (p *pdRun) afterMomentum() { p.syncFollower(true) }

func (p *pdRun) syncFollower(lie bool) {
	if p.dead || p.cons.failed {
		return
	}
	c := p.c
	H := p.r.n.Height()
	for h := p.f.Height() + 1; h <= H; h++ {
		dm := p.producerMomentum(h)
		if dm == nil {
			p.fail("cannot read the producer's momentum %d", h)
			return
		}
		var lied []*pdVariant
		if lie {
			blocks := append([]*nom.AccountBlock{}, dm.AccountBlocks...)
			for i, b := range blocks {
				pv := p.pendingMom[b.Hash]
				if pv == nil || b.BlockType != nom.BlockTypeContractReceive {
					continue
				}
				delete(p.pendingMom, b.Hash)
				blocks[i] = pv.v
				// the block list of a momentum is flat: the descendants are listed as well
				for j, d := range blocks {
					for k, vd := range pv.v.DescendantBlocks {
						if d.Hash == vd.Hash && d.BlockType == nom.BlockTypeContractSend {
							blocks[j] = pv.v.DescendantBlocks[k]
						}
					}
				}
				lied = append(lied, pv)
			}
			if len(lied) > 0 {
				_, lerr := p.f.InsertChain([]*nom.DetailedMomentum{{Momentum: dm.Momentum, AccountBlocks: blocks}})
				res := "accepted"
				if lerr != nil {
					res = "rejected"
				}
				for _, pv := range lied {
					p.emitDeliver(pv, "first", lerr == nil)
					c.Hit("momentum-mode-" + res)
					p.noteTampered(pv)
				}
				// accepted or refused, the blocks of the served momentum may sit in the follower's pool / ledger now
				for _, pv := range lied {
					if !p.checkStored(pv, fmt.Sprintf("inside the producer's momentum %d, nothing gossiped before; the momentum was %s", h, res)) {
						if lerr != nil {
							p.cons.checkPool(fmt.Sprintf("after a peer served momentum %d with %s altered in a contract receive (refused: %v); honest block: %s", h, pv.what, lerr, pdDescribe(pv.honest)))
						} else {
							p.cons.checkConfirmed(fmt.Sprintf("after a peer served momentum %d with %s altered in a contract receive (accepted); honest block: %s", h, pv.what, pdDescribe(pv.honest)))
						}
						return
					}
				}
			}
		}
		if p.f.Height() < h {
			if _, err := p.f.InsertChain([]*nom.DetailedMomentum{dm}); err != nil || p.f.Height() < h {
				var ws []string
				for _, pv := range lied {
					ws = append(ws, pv.what+" in "+pdDescribe(pv.honest))
				}
				p.fail("(c) the follower refuses the producer's honest momentum %d: %v (served before by a lying peer inside this momentum: %d altered contract receives %s; altered copies gossiped earlier in the history and not refused: %d descendants)", h, err, len(lied), strings.Join(ws, " | "), len(p.tampered))
				return
			}
		}
		c.Hit("follower-momentum")
		// (b) and (c): the follower's copy of every block of the momentum
		fst := p.f.ch.GetFrontierMomentumStore()
		seen := map[types.Hash]bool{}
		var walk func(b *nom.AccountBlock) bool
		walk = func(b *nom.AccountBlock) bool {
			if b == nil || seen[b.Hash] {
				return true
			}
			seen[b.Hash] = true
			hb, _ := fst.GetAccountBlockByHash(b.Hash)
			if hb == nil {
				p.fail("(c) after momentum %d the follower does not hold block %s/%d hash %s of that momentum", h, addrName(b.Address), b.Height, h8(b.Hash))
				return false
			}
			x, _ := hb.Serialize()
			y, _ := b.Serialize()
			own := types.NewHash(abPreimage(hb))
			if own != hb.Hash || !bytes.Equal(x, y) {
				w := p.tampered[b.Hash]
				p.fail("(b)/(c) after momentum %d the follower stores block %s/%d hash %s differently from the producer: stored -> %s %s %s, %d data bytes, pre-image hash %s; producer -> %s %s %s, %d data bytes (a peer had served this block altered: %q)",
					h, addrName(b.Address), b.Height, h8(b.Hash), addrName(hb.ToAddress), amt(pdAmount(hb)), tokName(hb.TokenStandard), len(hb.Data), h8(own),
					addrName(b.ToAddress), amt(pdAmount(b)), tokName(b.TokenStandard), len(b.Data), w)
				return false
			}
			for _, d := range b.DescendantBlocks {
				if !walk(d) {
					return false
				}
			}
			return true
		}
		for _, b := range dm.AccountBlocks {
			if !walk(b) {
				return
			}
		}
		if len(lied) > 0 || h == H {
			if !p.cons.checkConfirmed(fmt.Sprintf("after the producer's momentum %d reached the follower (%d altered contract receives served inside it first; %d descendants served altered so far)", h, len(lied), len(p.tampered))) {
				p.dead = true
				return
			}
		}
	}
	if !lie {
		return
	}
	// the accounts credited by descendants that were served altered receive what is confirmed for them (on the producer; the
	// receive blocks reach the follower by gossip before the next momentum)
	for _, a := range p.sortedCredited() {
		if p.c.R.Intn(2) == 0 {
			continue
		}
		delete(p.credited, a)
		p.r.w.receiveAll(a)
		c.Hit("credited-account-asked-to-receive")
	}
}

func (p *pdRun) sortedCredited() []types.Address {
	var out []types.Address
	for _, kp := range g.AllKeyPairs {
		if p.credited[kp.Address] {
			out = append(out, kp.Address)
		}
	}
	return out
}

// finish: end of the history. The follower gets what is left, honestly; (a) and (c) once more in full.
func (p *pdRun) finish() {
	defer p.f.Destroy()
	if p.dead || p.cons.failed {
		return
	}
	wasFailed := p.r.failed
	p.syncFollower(false)
	if p.dead {
		return
	}
	p.cons.checkConfirmedFull("at the end of the history, follower at the producer's height")
	p.cons.checkPool("at the end of the history, follower at the producer's height")
	pf, _ := p.r.n.Chain().GetFrontierMomentumStore().GetFrontierMomentum()
	ff, _ := p.f.ch.GetFrontierMomentumStore().GetFrontierMomentum()
	if pf == nil || ff == nil || pf.Hash != ff.Hash {
		p.fail("(c) at the end of the history the follower's frontier differs from the producer's")
		p.r.failed = wasFailed || p.r.failed
		return
	}
	pst, fstore := p.r.n.Chain().GetFrontierMomentumStore(), p.f.ch.GetFrontierMomentumStore()
	for _, a := range p.cons.sortedAddrs() {
		x, _ := pst.GetAccountStore(a).GetBalanceMap()
		y, _ := fstore.GetAccountStore(a).GetBalanceMap()
		bad := len(nonZero(x)) != len(nonZero(y))
		for t, v := range x {
			if w := y[t]; v.Sign() != 0 && (w == nil || w.Cmp(v) != 0) {
				bad = true
			}
		}
		if pst.GetAccountStore(a).Identifier() != fstore.GetAccountStore(a).Identifier() {
			bad = true
		}
		if bad {
			p.fail("(c) at the end of the history (same frontier momentum %d) account %s differs between producer and follower: balances %v / %v", pf.Height, addrName(a), x, y)
			return
		}
	}
	p.c.Hit("peerdesc-history-compared-with-producer")
}

func nonZero(m map[types.ZenonTokenStandard]*big.Int) map[types.ZenonTokenStandard]*big.Int {
	out := map[types.ZenonTokenStandard]*big.Int{}
	for t, v := range m {
		if v != nil && v.Sign() != 0 {
			out[t] = v
		}
	}
	return out
}
