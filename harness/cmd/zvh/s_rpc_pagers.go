package main

import (
	"encoding/json"
	"fmt"
	"math/big"
	"reflect"
	"sort"
	"strings"
	"time"

	g "github.com/zenon-network/go-zenon/chain/genesis/mock"
	"github.com/zenon-network/go-zenon/chain/nom"
	"github.com/zenon-network/go-zenon/common/db"
	"github.com/zenon-network/go-zenon/common/types"
	"github.com/zenon-network/go-zenon/consensus"
	"github.com/zenon-network/go-zenon/rpc"
	"github.com/zenon-network/go-zenon/rpc/api"
	"github.com/zenon-network/go-zenon/rpc/api/embedded"
	"github.com/zenon-network/go-zenon/verifier"
	"github.com/zenon-network/go-zenon/vm/constants"
	"github.com/zenon-network/go-zenon/vm/embedded/definition"
	"github.com/zenon-network/go-zenon/vm/embedded/implementation"
)

// ---------------------------------------------------------------------------------------------------
// rpc stream, pager family (C18: "paging through any list with any page index and size yields each element once, in
// the documented order, with correct totals; page sizes are bounded").
//
// A ledger is built on which every collection an RPC can page through is LARGER than several small pages: one owner
// with many tokens (and other owners), many stakes / fusions / liquidity stakes of one address, accelerator projects,
// sentinels, registered pillars, sporks, bridge networks, wrap and unwrap requests (several per destination), several
// completed reward epochs (reward history, pillar epoch history), unconfirmed and unreceived blocks.
//
// Then EVERY method of EVERY service the node registers (rpc.GetApis: ledger + all embedded namespaces) whose last two
// parameters are (pageIndex, pageSize uint32) and whose answer has the {count, list} shape is found by reflection and
// called — for every combination of leading arguments from a catalogue — with page sizes 1, 2, 3, 5, max, max+1 and all
// page indexes up to past the end, and with index/size pairs whose product passes 2^32:
//   (a) `count` is the same on every page and equals the size of the whole collection obtained independently (from the
//       definition.* readers on the store where one exists, and from the page of maximum size);
//   (b) the pages, concatenated, are the whole collection: each element exactly once, in one order;
//   (c) a page past the end is empty and carries the same count; no page is longer than its size.
// Every page is also printed for the Lean paging model (getRange): position of its first element, its length and count.
// ---------------------------------------------------------------------------------------------------

type pagerArgs struct {
	addrs   []types.Address
	strings []string
	u64s    []uint64
	u32s    []uint32
	hashes  []types.Hash
}

// candidates for one leading parameter
func (p *pagerArgs) forType(t reflect.Type) []reflect.Value {
	var out []reflect.Value
	switch {
	case t == reflect.TypeOf(types.Address{}):
		for _, a := range p.addrs {
			out = append(out, reflect.ValueOf(a))
		}
	case t == reflect.TypeOf(types.Hash{}):
		for _, h := range p.hashes {
			out = append(out, reflect.ValueOf(h))
		}
	case t.Kind() == reflect.String:
		for _, s := range p.strings {
			out = append(out, reflect.ValueOf(s).Convert(t))
		}
	case t.Kind() == reflect.Uint64:
		for _, v := range p.u64s {
			out = append(out, reflect.ValueOf(v).Convert(t))
		}
	case t.Kind() == reflect.Uint32:
		for _, v := range p.u32s {
			out = append(out, reflect.ValueOf(v).Convert(t))
		}
	}
	return out
}

type pagedAnswer struct {
	count int64
	list  []string
	more  string
}

// parsePaged reads the {count, list} shape from the JSON form of an answer (what a client sees)
func parsePaged(res interface{}) (*pagedAnswer, bool) {
	if res == nil {
		return nil, false
	}
	if v := reflect.ValueOf(res); v.Kind() == reflect.Ptr && v.IsNil() {
		return nil, false
	}
	b, err := json.Marshal(res)
	if err != nil {
		return nil, false
	}
	var m map[string]json.RawMessage
	if json.Unmarshal(b, &m) != nil {
		return nil, false
	}
	cr, ok1 := m["count"]
	lr, ok2 := m["list"]
	if !ok1 || !ok2 {
		return nil, false
	}
	out := &pagedAnswer{}
	if json.Unmarshal(cr, &out.count) != nil {
		return nil, false
	}
	var elems []json.RawMessage
	if string(lr) != "null" && json.Unmarshal(lr, &elems) != nil {
		return nil, false
	}
	for _, e := range elems {
		out.list = append(out.list, string(e))
	}
	if mr, ok := m["more"]; ok {
		out.more = string(mr)
	}
	return out, true
}

type pagerCall struct {
	name string // namespace.method(leading args)
	f    func(i, k uint32) (interface{}, error)
}

// findPagers: reflection over every registered service
func findPagers(n *Node, args *pagerArgs) []pagerCall {
	var out []pagerCall
	u32 := reflect.TypeOf(uint32(0))
	errT := reflect.TypeOf((*error)(nil)).Elem()
	for _, svc := range rpc.GetApis(n.Z, nil, "ledger", "embedded") {
		service := svc.Service
		if svc.Namespace == "embedded.pillar" {
			service = embedded.NewPillarApi(n.Z, true) // synchronous weights (the node's variant refreshes them in the background)
		}
		v := reflect.ValueOf(service)
		t := v.Type()
		for m := 0; m < t.NumMethod(); m++ {
			meth := t.Method(m)
			ft := meth.Func.Type() // in(0) is the receiver
			ni := ft.NumIn()
			if ni < 3 || ft.In(ni-1) != u32 || ft.In(ni-2) != u32 || ft.NumOut() != 2 || !ft.Out(1).Implements(errT) {
				continue
			}
			// leading parameters: every combination from the catalogue
			combos := [][]reflect.Value{{}}
			feasible := true
			for p := 1; p < ni-2; p++ {
				cands := args.forType(ft.In(p))
				if len(cands) == 0 {
					feasible = false
					break
				}
				var next [][]reflect.Value
				for _, c := range combos {
					for _, cand := range cands {
						next = append(next, append(append([]reflect.Value{}, c...), cand))
					}
				}
				combos = next
			}
			if !feasible {
				continue
			}
			mname := strings.ToLower(meth.Name[:1]) + meth.Name[1:]
			for _, combo := range combos {
				combo := combo
				label := make([]string, len(combo))
				for i, a := range combo {
					switch x := a.Interface().(type) {
					case types.Address:
						label[i] = addrName(x)
					default:
						label[i] = fmt.Sprintf("%v", x)
					}
				}
				fn := v.Method(m)
				out = append(out, pagerCall{
					name: fmt.Sprintf("%s.%s(%s)", svc.Namespace, mname, strings.Join(label, ",")),
					f: func(i, k uint32) (res interface{}, err error) {
						in := append(append([]reflect.Value{}, combo...), reflect.ValueOf(i), reflect.ValueOf(k))
						r := fn.Call(in)
						if !r[1].IsNil() {
							err = r[1].Interface().(error)
						}
						return r[0].Interface(), err
					},
				})
			}
		}
	}
	sort.Slice(out, func(i, j int) bool { return out[i].name < out[j].name })
	return out
}

func nameTok(s string) string {
	return strings.Map(func(r rune) rune {
		if r == ' ' || r == '|' || r == '\t' || r == '\n' {
			return '_'
		}
		return r
	}, s)
}

// sweepPager: the statement, for one getter with fixed leading arguments. truth < 0: no independent reader.
func sweepPager(c *Ctx, fail func(string, ...interface{}), pc pagerCall, truth int, wideReported map[string]bool) {
	max := uint32(api.RpcMaxPageSize)
	var whole *pagedAnswer
	{
		var res interface{}
		var err error
		if p := safely(func() { res, err = pc.f(0, max) }); p != "" {
			fail("C18: %s(page 0, size %d) panicked: %s", pc.name, max, p)
			return
		}
		if err != nil {
			c.Hit("pager-errors-on-these-arguments")
			return
		}
		var ok bool
		if whole, ok = parsePaged(res); !ok {
			return // not a {count, list} answer: not a pager
		}
	}
	n := len(whole.list)
	c.Emit("#pager %s holds %d", nameTok(pc.name), n)
	c.Hit("pager-swept")
	if n >= 4 {
		c.Hit("pager-swept-with-4+-elements")
	}
	if n >= int(max) {
		c.Hit("pager-collection-not-below-max")
		return
	}
	if whole.more == "true" {
		return // a window of a larger collection (unreceived blocks): covered by rpcManyUnreceived
	}
	if whole.count != int64(n) {
		fail("C18: %s: one page of the maximum size %d returns %d elements and count=%d", pc.name, max, n, whole.count)
		return
	}
	if truth >= 0 && truth != n {
		fail("C18: %s: the store holds %d elements (definition reader), one page of the maximum size returns %d (count=%d)", pc.name, truth, n, whole.count)
		return
	}
	pos := map[string]int{}
	for i, e := range whole.list {
		if _, dup := pos[e]; dup {
			fail("C18: %s: one page of the maximum size lists the same element twice (positions %d and %d): %.160s", pc.name, pos[e], i, e)
			return
		}
		pos[e] = i
	}
	op := "rpc-emb-page"
	page := func(i, k uint32) (*pagedAnswer, bool) {
		var res interface{}
		var err error
		if p := safely(func() { res, err = pc.f(i, k) }); p != "" {
			fail("C18: %s(page %d, size %d) panicked: %s", pc.name, i, k, p)
			return nil, false
		}
		if err != nil {
			if k <= max {
				fail("C18: %s(page %d, size %d) fails: %v", pc.name, i, k, err)
			} else {
				c.Hit("pager-refuses-size-above-max")
			}
			return nil, false
		}
		pa, ok := parsePaged(res)
		if !ok {
			fail("C18: %s(page %d, size %d) returns no {count, list} answer", pc.name, i, k)
			return nil, false
		}
		// for the Lean paging model: where the page starts in the whole list, how long it is, the total it reports
		first := "-"
		if len(pa.list) > 0 {
			if p, ok := pos[pa.list[0]]; ok {
				first = fmt.Sprint(p)
			} else {
				first = "unknown"
			}
		}
		c.Emit("%s %s %d %d %d | first=%s len=%d count=%d", op, nameTok(pc.name), i, k, n, first, len(pa.list), pa.count)
		if pa.count != int64(n) {
			fail("C18: %s(page %d, size %d) reports count=%d; the collection has %d elements (the page of size %d lists them all and says count=%d)", pc.name, i, k, pa.count, n, max, whole.count)
			return pa, false
		}
		if uint32(len(pa.list)) > k {
			fail("C18: %s(page %d, size %d) returns %d elements, more than the page size", pc.name, i, k, len(pa.list))
			return pa, false
		}
		return pa, true
	}
	for _, k := range []uint32{1, 2, 3, 5, max, max + 1} {
		var seq []string
		ok := true
		last := uint32(n)/k + 2
		if k == 1 && n > 40 {
			last = 42 // long lists: the head only, page by page
		}
		for i := uint32(0); i <= last && ok; i++ {
			pa, good := page(i, k)
			if pa == nil && k > max {
				ok = false
				break
			}
			if !good {
				return
			}
			if uint64(i)*uint64(k) >= uint64(n) && len(pa.list) != 0 {
				fail("C18: %s(page %d, size %d) lies past the end of a collection of %d elements and returns %d elements", pc.name, i, k, n, len(pa.list))
				return
			}
			seq = append(seq, pa.list...)
		}
		if !ok {
			continue
		}
		want := whole.list
		if k == 1 && n > 40 {
			want = whole.list[:43]
			if len(seq) > 43 {
				seq = seq[:43]
			}
		}
		if strings.Join(seq, "|") != strings.Join(want, "|") {
			d := 0
			for d < len(seq) && d < len(want) && seq[d] == want[d] {
				d++
			}
			a, b := "<none>", "<none>"
			if d < len(seq) {
				a = seq[d]
			}
			if d < len(want) {
				b = want[d]
			}
			fail("C18: paging through %s with page size %d yields %d elements, the collection has %d; first difference at position %d: paged %.160s, whole list %.160s", pc.name, k, len(seq), len(want), d, a, b)
			return
		}
		c.Hit("pager-page-size-swept")
	}
	// index * size passes 2^32: such a page lies past the end of every collection
	op = "rpc-emb-wide"
	method := pc.name[:strings.Index(pc.name, "(")]
	for _, ik := range [][2]uint32{{4194304, 1024}, {1 << 31, 2}, {1<<32 - 1, 1}, {1<<32 - 1, 1024}, {1 << 30, 4}, {1<<30 + 1, 4}, {1431655766, 3}, {858993460, 5}, {65536, 1024}, {1 << 22, 1023}} {
		pa, good := page(ik[0], ik[1])
		if !good {
			if pa == nil {
				continue
			}
			return
		}
		if len(pa.list) != 0 {
			if !wideReported[method] { // once per getter, not once per argument combination
				wideReported[method] = true
				fail("C18: wide-index: %s(page %d, size %d): index*size = %d lies past the end of a collection of %d elements, the page returns %d elements (first: %.120s) — what page %d returns", pc.name, ik[0], ik[1], uint64(ik[0])*uint64(ik[1]), n, len(pa.list), pa.list[0], (uint64(ik[0])*uint64(ik[1]))%(1<<32)/uint64(ik[1]))
			}
			c.Hit("pager-wide-index-wraps")
			continue
		}
		c.Hit("pager-wide-index")
	}
}

// rpcPagerHistory builds the ledger and sweeps every pager.
func rpcPagerHistory(c *Ctx, id int) {
	origGate := verifier.ReceiverMismatchEnforcementHeight
	origEpoch, origUpdMin, origRewardLimit := consensus.EpochDuration, constants.UpdateMinNumMomentums, constants.RewardTimeLimit
	origAdmin, origMinG, origAdminDelay, origSoftDelay, origUnhalt := constants.InitialBridgeAdministrator, constants.MinGuardians, constants.MinAdministratorDelay, constants.MinSoftDelay, constants.MinUnhaltDurationInMomentums
	defer func() {
		verifier.ReceiverMismatchEnforcementHeight = origGate
		consensus.EpochDuration, constants.UpdateMinNumMomentums, constants.RewardTimeLimit = origEpoch, origUpdMin, origRewardLimit
		constants.InitialBridgeAdministrator, constants.MinGuardians, constants.MinAdministratorDelay, constants.MinSoftDelay, constants.MinUnhaltDurationInMomentums = origAdmin, origMinG, origAdminDelay, origSoftDelay, origUnhalt
	}()
	verifier.ReceiverMismatchEnforcementHeight = 0
	constants.UpdateMinNumMomentums, constants.RewardTimeLimit = 15, 0
	n := newNodeWithEpoch(10 * time.Minute)
	defer n.Stop()
	fail := func(format string, a ...interface{}) { c.Fail("rpc run=%d pagers: %s", id, fmt.Sprintf(format, a...)) }

	znn := func(units int64) *big.Int { return new(big.Int).Mul(big.NewInt(units), big.NewInt(g.Zexp)) }
	zero := big.NewInt(0)
	xgLastSend := ""
	call := func(from, to types.Address, tok types.ZenonTokenStandard, amount *big.Int, data []byte) bool {
		_, err := n.Submit(&nom.AccountBlock{BlockType: nom.BlockTypeUserSend, Address: from, ToAddress: to, TokenStandard: tok, Amount: amount, Data: data})
		if err != nil {
			c.Hit("pager-setup-send-refused")
			c.Emit("#pager setup: send %s -> %s refused: %v", addrName(from), addrName(to), err)
			return false
		}
		xgLastSend = fmt.Sprintf("%s -> %s (%d bytes of data)", addrName(from), addrName(to), len(data))
		return true
	}
	// the cross-getter / contract-storage statement of s_rpc_xgetters.go at every step of the setup at which something happens (a
	// momentum that confirms blocks, or after which the pool holds the contracts' unconfirmed receive blocks): the bridge and
	// liquidity getters are only reachable on this ledger. One long-lived set of API objects, no random draw.
	xgSvcs := rpcServicesOf(n.Z)
	xgFails := 0
	xgFail := func(format string, a ...interface{}) {
		if xgFails++; xgFails <= 6 {
			c.Fail("rpc run=%d pagers: %s", id, fmt.Sprintf(format, a...))
		}
	}
	advance := func(k int) bool {
		for i := 0; i < k; i++ {
			dm, err := n.Momentum()
			if err != nil {
				fail("setup: momentum production failed: %v", err)
				return false
			}
			if pooled := len(n.Chain().GetAllUncommittedAccountBlocks()); len(dm.AccountBlocks) > 0 || pooled > 0 {
				xgObserve(c, n.Chain(), xgSvcs, xgFail, func() string {
					return fmt.Sprintf("pager setup at height %d: the last momentum confirmed %d block(s), %d unconfirmed block(s) in the pool; last call sent: %s", n.Height(), len(dm.AccountBlocks), pooled, xgLastSend)
				}, nil)
				c.Hit("xg-pager-setup-observation")
			}
		}
		return true
	}
	for i, sp := range []*types.ImplementedSpork{types.AcceleratorSpork, types.BridgeAndLiquiditySpork, types.HtlcSpork} {
		if err := n.ActivateSpork(sp, fmt.Sprintf("spork-%d", i)); err != nil {
			fail("setup: spork activation: %v", err)
			return
		}
	}
	u1, u2, u3, u4, u5 := g.User1.Address, g.User2.Address, g.User3.Address, g.User4.Address, g.User5.Address
	nTok := 5 + c.R.Intn(5)
	// ---- tokens: one owner with many, others with a few, interleaved in issue order
	for k := 0; k < nTok+4; k++ {
		owner := u1
		if k%3 == 1 && k/3 < 3 {
			owner = u2
		}
		if k == 5 {
			owner = u3
		}
		call(owner, types.TokenContract, types.ZnnTokenStandard, constants.TokenIssueAmount, definition.ABIToken.PackMethodPanic(definition.IssueMethodName,
			fmt.Sprintf("token-%d", k), fmt.Sprintf("TK%d", k), "", big.NewInt(int64(1000+k)), big.NewInt(int64(100000+k)), uint8(k%9), true, true, false))
		if k%4 == 3 {
			advance(1)
		}
	}
	// ---- fusions of one address to many beneficiaries (also gives the accounts without genesis plasma some)
	for k, b := range []types.Address{g.User6.Address, g.User7.Address, g.User8.Address, u2, u1, g.User6.Address, u3, g.User7.Address} {
		if k >= 5+c.R.Intn(4) {
			break
		}
		call(u1, types.PlasmaContract, types.QsrTokenStandard, znn(int64(100+k)), definition.ABIPlasma.PackMethodPanic(definition.FuseMethodName, b))
	}
	advance(2)
	// ---- stakes of one address: several durations, ties included
	for k := 0; k < 5+c.R.Intn(4); k++ {
		call(u2, types.StakeContract, types.ZnnTokenStandard, znn(int64(1+k)), definition.ABIStake.PackMethodPanic(definition.StakeMethodName, constants.StakeTimeUnitSec*int64(1+k%3)))
		if k%3 == 2 {
			advance(1)
		}
	}
	call(u1, types.StakeContract, types.ZnnTokenStandard, znn(3), definition.ABIStake.PackMethodPanic(definition.StakeMethodName, constants.StakeTimeMinSec))
	// ---- sentinels (one per owner) and two more pillars
	sentinelOwners := []types.Address{u1, u2, g.Pillar4.Address, g.Pillar5.Address, g.Pillar6.Address}
	for _, a := range sentinelOwners {
		call(a, types.SentinelContract, types.QsrTokenStandard, constants.SentinelQsrDepositAmount, definition.ABICommon.PackMethodPanic(definition.DepositQsrMethodName))
	}
	advance(2)
	for _, a := range sentinelOwners {
		call(a, types.SentinelContract, types.ZnnTokenStandard, constants.SentinelZnnRegisterAmount, definition.ABISentinel.PackMethodPanic(definition.RegisterSentinelMethodName))
	}
	for k, a := range []types.Address{g.Pillar7.Address, g.Pillar8.Address} {
		call(a, types.PillarContract, types.QsrTokenStandard, znn(190000), definition.ABICommon.PackMethodPanic(definition.DepositQsrMethodName))
		advance(2)
		call(a, types.PillarContract, types.ZnnTokenStandard, constants.PillarStakeAmount, definition.ABIPillars.PackMethodPanic(definition.RegisterMethodName,
			fmt.Sprintf("pager-pillar-%d", k), a, a, uint8(10*k), uint8(50))) // produces with its own key: the mock holds the eight pillar keys
	}
	advance(2)
	// ---- accelerator projects, more sporks
	for k := 0; k < 5+c.R.Intn(4); k++ {
		call(u3, types.AcceleratorContract, types.ZnnTokenStandard, constants.ProjectCreationAmount, definition.ABIAccelerator.PackMethodPanic(definition.CreateProjectMethodName,
			fmt.Sprintf("project-%d", k), "a project", "www.zenon.network", znn(10), znn(100)))
		if k%2 == 1 {
			advance(1) // several distinct LastUpdateTimestamps, and ties
		}
	}
	for k := 0; k < 4+c.R.Intn(3); k++ {
		call(g.Spork.Address, types.SporkContract, types.ZnnTokenStandard, zero, definition.ABISpork.PackMethodPanic(definition.SporkCreateMethodName, fmt.Sprintf("pager-spork-%d", k), "for the pager sweep"))
	}
	advance(3)
	// ---- liquidity: administrator, guardians, token tuples; then several stakes of one address
	constants.InitialBridgeAdministrator, constants.MinGuardians, constants.MinAdministratorDelay, constants.MinSoftDelay, constants.MinUnhaltDurationInMomentums = u5, 4, 20, 10, 5
	admin := u5
	guardians := []types.Address{u1, u2, u3, u4, u5}
	challenged := func(to types.Address, delay int, data []byte) bool {
		for k := 0; k < 2; k++ {
			if !call(admin, to, types.ZnnTokenStandard, zero, data) {
				return false
			}
			if !advance(2 + (1-k)*(delay+2)) {
				return false
			}
		}
		return true
	}
	liqOK := challenged(types.LiquidityContract, 20, definition.ABILiquidity.PackMethodPanic(definition.NominateGuardiansMethodName, guardians)) &&
		challenged(types.LiquidityContract, 10, definition.ABILiquidity.PackMethodPanic(definition.SetTokenTupleMethodName,
			[]string{types.ZnnTokenStandard.String(), types.QsrTokenStandard.String()}, []uint32{5000, 5000}, []uint32{5000, 5000}, []*big.Int{big.NewInt(1000), big.NewInt(2000)}))
	if liqOK {
		for k := 0; k < 5+c.R.Intn(4); k++ {
			tok := []types.ZenonTokenStandard{types.ZnnTokenStandard, types.QsrTokenStandard}[k%2]
			call(u3, types.LiquidityContract, tok, znn(int64(1+k)), definition.ABILiquidity.PackMethodPanic(definition.LiquidityStakeMethodName, constants.StakeTimeUnitSec*int64(1+k%3)))
		}
		call(u1, types.LiquidityContract, types.ZnnTokenStandard, znn(2), definition.ABILiquidity.PackMethodPanic(definition.LiquidityStakeMethodName, constants.StakeTimeUnitSec))
		advance(2)
		c.Hit("pager-state-liquidity")
	}
	// ---- bridge: orchestrator, guardians, TSS key, two networks, token pairs; wrap and unwrap requests to several destinations
	bcall := func(method string, args ...interface{}) bool {
		return call(admin, types.BridgeContract, types.ZnnTokenStandard, zero, definition.ABIBridge.PackMethodPanic(method, args...))
	}
	bchallenged := func(delay int, method string, args ...interface{}) bool {
		return challenged(types.BridgeContract, delay, definition.ABIBridge.PackMethodPanic(method, args...))
	}
	znnAddr, qsrAddr := "0x5fbdb2315678afecb367f032d93f642f64180aa3", "0x5aaeb6053f3e94c9b9a09f33669435e7ef1beaed"
	dests := []string{"0xb794f5ea0ba39494ce839613fffba74279579268", "0x71c7656ec7ab88b098defb751b7401b5f6d8976f", "0xfb6916095ca1df60bb79ce92ce3ea74c37c5d359"}
	brOK := bcall(definition.SetOrchestratorInfoMethodName, uint64(6), uint32(3), uint32(15), uint32(10)) && advance(2) &&
		bchallenged(20, definition.NominateGuardiansMethodName, guardians) &&
		bchallenged(10, definition.ChangeTssECDSAPubKeyMethodName, tssPubKey, "", "") &&
		bcall(definition.SetNetworkMethodName, bridgeNetClass, bridgeChainId, "Ethereum", "0x323b5d4c32345ced77393b3530b1eed0f346429d", "{}") &&
		bcall(definition.SetNetworkMethodName, bridgeNetClass, bridgeChainId+1, "Other", "0x323b5d4c32345ced77393b3530b1eed0f346429e", "{}") &&
		bcall(definition.SetNetworkMethodName, bridgeNetClass+1, bridgeChainId, "Third", "0x323b5d4c32345ced77393b3530b1eed0f346429f", "{}") && advance(2) &&
		bchallenged(10, definition.SetTokenPairMethod, bridgeNetClass, bridgeChainId, types.ZnnTokenStandard, znnAddr, true, true, false, big.NewInt(100), uint32(15), uint32(3), "{}") &&
		bchallenged(10, definition.SetTokenPairMethod, bridgeNetClass, bridgeChainId, types.QsrTokenStandard, qsrAddr, true, true, false, big.NewInt(100), uint32(0), uint32(3), "{}") &&
		bchallenged(10, definition.SetTokenPairMethod, bridgeNetClass, bridgeChainId+1, types.ZnnTokenStandard, znnAddr, true, true, false, big.NewInt(100), uint32(15), uint32(3), "{}")
	if brOK {
		for k := 0; k < 7+c.R.Intn(4); k++ {
			tok := []types.ZenonTokenStandard{types.ZnnTokenStandard, types.QsrTokenStandard}[k%2]
			chain := bridgeChainId
			if k%4 == 3 && tok == types.ZnnTokenStandard {
				chain++
			}
			call([]types.Address{u1, u2, u3}[k%3], types.BridgeContract, tok, znn(int64(2+k)), definition.ABIBridge.PackMethodPanic(definition.WrapTokenMethodName, bridgeNetClass, chain, dests[(k/2)%len(dests)]))
			if k%3 == 2 {
				advance(1)
			}
		}
		advance(2)
		toAddrs := []types.Address{u1, u2, u1, u3, u1, u2, u1, u1}
		for k := 0; k < 6+c.R.Intn(3) && k < len(toAddrs); k++ {
			p := &definition.UnwrapTokenParam{NetworkClass: bridgeNetClass, ChainId: bridgeChainId, LogIndex: uint32(k % 3), ToAddress: toAddrs[k],
				TokenAddress: []string{znnAddr, qsrAddr}[k%2], Amount: znn(int64(1 + k%2))}
			p.TransactionHash = types.NewHash([]byte(fmt.Sprintf("pager-eth-tx-%d-%d", id, k)))
			msg, err := implementation.GetUnwrapTokenRequestMessage(p)
			if err != nil {
				break
			}
			p.Signature = ecdsaSign(msg, tssPrivKey)
			call(u4, types.BridgeContract, types.ZnnTokenStandard, zero, definition.ABIBridge.PackMethodPanic(definition.UnwrapTokenMethodName,
				p.NetworkClass, p.ChainId, p.TransactionHash, p.LogIndex, p.ToAddress, p.TokenAddress, p.Amount, p.Signature))
			if k%3 == 2 {
				advance(1)
			}
		}
		advance(2)
		c.Hit("pager-state-bridge")
	} else {
		c.Hit("pager-state-bridge-setup-failed")
	}
	// ---- reward epochs: let three epochs (60 momentums each) pass, with Update calls to the rewarding contracts
	for e := 0; e < 3; e++ {
		if !advance(62) {
			return
		}
		for _, to := range []types.Address{types.PillarContract, types.SentinelContract, types.StakeContract, types.LiquidityContract} {
			call(u4, to, types.ZnnTokenStandard, zero, definition.ABICommon.PackMethodPanic(definition.UpdateMethodName))
		}
		advance(2)
	}
	// ---- unreceived sends to one address, and unconfirmed blocks of one address at the time of the queries
	for k := 0; k < 6; k++ {
		call([]types.Address{u1, u2}[k%2], g.User8.Address, types.ZnnTokenStandard, big.NewInt(int64(1+k)), nil)
	}
	advance(2)
	for k := 0; k < 5; k++ {
		call(u1, u2, types.ZnnTokenStandard, big.NewInt(int64(1+k)), nil)
	}

	// ---- independent totals: the definition.* readers on the frontier store
	store := n.Chain().GetFrontierMomentumStore()
	storage := func(a types.Address) db.DB { return store.GetAccountStore(a).Storage() }
	truths := map[string]int{}
	if tl, err := definition.GetTokenInfoList(storage(types.TokenContract)); err == nil {
		truths["embedded.token.getAll()"] = len(tl)
		by := map[types.Address]int{}
		for _, t := range tl {
			by[t.Owner]++
		}
		for _, a := range []types.Address{u1, u2, u3, g.Pillar1.Address} {
			truths[fmt.Sprintf("embedded.token.getByOwner(%s)", addrName(a))] = by[a]
		}
		if by[u1] < 5 {
			fail("setup: owner U1 holds only %d tokens", by[u1])
		}
	}
	if pl, err := definition.GetProjectList(storage(types.AcceleratorContract)); err == nil {
		truths["embedded.accelerator.getAll()"] = len(pl)
	}
	truths["embedded.spork.getAll()"] = len(definition.GetAllSporks(storage(types.SporkContract)))
	if pl, err := definition.GetPillarsList(storage(types.PillarContract), true, definition.AnyPillarType); err == nil {
		truths["embedded.pillar.getAll()"] = len(pl)
	}
	if nl, err := definition.GetNetworkList(storage(types.BridgeContract)); err == nil {
		truths["embedded.bridge.getAllNetworks()"] = len(nl)
	}
	{
		active := 0
		for _, s := range definition.GetAllSentinelInfo(storage(types.SentinelContract)) {
			if s.RevokeTimestamp == 0 {
				active++
			}
		}
		truths["embedded.sentinel.getAllActive()"] = active
		by := map[types.Address]int{}
		for _, e := range definition.GetAllLiquidityStakeEntries(storage(types.LiquidityContract)) {
			by[e.StakeAddress]++
		}
		for _, a := range []types.Address{u1, u2, u3} {
			truths[fmt.Sprintf("embedded.liquidity.getLiquidityStakeEntriesByAddress(%s)", addrName(a))] = by[a]
		}
	}
	if fl, err := definition.AllFusionInfoVerif(storage(types.PlasmaContract)); err == nil {
		by := map[types.Address]int{}
		for _, f := range fl {
			by[f.Owner]++
		}
		for _, a := range []types.Address{u1, u2, u3} {
			truths[fmt.Sprintf("embedded.plasma.getEntriesByAddress(%s)", addrName(a))] = by[a]
		}
	}
	if wl, err := definition.GetWrapTokenRequests(storage(types.BridgeContract)); err == nil {
		truths["embedded.bridge.getAllWrapTokenRequests()"] = len(wl)
		by := map[string]int{}
		for _, w := range wl {
			by[w.ToAddress]++
		}
		for _, d := range dests {
			truths[fmt.Sprintf("embedded.bridge.getAllWrapTokenRequestsByToAddress(%s)", d)] = by[d]
		}
	}
	if ul, err := definition.GetUnwrapTokenRequests(storage(types.BridgeContract)); err == nil {
		truths["embedded.bridge.getAllUnwrapTokenRequests()"] = len(ul)
	}

	args := &pagerArgs{
		addrs:   []types.Address{u1, u2, u3, g.User8.Address, g.Pillar1.Address, types.TokenContract},
		strings: append([]string{g.Pillar1Name, g.Pillar2Name, "pager-pillar-0", "no-such-name", u1.String(), u2.String()}, dests...),
		u64s:    []uint64{0, 1, 2, 3, 1000},
		u32s:    []uint32{bridgeNetClass, bridgeChainId, bridgeChainId + 1, 0},
		hashes:  []types.Hash{{}, types.NewHash([]byte("x"))},
	}
	pagers := findPagers(n, args)
	seenMethods := map[string]bool{}
	wideReported := map[string]bool{}
	for _, pc := range pagers {
		truth := -1
		if t, ok := truths[pc.name]; ok {
			truth = t
			c.Hit("pager-with-independent-total")
		}
		seenMethods[pc.name[:strings.Index(pc.name, "(")]] = true
		sweepPager(c, fail, pc, truth, wideReported)
	}
	c.HitN("pager-methods-found", len(seenMethods))
	for _, must := range []string{"embedded.token.getByOwner", "embedded.token.getAll", "embedded.stake.getEntriesByAddress", "embedded.plasma.getEntriesByAddress",
		"embedded.accelerator.getAll", "embedded.sentinel.getAllActive", "embedded.pillar.getAll", "embedded.spork.getAll", "embedded.bridge.getAllWrapTokenRequests",
		"embedded.liquidity.getLiquidityStakeEntriesByAddress", "ledger.getAccountBlocksByPage"} {
		if !seenMethods[must] {
			fail("harness: pager %s was not found by reflection", must)
		}
	}
	c.Hit("pager-history")
}

// rpcPagerLimit: "never more than the advertised page limit" needs a collection LARGER than the limit. Accelerator
// projects are the cheapest to mass-produce (one send of 1 ZNN each): more than RpcMaxPageSize of them are created and
// every pager over them is asked for pages larger than the limit; the answer must be an error or hold at most
// RpcMaxPageSize elements.
func rpcPagerLimit(c *Ctx, id int) {
	origGate := verifier.ReceiverMismatchEnforcementHeight
	defer func() { verifier.ReceiverMismatchEnforcementHeight = origGate }()
	verifier.ReceiverMismatchEnforcementHeight = 0
	n := NewNode()
	defer n.Stop()
	fail := func(format string, a ...interface{}) {
		c.Fail("rpc run=%d page-limit: %s", id, fmt.Sprintf(format, a...))
	}
	if err := n.ActivateSpork(types.AcceleratorSpork, "spork-acc"); err != nil {
		fail("setup: spork activation: %v", err)
		return
	}
	max := int(api.RpcMaxPageSize)
	want := max + 3 + c.R.Intn(20)
	znn := func(units int64) *big.Int { return new(big.Int).Mul(big.NewInt(units), big.NewInt(g.Zexp)) }
	owners := []types.Address{g.User1.Address, g.User2.Address, g.Pillar4.Address, g.Pillar5.Address}
	sent := 0
	for round := 0; sent < want && round < 400; round++ {
		for k := 0; k < 40 && sent < want; k++ {
			if _, err := n.Submit(&nom.AccountBlock{BlockType: nom.BlockTypeUserSend, Address: owners[sent%len(owners)], ToAddress: types.AcceleratorContract, TokenStandard: types.ZnnTokenStandard,
				Amount: constants.ProjectCreationAmount, Data: definition.ABIAccelerator.PackMethodPanic(definition.CreateProjectMethodName, fmt.Sprintf("p-%d", sent), "d", "www.zenon.network", znn(1), znn(10))}); err != nil {
				break
			}
			sent++
		}
		if _, err := n.Momentum(); err != nil {
			fail("setup: momentum: %v", err)
			return
		}
	}
	for k := 0; k < 40; k++ { // let the contract receive what is still in its inbox
		n.Momentum()
	}
	pl, err := definition.GetProjectList(n.Chain().GetFrontierMomentumStore().GetAccountStore(types.AcceleratorContract).Storage())
	if err != nil || len(pl) <= max {
		c.Hit("page-limit-setup-too-small")
		c.Emit("#page-limit setup: %d projects (sent %d): %v", len(pl), sent, err)
		return
	}
	c.Emit("#page-limit setup: %d projects", len(pl))
	args := &pagerArgs{addrs: []types.Address{g.User1.Address}, strings: []string{"x"}, u64s: []uint64{0}, u32s: []uint32{0}, hashes: []types.Hash{{}}}
	for _, pc := range findPagers(n, args) {
		for _, k := range []uint32{uint32(max), uint32(max) + 1, uint32(len(pl)), 1 << 20, 1<<32 - 1} {
			var res interface{}
			var err error
			if p := safely(func() { res, err = pc.f(0, k) }); p != "" {
				fail("C18: %s(page 0, size %d) panicked: %s", pc.name, k, p)
				continue
			}
			if err != nil {
				continue
			}
			pa, ok := parsePaged(res)
			if !ok {
				continue
			}
			c.Hit("page-limit-asked")
			if len(pa.list) > max {
				fail("C18: page-limit: %s(page 0, size %d) returns %d elements; the advertised page limit is %d", pc.name, k, len(pa.list), max)
				break
			}
		}
	}
}
