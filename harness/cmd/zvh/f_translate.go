package main

// f_translate.go — Go → Lean TRANSLATOR for a strict integer subset of go-zenon (DESIGN.md §2 L12, §6).
//
// `zvh facts` parses the curated functions / fragments of trSpecs (f_translate_specs.go) from the working tree of /repo
// and writes their bodies, translated construct by construct, to lean/ZenonVerif/Gen/Translated.lean. The theorems of
// lean/ZenonVerif/Props/Translated.lean pin every translated definition to the hand-written model, so an edit of the Go
// text that changes behaviour breaks a proof obligation on the next run.
//
// STRICT: whatever is outside the subset is REFUSED — the definition is replaced by `def <name>_UNTRANSLATABLE`, the
// pinned theorem no longer elaborates and the check reports it. Nothing is guessed.
//
// Subset and semantics (the Lean side of every operation is in lean/ZenonVerif/Model/GoSem.lean):
//   types      uint64, int64, int (64-bit), time.Duration ↦ BitVec 64; uint32 ↦ BitVec 32; bool ↦ Bool; *big.Int ↦ Int
//              (a *big.Int parameter that the body compares with nil ↦ Option Int, every other use of it is guarded as a
//              panic; other pointer parameters are ASSUMED non-nil); named `[N]byte` types (types.Hash) and `[8]byte`
//              ↦ List Nat; error ↦ Option String; fields `p.F` of (pointers to) structs are flattened to parameters p_F
//   constants  literals, package-level constants (also of other packages of the repository) evaluated exactly with
//              go/constant (untyped integer division truncates, untyped floats stay exact, conversion to an integer type
//              must be exact and in range); package-level VARIABLES with an initialiser in the subset are read at their
//              INITIAL value (`<pkg>_<Name>_init`), on the assumption that nothing reassigns them
//   expressions + - * & | ^ with wrap-around (BitVec), / % (unsigned: udiv/umod, signed: sdiv/srem = truncation toward zero);
//              a divisor that is not a non-zero constant adds the panic guard `divisor == 0` in front of the statement;
//              << >> by a constant or unsigned count; == != < <= > >= (signed on toInt); && || ! with short-circuit
//              (guards of the right operand are conjoined with the left operand's value); conversions between the integer
//              types (zero-extension / truncation / reinterpretation); bytes.Compare; big.NewInt, new(big.Int),
//              Cmp, Sign, Uint64, IsUint64, BitLen, Add, Sub, Mul, Quo, Div, Exp(x,y,nil), Set, SetUint64, SetInt64 — mutating
//              methods only on a fresh value or on a local that owns a fresh value (no aliasing: `x := y` of pointers,
//              mutation of parameters / package variables are refused); x.Bytes() / x[:] of a byte array = the bytes;
//              calls of other translated whole functions that cannot panic
//   statements := = op= ++ -- on locals / flattened fields (let-rebinding; shadowing refused), var, if / else if / else
//              with init, return (tuples), blocks, panic(...), binary.LittleEndian.PutUint64(a[:], v) on a local [8]byte.
//              Counting loops `for i := a; i < b; i++` / `i <= C` / `for i := a; i > b; i--` / `i >= C` (64-bit counter the body does
//              not assign, loop-invariant bound, unit step) and `for i[, v] := range xs` over a byte slice / table ↦ a fold
//              (`Go.forIn`) over the counter's values carrying the locals the body assigns; `continue`, `break`, `return`
//              inside; nested loops refused. Expression / tagless `switch` without init, fallthrough, break ↦ if-chain.
//              No goto, defer, closures, labels.
//   slices     `[]byte` parameters ↦ List Nat; `x[i]` on byte slices / arrays and on package-level tables (`[]int64`,
//              `[]uint64`, `[]int` composite literals whose elements are in the subset, read at their INITIAL value) with Go's
//              bounds panic explicit (`Go.oobS` / `Go.oobU`); `len(x)`; a byte element is only compared or widened
//   helpers    a call of a repository function whose name starts with min / max and that is not in the curated list is
//              translated on demand (`<pkg>_<Name>`) and refused with the helper's reason when it is outside the subset
// Results: a function without panic sites ↦ its value; otherwise Go.Res (ok / panic). A FRAGMENT (consecutive statements
// cut out of a larger function, inputs named by the spec) ↦ Go.Res of its output variables; a `return` inside ↦ exit k.

import (
	"bytes"
	"fmt"
	"go/ast"
	"go/constant"
	"go/parser"
	"go/printer"
	"go/token"
	"math/big"
	"os"
	"path/filepath"
	"sort"
	"strconv"
	"strings"
)

const trModulePath = "github.com/zenon-network/go-zenon/"

type gty int

const (
	tBad gty = iota
	tU64
	tU32
	tI64
	tInt
	tBool
	tBig
	tBigOpt
	tBytes // named [N]byte array or [8]byte
	tErr
	tUInt   // untyped integer constant
	tUFloat // untyped float constant
	tNil
	tByte  // element of a byte slice / byte array: a Nat < 256, comparisons and widening conversions only
	tSlI64 // []int64 table
	tSlU64 // []uint64 table
	tSlInt // []int table
	tSlProj  // slice of (pointers to) a repository struct, PROJECTED to the one 64-bit field the function reads of its elements
	tProjElem // element of such a slice: can be moved (append) and have that field selected, nothing else
)

func (t gty) isTab() bool { return t == tSlI64 || t == tSlU64 || t == tSlInt || t == tSlProj }
func (t gty) elem() gty {
	switch t {
	case tSlI64:
		return tI64
	case tSlU64:
		return tU64
	case tSlInt:
		return tInt
	case tBytes:
		return tByte
	case tSlProj:
		return tProjElem
	}
	return tBad
}

func (t gty) lean() string {
	switch t {
	case tU64, tI64, tInt:
		return "BitVec 64"
	case tU32:
		return "BitVec 32"
	case tBool:
		return "Bool"
	case tBig:
		return "Int"
	case tBigOpt:
		return "Option Int"
	case tBytes:
		return "List Nat"
	case tErr:
		return "Option String"
	case tByte:
		return "Nat"
	case tSlI64, tSlU64, tSlInt, tSlProj:
		return "List (BitVec 64)"
	case tProjElem:
		return "BitVec 64"
	}
	return "UNSUPPORTED"
}
func (t gty) isInt() bool    { return t == tU64 || t == tU32 || t == tI64 || t == tInt }
func (t gty) isSigned() bool { return t == tI64 || t == tInt }
func (t gty) width() int {
	if t == tU32 {
		return 32
	}
	return 64
}

var trBasic = map[string]gty{"uint64": tU64, "uint32": tU32, "int64": tI64, "int": tInt, "bool": tBool, "error": tErr,
	"time.Duration": tI64}

type trIn struct{ expr, ty, name string } // printed Go expression taken as an input, its Go type, its Lean name

type trSpec struct {
	name string // Lean definition name
	file string // path below the repository root
	fn   string // function name; methods as "recvType.Name"
	from string // fragment: printed-source prefix of its first statement ("" = the whole function)
	occ  int    // fragment: which match, in source order
	n    int    // fragment: number of consecutive statements (0 with tail = to the end of the block)
	tail bool   // fragment runs to the end of the function body: `return` yields the function's results
	expr string // fragment: translate only this sub-expression of the located statement
	ins  []trIn // inputs that are not parameters (fragment: all inputs)
	outs []string
}

type trErr struct{ msg string }

func (e trErr) Error() string { return e.msg }
func refuse(format string, a ...interface{}) {
	panic(trErr{fmt.Sprintf(format, a...)})
}

// ---- packages of the repository, parsed on demand ---------------------------------------------------------------------

type trDecl struct {
	file *ast.File
	spec *ast.ValueSpec
	idx  int
	tok  token.Token
}
type trPkg struct {
	dir    string
	files  []*ast.File
	values map[string]trDecl
	types  map[string]struct {
		file *ast.File
		spec *ast.TypeSpec
	}
	funcs map[string]struct {
		file *ast.File
		decl *ast.FuncDecl
	}
	assigned map[string]bool // package-level names assigned somewhere in the package (outside their declaration)
}

type translator struct {
	repo  string
	fset  *token.FileSet
	pkgs  map[string]*trPkg
	inits map[string]string // emitted `<pkg>_<var>_init` definitions
	order []string
	specs map[string]*trSpec // by "dir.func" for whole functions
	sigs  map[string]*trSig  // translated whole functions, by Lean name
	helpers []string         // definitions of min / max helpers translated on demand
}

type trSig struct {
	params   []gty
	results  []gty
	mayPanic bool
}

func (t *translator) pkg(dir string) *trPkg {
	if p, ok := t.pkgs[dir]; ok {
		return p
	}
	p := &trPkg{dir: dir, values: map[string]trDecl{}, assigned: map[string]bool{}}
	p.types = map[string]struct {
		file *ast.File
		spec *ast.TypeSpec
	}{}
	p.funcs = map[string]struct {
		file *ast.File
		decl *ast.FuncDecl
	}{}
	ents, err := os.ReadDir(filepath.Join(t.repo, dir))
	if err != nil {
		refuse("package directory %s: %v", dir, err)
	}
	for _, e := range ents {
		n := e.Name()
		if e.IsDir() || !strings.HasSuffix(n, ".go") || strings.HasSuffix(n, "_test.go") || strings.HasSuffix(n, "_verif.go") {
			continue
		}
		f, err := parser.ParseFile(t.fset, filepath.Join(t.repo, dir, n), nil, 0)
		if err != nil {
			refuse("parse %s/%s: %v", dir, n, err)
		}
		p.files = append(p.files, f)
		for _, d := range f.Decls {
			switch d := d.(type) {
			case *ast.GenDecl:
				for _, s := range d.Specs {
					switch s := s.(type) {
					case *ast.ValueSpec:
						for i, id := range s.Names {
							p.values[id.Name] = trDecl{f, s, i, d.Tok}
						}
					case *ast.TypeSpec:
						p.types[s.Name.Name] = struct {
							file *ast.File
							spec *ast.TypeSpec
						}{f, s}
					}
				}
			case *ast.FuncDecl:
				name := d.Name.Name
				if d.Recv != nil && len(d.Recv.List) == 1 {
					rt := d.Recv.List[0].Type
					if st, ok := rt.(*ast.StarExpr); ok {
						rt = st.X
					}
					if id, ok := rt.(*ast.Ident); ok {
						name = id.Name + "." + name
					}
				}
				p.funcs[name] = struct {
					file *ast.File
					decl *ast.FuncDecl
				}{f, d}
			}
		}
		// assignments to package-level names anywhere in the package
		ast.Inspect(f, func(n ast.Node) bool {
			if as, ok := n.(*ast.AssignStmt); ok && as.Tok != token.DEFINE {
				for _, l := range as.Lhs {
					if ix, ok := l.(*ast.IndexExpr); ok {
						l = ix.X // element assignment `T[i] = v`
					}
					if id, ok := l.(*ast.Ident); ok {
						p.assigned[id.Name] = true
					}
				}
			}
			return true
		})
	}
	t.pkgs[dir] = p
	return p
}

// importDir resolves a package qualifier used in file f to a directory of the repository ("" = not of the repository)
func (t *translator) importPath(f *ast.File, qual string) string {
	for _, im := range f.Imports {
		path, _ := strconv.Unquote(im.Path.Value)
		name := path[strings.LastIndex(path, "/")+1:]
		if im.Name != nil {
			name = im.Name.Name
		}
		if name == qual {
			return path
		}
	}
	return ""
}

func (t *translator) src(n ast.Node) string {
	var b bytes.Buffer
	printer.Fprint(&b, t.fset, n)
	return strings.Join(strings.Fields(b.String()), " ")
}

// ---- one function / fragment ------------------------------------------------------------------------------------------

type tval struct {
	lean string
	ty   gty
	cv   constant.Value // compile-time constant (lean is empty until it is given a type)
	frsh bool           // *big.Int: a freshly allocated value nobody else points to
	err  string         // tErr constant: "" = nil
}

type trState struct {
	vars  map[string]gty  // Go name (printed expression for inputs) → type
	lname map[string]string
	owned map[string]bool // local *big.Int variables that own a fresh value
}

func (s *trState) clone() *trState {
	c := &trState{map[string]gty{}, map[string]string{}, map[string]bool{}}
	for k, v := range s.vars {
		c.vars[k] = v
	}
	for k, v := range s.lname {
		c.lname[k] = v
	}
	for k, v := range s.owned {
		c.owned[k] = v
	}
	return c
}

type trFn struct {
	t        *translator
	spec     *trSpec
	pkg      *trPkg
	file     *ast.File
	results  []gty
	wrap     bool // results are wrapped in Go.Res
	frag     bool
	sawPanic bool
	sawExit  bool
	guards   []string
	pending  []string // panic conditions of the statement being translated
	exits    map[token.Pos]int
	nilable  map[string]bool
	size     int
	projField string // the one field selected on elements of struct slices (`xs[i].F`), "" = none
	projTy    gty
	appendTarget string // the variable being assigned: `x = append(x, …)` / `x = x[:0]` are allowed only back onto x
	loop     *trLoop // the loop whose body is being translated (nil outside loops; nested loops are refused)
	sawLoop  bool
}

// trLoop: the loop-carried variables (locals / inputs assigned in the body), in a fixed order
type trLoop struct{ keys []string }

var leanKeywords = map[string]bool{"end": true, "from": true, "at": true, "have": true, "show": true, "by": true, "fun": true,
	"let": true, "in": true, "do": true, "then": true, "else": true, "if": true, "match": true, "with": true, "open": true,
	"def": true, "theorem": true, "section": true, "namespace": true, "instance": true, "structure": true, "class": true,
	"where": true, "deriving": true, "variable": true, "universe": true, "local": true, "prefix": true, "infix": true,
	"notation": true, "macro": true, "syntax": true, "import": true, "export": true, "mutual": true, "private": true,
	"protected": true, "partial": true, "unsafe": true, "nomatch": true, "calc": true, "this": true, "Type": true, "Prop": true,
	"Sort": true, "example": true, "abbrev": true, "inductive": true, "extends": true, "for": true, "return": true, "try": true,
	"catch": true, "finally": true, "unless": true, "mut": true, "break": true, "continue": true, "using": true,
	"suffices": true, "obtain": true, "fun_": true, "max": true, "min": true, "id": true, "some": true, "none": true}

func leanName(goExpr string) string {
	var b strings.Builder
	for _, r := range goExpr {
		if r == '_' || (r >= '0' && r <= '9') || (r >= 'a' && r <= 'z') || (r >= 'A' && r <= 'Z') {
			b.WriteRune(r)
		} else if r == '.' {
			b.WriteByte('_')
		}
	}
	n := b.String()
	if leanKeywords[n] {
		n += "_"
	}
	return n
}

func (f *trFn) typeOf(file *ast.File, e ast.Expr) gty {
	switch e := e.(type) {
	case *ast.Ident:
		if t, ok := trBasic[e.Name]; ok {
			return t
		}
		// named type of the same package
		if f != nil {
			return f.namedType(f.t.pkgOfFile(file), e.Name)
		}
	case *ast.SelectorExpr:
		if q, ok := e.X.(*ast.Ident); ok {
			if t, ok := trBasic[q.Name+"."+e.Sel.Name]; ok {
				return t
			}
			path := f.t.importPath(file, q.Name)
			if strings.HasPrefix(path, trModulePath) {
				return f.namedType(f.t.pkg(strings.TrimPrefix(path, trModulePath)), e.Sel.Name)
			}
		}
	case *ast.StarExpr:
		if s, ok := e.X.(*ast.SelectorExpr); ok {
			if q, ok := s.X.(*ast.Ident); ok && s.Sel.Name == "Int" && f.t.importPath(file, q.Name) == "math/big" {
				return tBig
			}
		}
	case *ast.ArrayType:
		if id, ok := e.Elt.(*ast.Ident); ok && (id.Name == "byte" || id.Name == "uint8") {
			return tBytes // [N]byte and []byte: the bytes
		}
		if e.Len == nil && f != nil && f.projField != "" {
			if fty, _, _ := f.structField(file, e.Elt, f.projField); fty == tU64 || fty == tI64 || fty == tInt {
				if f.projTy == tBad {
					f.projTy = fty
				}
				if f.projTy == fty {
					return tSlProj
				}
			}
		}
		if id, ok := e.Elt.(*ast.Ident); ok && e.Len == nil {
			switch id.Name {
			case "int64":
				return tSlI64
			case "uint64":
				return tSlU64
			case "int":
				return tSlInt
			}
		}
	}
	return tBad
}

func (t *translator) pkgOfFile(file *ast.File) *trPkg {
	for _, p := range t.pkgs {
		for _, f := range p.files {
			if f == file {
				return p
			}
		}
	}
	refuse("file of an unknown package")
	return nil
}

// namedType: a named type is in the subset iff it is declared as a byte array (types.Hash) or as one of the basic types
func (f *trFn) namedType(p *trPkg, name string) gty {
	d, ok := p.types[name]
	if !ok {
		return tBad
	}
	if _, isStruct := d.spec.Type.(*ast.StructType); isStruct {
		return tBad
	}
	return f.typeOf(d.file, d.spec.Type)
}

// structField resolves the type of field `field` of the (pointer to) struct type expression `te` seen in `file`
func (f *trFn) structField(file *ast.File, te ast.Expr, field string) (gty, *ast.File, ast.Expr) {
	if st, ok := te.(*ast.StarExpr); ok {
		te = st.X
	}
	var p *trPkg
	var name string
	switch e := te.(type) {
	case *ast.Ident:
		p, name = f.t.pkgOfFile(file), e.Name
	case *ast.SelectorExpr:
		q, ok := e.X.(*ast.Ident)
		if !ok {
			return tBad, nil, nil
		}
		path := f.t.importPath(file, q.Name)
		if !strings.HasPrefix(path, trModulePath) {
			return tBad, nil, nil
		}
		p, name = f.t.pkg(strings.TrimPrefix(path, trModulePath)), e.Sel.Name
	default:
		return tBad, nil, nil
	}
	d, ok := p.types[name]
	if !ok {
		return tBad, nil, nil
	}
	st, ok := d.spec.Type.(*ast.StructType)
	if !ok {
		return tBad, nil, nil
	}
	for _, fl := range st.Fields.List {
		for _, n := range fl.Names {
			if n.Name == field {
				return f.typeOf(d.file, fl.Type), d.file, fl.Type
			}
		}
	}
	return tBad, nil, nil
}

func (f *trFn) lit(cv constant.Value, ty gty) string {
	iv := constant.ToInt(cv)
	if iv.Kind() != constant.Int {
		refuse("constant %s is not an integer, cannot become %s", cv.ExactString(), ty.lean())
	}
	b, ok := new(big.Int).SetString(iv.ExactString(), 10)
	if !ok {
		refuse("constant %s", iv.ExactString())
	}
	two := func(k uint) *big.Int { return new(big.Int).Lsh(big.NewInt(1), k) }
	switch {
	case ty == tByte:
		if b.Sign() < 0 || b.Cmp(big.NewInt(256)) >= 0 {
			refuse("constant %s overflows byte", b)
		}
		return fmt.Sprintf("(%s : Nat)", b.String())
	case ty == tBig:
		return fmt.Sprintf("(%s : Int)", b.String())
	case ty == tU64 || ty == tU32:
		if b.Sign() < 0 || b.Cmp(two(uint(ty.width()))) >= 0 {
			refuse("constant %s overflows %s", b, ty.lean())
		}
		return fmt.Sprintf("%s#%d", b, ty.width())
	case ty.isSigned():
		if b.Cmp(new(big.Int).Neg(two(63))) < 0 || b.Cmp(two(63)) >= 0 {
			refuse("constant %s overflows int64", b)
		}
		if b.Sign() < 0 {
			b.Add(b, two(64)) // two's complement
		}
		return fmt.Sprintf("%s#64", b)
	}
	refuse("constant %s used as %s", b, ty.lean())
	return ""
}

// typed gives an untyped constant the type ty (or checks that v already has it)
func (f *trFn) typed(v tval, ty gty) tval {
	if v.ty == ty {
		if v.cv != nil && v.lean == "" && ty != tBool {
			v.lean = f.lit(v.cv, ty)
		}
		return v
	}
	if v.cv != nil && (v.ty == tUInt || v.ty == tUFloat) && (ty.isInt() || ty == tByte) {
		return tval{lean: f.lit(v.cv, ty), ty: ty, cv: v.cv}
	}
	if v.ty == tNil && ty == tErr {
		return tval{lean: "none", ty: tErr}
	}
	if v.ty == tBigOpt && ty == tBig {
		return v
	}
	refuse("type mismatch: %s used as %s", v.ty.lean(), ty.lean())
	return v
}

func (f *trFn) panicSite(cond string) {
	f.sawPanic = true
	all := append(append([]string{}, f.guards...), cond)
	f.pending = append(f.pending, "("+strings.Join(all, " && ")+")")
}

// flush returns the guard line for the panic conditions collected while translating the current statement
func (f *trFn) flush() string {
	if len(f.pending) == 0 {
		return ""
	}
	s := "if (" + strings.Join(f.pending, " || ") + ") then " + f.leave("Go.Res.panic") + " else\n"
	f.pending = nil
	return s
}

// leave wraps an outcome that leaves the function (return / panic / exit) when it occurs inside a loop body
func (f *trFn) leave(res string) string {
	if f.loop != nil {
		return "Go.Step.done (" + res + ")"
	}
	return res
}

// loopState: the tuple of the loop-carried variables as they are named now
func (f *trFn) loopState(st *trState) string {
	if len(f.loop.keys) == 0 {
		return "()"
	}
	ns := []string{}
	for _, k := range f.loop.keys {
		ns = append(ns, st.lname[k])
	}
	return tuple(ns)
}

func (f *trFn) constDecl(p *trPkg, name string, qual string) (tval, bool) {
	d, ok := p.values[name]
	if !ok {
		return tval{}, false
	}
	if d.idx >= len(d.spec.Values) {
		refuse("%s.%s: declaration without its own value (iota / repetition) is outside the subset", p.dir, name)
	}
	g := &trFn{t: f.t, pkg: p, file: d.file, nilable: map[string]bool{}}
	st := &trState{map[string]gty{}, map[string]string{}, map[string]bool{}}
	if d.tok == token.CONST {
		v := g.expr(st, d.spec.Values[d.idx])
		if v.cv == nil {
			refuse("%s.%s: constant expression outside the subset", p.dir, name)
		}
		if d.spec.Type != nil {
			ty := g.typeOf(d.file, d.spec.Type)
			if ty == tBad {
				refuse("%s.%s: constant of unsupported type", p.dir, name)
			}
			v = g.typed(v, ty)
		}
		return v, true
	}
	// package-level variable: error sentinel, or a value read at its initial value
	if strings.HasPrefix(name, "Err") {
		return tval{lean: fmt.Sprintf("(some %q)", name), ty: tErr, err: name}, true
	}
	if p.assigned[name] {
		refuse("%s.%s: package variable is assigned somewhere in its package; reading it at its initial value would be a guess", p.dir, name)
	}
	v := g.expr(st, d.spec.Values[d.idx])
	if len(g.pending) > 0 {
		refuse("%s.%s: initialiser can panic", p.dir, name)
	}
	ty := v.ty
	if d.spec.Type != nil {
		ty = g.typeOf(d.file, d.spec.Type)
	} else if v.ty == tUInt {
		ty = tInt
	}
	if ty == tBad || ty == tUFloat {
		refuse("%s.%s: variable of unsupported type", p.dir, name)
	}
	v = g.typed(v, ty)
	ln := leanName(strings.ReplaceAll(p.dir, "/", "_") + "_" + name + "_init")
	if _, done := f.t.inits[ln]; !done {
		f.t.inits[ln] = fmt.Sprintf("/-- %s: package variable `%s`, read at its initial value `%s` -/\ndef %s : %s := %s\n",
			p.dir, name, f.t.src(d.spec.Values[d.idx]), ln, ty.lean(), v.lean)
		f.t.order = append(f.t.order, ln)
	}
	return tval{lean: ln, ty: ty}, true
}

func (f *trFn) useBig(st *trState, v tval) tval {
	if v.ty == tBigOpt {
		f.panicSite(v.lean + ".isNone")
		return tval{lean: "(" + v.lean + ".getD 0)", ty: tBig}
	}
	if v.ty == tUInt {
		return f.typed(v, tBig)
	}
	if v.ty != tBig {
		refuse("*big.Int expected, found %s", v.ty.lean())
	}
	return v
}

var bigPure = map[string]bool{"Cmp": true, "Sign": true, "Uint64": true, "IsUint64": true, "BitLen": true}
var bigMut = map[string]int{"Add": 2, "Sub": 2, "Mul": 2, "Quo": 2, "Div": 2, "Exp": 3, "Set": 1, "SetUint64": 1, "SetInt64": 1}

// bigMethod translates recv.M(args) given the receiver's value; returns the value of the call
func (f *trFn) bigMethod(st *trState, m string, args []ast.Expr) tval {
	arg := func(i int) tval { return f.useBig(st, f.expr(st, args[i])) }
	switch m {
	case "Add":
		return tval{lean: "(" + arg(0).lean + " + " + arg(1).lean + ")", ty: tBig, frsh: true}
	case "Sub":
		return tval{lean: "(" + arg(0).lean + " - " + arg(1).lean + ")", ty: tBig, frsh: true}
	case "Mul":
		return tval{lean: "(" + arg(0).lean + " * " + arg(1).lean + ")", ty: tBig, frsh: true}
	case "Quo", "Div":
		a, b := arg(0), arg(1)
		f.panicSite("(" + b.lean + " == 0)")
		return tval{lean: "(Go.big" + m + " " + a.lean + " " + b.lean + ")", ty: tBig, frsh: true}
	case "Exp":
		if id, ok := args[2].(*ast.Ident); !ok || id.Name != "nil" {
			refuse("big.Int.Exp with a modulus")
		}
		return tval{lean: "(Go.bigExp " + arg(0).lean + " " + arg(1).lean + ")", ty: tBig, frsh: true}
	case "Set":
		return tval{lean: arg(0).lean, ty: tBig, frsh: true}
	case "SetUint64":
		return tval{lean: "(Go.bigOfU64 " + f.typed(f.expr(st, args[0]), tU64).lean + ")", ty: tBig, frsh: true}
	case "SetInt64":
		return tval{lean: "(Go.bigOfI64 " + f.typed(f.expr(st, args[0]), tI64).lean + ")", ty: tBig, frsh: true}
	}
	refuse("big.Int method %s", m)
	return tval{}
}

func (f *trFn) lookup(st *trState, key string) (tval, bool) {
	if ty, ok := st.vars[key]; ok {
		return tval{lean: st.lname[key], ty: ty}, true
	}
	return tval{}, false
}

func (f *trFn) expr(st *trState, e ast.Expr) tval {
	f.size++
	if f.size > 4000 {
		refuse("translation too large")
	}
	// inputs named by their printed expression (flattened fields, opaque calls)
	switch e.(type) {
	case *ast.SelectorExpr, *ast.CallExpr:
		if v, ok := f.lookup(st, f.t.src(e)); ok {
			return v
		}
	}
	switch e := e.(type) {
	case *ast.ParenExpr:
		return f.expr(st, e.X)
	case *ast.BasicLit:
		switch e.Kind {
		case token.INT:
			return tval{ty: tUInt, cv: constant.MakeFromLiteral(e.Value, token.INT, 0)}
		case token.FLOAT:
			return tval{ty: tUFloat, cv: constant.MakeFromLiteral(e.Value, token.FLOAT, 0)}
		}
		refuse("literal %s", e.Value)
	case *ast.Ident:
		if v, ok := f.lookup(st, e.Name); ok {
			return v
		}
		switch e.Name {
		case "true", "false":
			return tval{lean: e.Name, ty: tBool, cv: constant.MakeBool(e.Name == "true")}
		case "nil":
			return tval{ty: tNil}
		case "iota":
			refuse("iota")
		}
		if v, ok := f.constDecl(f.pkg, e.Name, ""); ok {
			return v
		}
		refuse("identifier %s is not a local of the subset, an input, or a package-level constant", e.Name)
	case *ast.SelectorExpr:
		if ix, ok := e.X.(*ast.IndexExpr); ok {
			v := f.expr(st, ix)
			if v.ty == tProjElem && e.Sel.Name == f.projField {
				return tval{lean: v.lean, ty: f.projTy} // the projection IS the field
			}
			refuse("selector %s", f.t.src(e))
		}
		if q, ok := e.X.(*ast.Ident); ok {
			if _, isLocal := st.vars[q.Name]; !isLocal {
				if path := f.t.importPath(f.file, q.Name); strings.HasPrefix(path, trModulePath) {
					if v, ok := f.constDecl(f.t.pkg(strings.TrimPrefix(path, trModulePath)), e.Sel.Name, q.Name); ok {
						return v
					}
				}
			}
		}
		refuse("selector %s is neither an input / flattened field nor a constant of the repository", f.t.src(e))
	case *ast.SliceExpr:
		if e.Low == nil && e.High == nil && e.Max == nil {
			if v := f.expr(st, e.X); v.ty == tBytes {
				return v
			}
		}
		if e.Low == nil && e.Max == nil && e.High != nil && f.t.src(e.High) == "0" {
			if v := f.expr(st, e.X); v.ty == tSlProj && f.appendTarget != "" && f.appendTarget == f.t.src(e.X) {
				return tval{lean: "[]", ty: tSlProj, frsh: true} // x = x[:0]: the empty slice, still the only owner of its array
			}
		}
		refuse("slice expression %s", f.t.src(e))
	case *ast.CompositeLit:
		if f.typeOf(f.file, e.Type) == tBytes && len(e.Elts) == 0 {
			if at, ok := e.Type.(*ast.ArrayType); ok {
				if l, ok := at.Len.(*ast.BasicLit); ok && l.Value == "8" {
					return tval{lean: "Go.zero8", ty: tBytes}
				}
			}
		}
		if ty := f.typeOf(f.file, e.Type); ty.isTab() {
			elts := []string{}
			for _, el := range e.Elts {
				if _, kv := el.(*ast.KeyValueExpr); kv {
					refuse("keyed element in the table %s", f.t.src(e.Type))
				}
				// a constant, or an expression over package variables read at their initial value (a panic site in
				// it is refused by the caller: `initialiser can panic`)
				elts = append(elts, f.typed(f.expr(st, el), ty.elem()).lean)
			}
			return tval{lean: "[" + strings.Join(elts, ", ") + "]", ty: ty}
		}
		refuse("composite literal %s", f.t.src(e))
	case *ast.IndexExpr:
		// x[i] with Go's bounds check explicit: out of range = run-time panic
		x := f.expr(st, e.X)
		if x.ty != tBytes && !x.ty.isTab() {
			refuse("indexing of %s", f.t.src(e.X))
		}
		i := f.expr(st, e.Index)
		if i.cv != nil && (i.ty == tUInt || i.ty == tUFloat) {
			i = f.typed(i, tInt)
		} else if i.cv != nil && i.lean == "" {
			i = f.typed(i, i.ty)
		}
		if !i.ty.isInt() {
			refuse("index %s of type %s", f.t.src(e.Index), i.ty.lean())
		}
		il, oob := i.lean, "Go.oobS"
		if !i.ty.isSigned() {
			oob = "Go.oobU"
		}
		if i.ty == tU32 {
			il = "(BitVec.setWidth 64 " + il + ")"
		}
		f.panicSite("(" + oob + " " + x.lean + " " + il + ")")
		at := "Go.atW"
		if x.ty == tBytes {
			at = "Go.atB"
		}
		return tval{lean: "(" + at + " " + x.lean + " " + il + ")", ty: x.ty.elem()}
	case *ast.UnaryExpr:
		v := f.expr(st, e.X)
		switch e.Op {
		case token.NOT:
			v = f.typed(v, tBool)
			if v.cv != nil {
				b := !constant.BoolVal(v.cv)
				return tval{lean: fmt.Sprint(b), ty: tBool, cv: constant.MakeBool(b)}
			}
			return tval{lean: "(!" + v.lean + ")", ty: tBool}
		case token.SUB, token.ADD:
			if v.cv != nil && (v.ty == tUInt || v.ty == tUFloat) {
				return tval{ty: v.ty, cv: constant.UnaryOp(e.Op, v.cv, 0)}
			}
			if v.ty.isInt() && v.cv == nil {
				if e.Op == token.ADD {
					return v
				}
				return tval{lean: "(-" + v.lean + ")", ty: v.ty}
			}
		}
		refuse("unary %s on %s", e.Op, v.ty.lean())
	case *ast.BinaryExpr:
		return f.binary(st, e)
	case *ast.CallExpr:
		return f.call(st, e)
	}
	refuse("expression %s", f.t.src(e))
	return tval{}
}

func (f *trFn) binary(st *trState, e *ast.BinaryExpr) tval {
	if e.Op == token.LAND || e.Op == token.LOR {
		a := f.typed(f.expr(st, e.X), tBool)
		g := a.lean
		if e.Op == token.LOR {
			g = "(!" + a.lean + ")"
		}
		f.guards = append(f.guards, g)
		b := f.typed(f.expr(st, e.Y), tBool)
		f.guards = f.guards[:len(f.guards)-1]
		op := map[token.Token]string{token.LAND: "&&", token.LOR: "||"}[e.Op]
		return tval{lean: "(" + a.lean + " " + op + " " + b.lean + ")", ty: tBool}
	}
	a, b := f.expr(st, e.X), f.expr(st, e.Y)
	isCmp := e.Op == token.EQL || e.Op == token.NEQ || e.Op == token.LSS || e.Op == token.LEQ || e.Op == token.GTR || e.Op == token.GEQ
	isShift := e.Op == token.SHL || e.Op == token.SHR
	untyped := func(v tval) bool { return v.cv != nil && (v.ty == tUInt || v.ty == tUFloat) }
	// constant folding, exact (go/constant)
	if untyped(a) && untyped(b) && !isShift {
		ty := tUInt
		if a.ty == tUFloat || b.ty == tUFloat {
			ty = tUFloat
		}
		if isCmp {
			r := constant.Compare(a.cv, e.Op, b.cv)
			return tval{lean: fmt.Sprint(r), ty: tBool, cv: constant.MakeBool(r)}
		}
		op := e.Op
		if op == token.QUO || op == token.REM {
			if constant.Sign(b.cv) == 0 {
				refuse("constant division by zero")
			}
			if ty == tUInt && op == token.QUO {
				op = token.QUO_ASSIGN // integer division of untyped integer constants truncates
			}
			if ty == tUFloat && op == token.REM {
				refuse("%% on float constants")
			}
		}
		switch op {
		case token.ADD, token.SUB, token.MUL, token.QUO, token.QUO_ASSIGN, token.REM:
			return tval{ty: ty, cv: constant.BinaryOp(a.cv, op, b.cv)}
		}
		refuse("constant operator %s", e.Op)
	}
	if isShift {
		if !a.ty.isInt() || a.cv != nil {
			refuse("shift of %s", f.t.src(e.X))
		}
		var cnt string
		if b.cv != nil {
			n, ok := constant.Uint64Val(constant.ToInt(b.cv))
			if !ok {
				refuse("shift count %s", f.t.src(e.Y))
			}
			cnt = fmt.Sprint(n)
		} else if b.ty == tU64 || b.ty == tU32 {
			cnt = "(BitVec.toNat " + b.lean + ")"
		} else {
			refuse("shift by a signed variable count (can panic)")
		}
		switch {
		case e.Op == token.SHL:
			return tval{lean: "(" + a.lean + " <<< " + cnt + ")", ty: a.ty}
		case a.ty.isSigned():
			return tval{lean: "(BitVec.sshiftRight " + a.lean + " " + cnt + ")", ty: a.ty}
		default:
			return tval{lean: "(" + a.lean + " >>> " + cnt + ")", ty: a.ty}
		}
	}
	// nil comparisons
	if isCmp && (a.ty == tNil || b.ty == tNil) {
		if e.Op != token.EQL && e.Op != token.NEQ {
			refuse("ordering comparison with nil")
		}
		v := a
		if a.ty == tNil {
			v = b
		}
		var s string
		switch v.ty {
		case tBigOpt:
			s = v.lean + ".isNone"
		case tErr:
			s = "(" + v.lean + " == none)"
		default:
			refuse("comparison of %s with nil (the value is assumed non-nil; a nil test on it is outside the subset)", f.t.src(e))
		}
		if e.Op == token.NEQ {
			s = "(!" + s + ")"
		}
		return tval{lean: s, ty: tBool}
	}
	// unify operand types
	ty := a.ty
	if untyped(a) {
		ty = b.ty
	}
	if !(ty.isInt() || (ty == tByte && isCmp) || ((ty == tBool || ty == tBytes || ty == tErr) && (e.Op == token.EQL || e.Op == token.NEQ))) {
		refuse("operator %s on %s", e.Op, ty.lean())
	}
	a, b = f.typed(a, ty), f.typed(b, ty)
	if isCmp {
		x, y := a.lean, b.lean
		if ty.isSigned() && e.Op != token.EQL && e.Op != token.NEQ {
			x, y = "BitVec.toInt "+x, "BitVec.toInt "+y
		}
		switch e.Op {
		case token.EQL:
			return tval{lean: "(" + x + " == " + y + ")", ty: tBool}
		case token.NEQ:
			return tval{lean: "(" + x + " != " + y + ")", ty: tBool}
		case token.LSS:
			return tval{lean: "(decide (" + x + " < " + y + "))", ty: tBool}
		case token.LEQ:
			return tval{lean: "(decide (" + x + " ≤ " + y + "))", ty: tBool}
		case token.GTR:
			return tval{lean: "(decide (" + x + " > " + y + "))", ty: tBool}
		case token.GEQ:
			return tval{lean: "(decide (" + x + " ≥ " + y + "))", ty: tBool}
		}
	}
	switch e.Op {
	case token.ADD, token.SUB, token.MUL, token.AND, token.OR, token.XOR:
		op := map[token.Token]string{token.ADD: "+", token.SUB: "-", token.MUL: "*", token.AND: "&&&", token.OR: "|||", token.XOR: "^^^"}[e.Op]
		return tval{lean: "(" + a.lean + " " + op + " " + b.lean + ")", ty: ty}
	case token.QUO, token.REM:
		if b.cv != nil {
			if constant.Sign(b.cv) == 0 {
				refuse("division by the constant zero")
			}
		} else {
			f.panicSite("(" + b.lean + " == 0#" + fmt.Sprint(ty.width()) + ")")
		}
		var s string
		switch {
		case ty.isSigned() && e.Op == token.QUO:
			s = "(BitVec.sdiv " + a.lean + " " + b.lean + ")"
		case ty.isSigned():
			s = "(BitVec.srem " + a.lean + " " + b.lean + ")"
		case e.Op == token.QUO:
			s = "(" + a.lean + " / " + b.lean + ")"
		default:
			s = "(" + a.lean + " % " + b.lean + ")"
		}
		return tval{lean: s, ty: ty}
	}
	refuse("operator %s", e.Op)
	return tval{}
}

func (f *trFn) convert(v tval, to gty) tval {
	if v.cv != nil && (v.ty == tUInt || v.ty == tUFloat || v.ty.isInt()) {
		if v.ty == tUFloat && constant.ToInt(v.cv).Kind() != constant.Int {
			refuse("conversion of a non-integral constant")
		}
		return tval{lean: f.lit(v.cv, to), ty: to, cv: constant.ToInt(v.cv)}
	}
	if v.ty == tByte && v.cv == nil {
		return tval{lean: fmt.Sprintf("(BitVec.ofNat %d %s)", to.width(), v.lean), ty: to} // widening: the byte is < 256
	}
	if !v.ty.isInt() {
		refuse("conversion of %s to %s", v.ty.lean(), to.lean())
	}
	switch {
	case v.ty.width() == to.width():
		return tval{lean: v.lean, ty: to} // same bits, reinterpreted
	case v.ty == tU32: // zero-extension (the source is unsigned)
		return tval{lean: "(BitVec.setWidth 64 " + v.lean + ")", ty: to}
	default: // truncation to 32 bits
		return tval{lean: "(BitVec.setWidth 32 " + v.lean + ")", ty: to}
	}
}

func (f *trFn) call(st *trState, e *ast.CallExpr) tval {
	fun := f.t.src(e.Fun)
	if to, ok := trBasic[fun]; ok && to.isInt() && len(e.Args) == 1 {
		if _, shadow := st.vars[fun]; !shadow {
			return f.convert(f.expr(st, e.Args[0]), to)
		}
	}
	sel, isSel := e.Fun.(*ast.SelectorExpr)
	qualPath := ""
	if isSel {
		if q, ok := sel.X.(*ast.Ident); ok {
			if _, isLocal := st.vars[q.Name]; !isLocal {
				qualPath = f.t.importPath(f.file, q.Name)
			}
		}
	}
	if _, shadow := st.vars["len"]; fun == "len" && len(e.Args) == 1 && !shadow {
		if _, own := f.pkg.funcs["len"]; !own {
			v := f.expr(st, e.Args[0])
			if v.ty != tBytes && !v.ty.isTab() {
				refuse("len of %s", f.t.src(e.Args[0]))
			}
			return tval{lean: "(Go.len " + v.lean + ")", ty: tInt}
		}
	}
	if fun == "make" && len(e.Args) >= 2 && f.typeOf(f.file, e.Args[0]) == tSlProj && f.t.src(e.Args[1]) == "0" {
		for _, a := range e.Args[2:] { // the capacity: a non-negative constant or a len(...)
			c := f.expr(st, a)
			if c.cv != nil {
				if constant.Sign(constant.ToInt(c.cv)) < 0 {
					refuse("make with a negative constant capacity")
				}
			} else if c.ty.isSigned() {
				f.panicSite("(decide (BitVec.toInt " + c.lean + " < 0))") // make panics on a negative capacity
			} else if !c.ty.isInt() {
				refuse("make with capacity %s", f.t.src(a))
			}
		}
		return tval{lean: "[]", ty: tSlProj, frsh: true}
	}
	if fun == "append" && len(e.Args) == 2 {
		x := f.expr(st, e.Args[0])
		if x.ty != tSlProj {
			refuse("append to %s", f.t.src(e.Args[0]))
		}
		if f.appendTarget == "" || f.appendTarget != f.t.src(e.Args[0]) {
			refuse("%s: the result of append must be assigned back to its first argument (no aliasing)", f.t.src(e))
		}
		y := f.expr(st, e.Args[1])
		switch {
		case e.Ellipsis.IsValid() && y.ty == tSlProj:
			return tval{lean: "(" + x.lean + " ++ " + y.lean + ")", ty: tSlProj, frsh: true}
		case !e.Ellipsis.IsValid() && y.ty == tProjElem:
			return tval{lean: "(" + x.lean + " ++ [" + y.lean + "])", ty: tSlProj, frsh: true}
		}
		refuse("append %s", f.t.src(e))
	}
	switch {
	case fun == "new" && len(e.Args) == 1 && f.typeOf(f.file, &ast.StarExpr{X: e.Args[0]}) == tBig:
		return tval{lean: "(0 : Int)", ty: tBig, frsh: true}
	case qualPath == "math/big" && sel.Sel.Name == "NewInt" && len(e.Args) == 1:
		a := f.expr(st, e.Args[0])
		if a.cv != nil {
			f.typed(a, tI64) // range check
			return tval{lean: f.lit(a.cv, tBig), ty: tBig, frsh: true}
		}
		return tval{lean: "(Go.bigOfI64 " + f.typed(a, tI64).lean + ")", ty: tBig, frsh: true}
	case qualPath == "bytes" && sel.Sel.Name == "Compare" && len(e.Args) == 2:
		a, b := f.typed(f.expr(st, e.Args[0]), tBytes), f.typed(f.expr(st, e.Args[1]), tBytes)
		return tval{lean: "(Go.bytesCompare " + a.lean + " " + b.lean + ")", ty: tInt}
	case (qualPath == "github.com/pkg/errors" || qualPath == "errors") && (sel.Sel.Name == "Errorf" || sel.Sel.Name == "New"):
		return tval{lean: "(some \"errorf\")", ty: tErr, err: "errorf"}
	}
	// calls of other translated whole functions
	var callee *trSpec
	if id, ok := e.Fun.(*ast.Ident); ok {
		callee = f.t.specs[f.pkg.dir+"."+id.Name]
	} else if strings.HasPrefix(qualPath, trModulePath) {
		callee = f.t.specs[strings.TrimPrefix(qualPath, trModulePath)+"."+sel.Sel.Name]
	}
	if callee == nil {
		// min / max helpers of the repository, recognised by name, are translated on demand (refused with the
		// helper's own reason when they are outside the subset)
		var hp *trPkg
		hn := ""
		if id, ok := e.Fun.(*ast.Ident); ok {
			hp, hn = f.pkg, id.Name
		} else if strings.HasPrefix(qualPath, trModulePath) {
			hp, hn = f.t.pkg(strings.TrimPrefix(qualPath, trModulePath)), sel.Sel.Name
		}
		low := strings.ToLower(hn)
		if hp != nil && (strings.HasPrefix(low, "min") || strings.HasPrefix(low, "max")) {
			if fd, ok := hp.funcs[hn]; ok && fd.decl.Recv == nil {
				sp := &trSpec{name: leanName(strings.ReplaceAll(hp.dir, "/", "_") + "_" + hn),
					file: filepath.Join(hp.dir, filepath.Base(f.t.fset.File(fd.file.Pos()).Name())), fn: hn}
				d, sig := f.t.translate(sp)
				f.t.sigs[sp.name] = sig
				f.t.helpers = append(f.t.helpers, d)
				f.t.specs[hp.dir+"."+hn] = sp
				callee = sp
			}
		}
	}
	if callee != nil {
		sig := f.t.sigs[callee.name]
		if sig == nil || sig.mayPanic || len(sig.results) != 1 || len(sig.params) != len(e.Args) {
			refuse("call of %s: callee must be translated earlier, total, single-valued, with plain parameters", fun)
		}
		s := "(" + callee.name
		for i, a := range e.Args {
			s += " " + f.typed(f.expr(st, a), sig.params[i]).lean
		}
		return tval{lean: s + ")", ty: sig.results[0]}
	}
	// methods
	if isSel && qualPath == "" {
		m := sel.Sel.Name
		if m == "Bytes" && len(e.Args) == 0 {
			if v := f.expr(st, sel.X); v.ty == tBytes {
				return v // accessor of a named byte array (types.Hash.Bytes): the bytes
			}
		}
		if bigPure[m] || bigMut[m] > 0 {
			// receiver: a fresh value (call chain) — or, for the reading methods, any *big.Int value
			_, recvIsName := st.vars[f.t.src(sel.X)]
			r := f.expr(st, sel.X)
			if r.ty != tBig && r.ty != tBigOpt {
				refuse("method %s on %s", m, r.ty.lean())
			}
			if n, mut := bigMut[m]; mut {
				if len(e.Args) != n {
					refuse("big.Int.%s with %d arguments", m, len(e.Args))
				}
				if recvIsName || !r.frsh {
					refuse("%s: mutating big.Int method on a named or shared receiver inside an expression", f.t.src(e))
				}
				return f.bigMethod(st, m, e.Args)
			}
			r = f.useBig(st, r)
			switch m {
			case "Cmp":
				return tval{lean: "(Go.bigCmp " + r.lean + " " + f.useBig(st, f.expr(st, e.Args[0])).lean + ")", ty: tInt}
			case "Sign":
				return tval{lean: "(Go.bigSign " + r.lean + ")", ty: tInt}
			case "Uint64":
				return tval{lean: "(Go.bigUint64 " + r.lean + ")", ty: tU64}
			case "IsUint64":
				return tval{lean: "(Go.bigIsUint64 " + r.lean + ")", ty: tBool}
			case "BitLen":
				return tval{lean: "(Go.bigBitLen " + r.lean + ")", ty: tInt}
			}
		}
	}
	refuse("call %s", f.t.src(e))
	return tval{}
}

// ---- statements ---------------------------------------------------------------------------------------------------------

type trK func(st *trState) string

func tuple(vs []string) string {
	if len(vs) == 1 {
		return vs[0]
	}
	return "(" + strings.Join(vs, ", ") + ")"
}

func (f *trFn) ret(vals []string) string {
	if f.wrap || f.loop != nil {
		return f.leave("Go.Res.ok "+tuple(vals)) + "\n"
	}
	return tuple(vals) + "\n"
}

// target resolves an assignment target to its key in the state
func (f *trFn) target(st *trState, e ast.Expr) string {
	key := f.t.src(e)
	if _, ok := st.vars[key]; !ok {
		refuse("assignment to %s, which is not a local or an input of the subset", key)
	}
	return key
}

func (f *trFn) bind(st *trState, key string, v tval, declare bool) string {
	if declare {
		if _, exists := st.vars[key]; exists {
			refuse("redeclaration / shadowing of %s", key)
		}
		ty := v.ty
		switch ty {
		case tUInt:
			ty = tInt
		case tUFloat, tNil, tBad:
			refuse("declaration of %s with a value of unsupported type", key)
		case tBigOpt:
			refuse("copy of a nilable *big.Int")
		}
		v = f.typed(v, ty)
		st.vars[key], st.lname[key] = ty, leanName(key)
	} else {
		v = f.typed(v, st.vars[key])
	}
	if st.vars[key] == tSlProj && !v.frsh {
		refuse("%s: copy of a slice (aliasing of the underlying array)", key)
	}
	if st.vars[key] == tBig {
		if !v.frsh && declare {
			refuse("%s: pointer copy of a *big.Int (aliasing)", key)
		}
		st.owned[key] = v.frsh
	}
	return fmt.Sprintf("let %s : %s := %s;\n", st.lname[key], st.vars[key].lean(), v.lean)
}

func (f *trFn) stmts(st *trState, list []ast.Stmt, k trK) string {
	if len(list) == 0 {
		return k(st)
	}
	s, rest := list[0], list[1:]
	next := func(st *trState) string { return f.stmts(st, rest, k) }
	f.size++
	switch s := s.(type) {
	case *ast.EmptyStmt:
		return next(st)
	case *ast.BlockStmt:
		return f.block(st, s.List, next)
	case *ast.ReturnStmt:
		if f.frag && !f.spec.tail {
			f.sawExit = true
			return f.leave(fmt.Sprintf("Go.Res.exit %d", f.exits[s.Pos()])) + "\n"
		}
		if len(s.Results) != len(f.results) {
			refuse("return with %d values in a function of %d results", len(s.Results), len(f.results))
		}
		vals := []string{}
		for i, r := range s.Results {
			v := f.expr(st, r)
			if f.results[i] == tBig {
				v = f.useBigNoGuard(v)
			}
			vals = append(vals, f.typed(v, f.results[i]).lean)
		}
		return f.flush() + f.ret(vals)
	case *ast.DeclStmt:
		gd, ok := s.Decl.(*ast.GenDecl)
		if !ok || gd.Tok != token.VAR {
			refuse("declaration %s", f.t.src(s))
		}
		out := ""
		for _, sp := range gd.Specs {
			vs := sp.(*ast.ValueSpec)
			for i, id := range vs.Names {
				var v tval
				if i < len(vs.Values) {
					v = f.expr(st, vs.Values[i])
					if vs.Type != nil {
						v = f.typed(v, f.typeOf(f.file, vs.Type))
					}
				} else {
					ty := f.typeOf(f.file, vs.Type)
					switch {
					case ty.isInt():
						v = tval{lean: "0#" + fmt.Sprint(ty.width()), ty: ty}
					case ty == tBool:
						v = tval{lean: "false", ty: tBool}
					case ty == tBytes && f.t.src(vs.Type) == "[8]byte":
						v = tval{lean: "Go.zero8", ty: tBytes}
					case ty == tErr:
						v = tval{lean: "none", ty: tErr}
					default:
						refuse("zero value of %s", f.t.src(vs.Type))
					}
				}
				out += f.flush() + f.bind(st, id.Name, v, true)
			}
		}
		return out + next(st)
	case *ast.IncDecStmt:
		key := f.target(st, s.X)
		ty := st.vars[key]
		if !ty.isInt() {
			refuse("%s on %s", s.Tok, ty.lean())
		}
		op := "+"
		if s.Tok == token.DEC {
			op = "-"
		}
		return f.bind(st, key, tval{lean: fmt.Sprintf("(%s %s 1#%d)", st.lname[key], op, ty.width()), ty: ty}, false) + next(st)
	case *ast.AssignStmt:
		if len(s.Lhs) != len(s.Rhs) {
			refuse("assignment %s: multi-valued right-hand side", f.t.src(s))
		}
		if s.Tok != token.DEFINE && s.Tok != token.ASSIGN {
			// op= : x op= e  ≡  x = x op (e)
			op := map[token.Token]token.Token{token.ADD_ASSIGN: token.ADD, token.SUB_ASSIGN: token.SUB, token.MUL_ASSIGN: token.MUL,
				token.QUO_ASSIGN: token.QUO, token.REM_ASSIGN: token.REM, token.AND_ASSIGN: token.AND, token.OR_ASSIGN: token.OR,
				token.XOR_ASSIGN: token.XOR, token.SHL_ASSIGN: token.SHL, token.SHR_ASSIGN: token.SHR}[s.Tok]
			if op == 0 || len(s.Lhs) != 1 {
				refuse("assignment operator %s", s.Tok)
			}
			key := f.target(st, s.Lhs[0])
			v := f.binary(st, &ast.BinaryExpr{X: s.Lhs[0], Op: op, Y: &ast.ParenExpr{X: s.Rhs[0]}})
			return f.flush() + f.bind(st, key, v, false) + next(st)
		}
		if len(s.Lhs) == 1 {
			// x = x.M(...) / x := fresh.M(...) : fine; x.M(...) with a named receiver other than x itself is refused in call()
			if ce, ok := s.Rhs[0].(*ast.CallExpr); ok && s.Tok == token.ASSIGN {
				if v, ok := f.selfMutation(st, ce, f.t.src(s.Lhs[0])); ok {
					return f.flush() + f.bind(st, f.target(st, s.Lhs[0]), v, false) + next(st)
				}
			}
			if s.Tok == token.ASSIGN {
				f.appendTarget = f.t.src(s.Lhs[0])
			}
			v := f.expr(st, s.Rhs[0])
			f.appendTarget = ""
			key := f.t.src(s.Lhs[0])
			if s.Tok == token.ASSIGN {
				key = f.target(st, s.Lhs[0])
			} else if _, ok := s.Lhs[0].(*ast.Ident); !ok {
				refuse("definition of %s", key)
			}
			return f.flush() + f.bind(st, key, v, s.Tok == token.DEFINE) + next(st)
		}
		// parallel assignment: all right-hand sides are evaluated first
		vals, tmp := []tval{}, ""
		for i, r := range s.Rhs {
			v := f.expr(st, r)
			if v.cv == nil {
				tmp += fmt.Sprintf("let tmp%d__ : %s := %s;\n", i, v.ty.lean(), v.lean)
				v.lean = fmt.Sprintf("tmp%d__", i)
			}
			vals = append(vals, v)
		}
		out := f.flush() + tmp
		for i, l := range s.Lhs {
			key := f.t.src(l)
			if s.Tok == token.ASSIGN {
				key = f.target(st, l)
			}
			out += f.bind(st, key, vals[i], s.Tok == token.DEFINE)
		}
		return out + next(st)
	case *ast.ExprStmt:
		ce, ok := s.X.(*ast.CallExpr)
		if !ok {
			refuse("statement %s", f.t.src(s))
		}
		if id, ok := ce.Fun.(*ast.Ident); ok && id.Name == "panic" {
			f.sawPanic = true
			return f.leave("Go.Res.panic") + "\n"
		}
		if f.t.src(ce.Fun) == "binary.LittleEndian.PutUint64" && len(ce.Args) == 2 && f.t.importPath(f.file, "binary") == "encoding/binary" {
			sl, ok := ce.Args[0].(*ast.SliceExpr)
			if !ok || sl.Low != nil || sl.High != nil {
				refuse("PutUint64 into %s", f.t.src(ce.Args[0]))
			}
			key := f.target(st, sl.X)
			if st.vars[key] != tBytes {
				refuse("PutUint64 into %s", key)
			}
			v := f.typed(f.expr(st, ce.Args[1]), tU64)
			return f.flush() + f.bind(st, key, tval{lean: "(Go.le8 " + v.lean + ")", ty: tBytes}, false) + next(st)
		}
		if sel, ok := ce.Fun.(*ast.SelectorExpr); ok {
			if v, ok := f.selfMutation(st, ce, f.t.src(sel.X)); ok {
				return f.flush() + f.bind(st, f.target(st, sel.X), v, false) + next(st)
			}
		}
		refuse("statement %s", f.t.src(s))
	case *ast.BranchStmt:
		if s.Label != nil {
			refuse("labelled %s", s.Tok)
		}
		if f.loop == nil {
			refuse("%s outside a translated loop", s.Tok)
		}
		switch s.Tok {
		case token.CONTINUE:
			return "Go.Step.next " + f.loopState(st) + "\n"
		case token.BREAK:
			return "Go.Step.brk " + f.loopState(st) + "\n"
		}
		refuse("statement %s", s.Tok)
	case *ast.SwitchStmt:
		return f.stmts(st, append([]ast.Stmt{f.desugarSwitch(s)}, rest...), k)
	case *ast.ForStmt:
		return f.forLoop(st, s, next)
	case *ast.RangeStmt:
		return f.rangeLoop(st, s, next)
	case *ast.IfStmt:
		inner := st.clone()
		out := ""
		declared := ""
		if s.Init != nil {
			as, ok := s.Init.(*ast.AssignStmt)
			if !ok || as.Tok != token.DEFINE || len(as.Lhs) != 1 || len(as.Rhs) != 1 {
				refuse("if-initialiser %s", f.t.src(s.Init))
			}
			declared = f.t.src(as.Lhs[0])
			v := f.expr(inner, as.Rhs[0])
			out += f.flush() + f.bind(inner, declared, v, true)
		}
		c := f.typed(f.expr(inner, s.Cond), tBool)
		out += f.flush()
		after := func(b *trState) string {
			if declared != "" {
				delete(b.vars, declared)
				delete(b.lname, declared)
				delete(b.owned, declared)
			}
			return next(b)
		}
		thenS := f.block(inner.clone(), s.Body.List, after)
		var elseS string
		switch el := s.Else.(type) {
		case nil:
			elseS = after(inner.clone())
		case *ast.BlockStmt:
			elseS = f.block(inner.clone(), el.List, after)
		case *ast.IfStmt:
			elseS = f.stmts(inner.clone(), []ast.Stmt{el}, after)
		default:
			refuse("else branch %s", f.t.src(el))
		}
		return out + "if " + c.lean + " then (\n" + thenS + ") else (\n" + elseS + ")\n"
	}
	refuse("statement %s", f.t.src(s))
	return ""
}

// desugarSwitch: an expression switch on integers / constants (or a tagless switch) as the equivalent if-chain.
// Go tries the cases top to bottom and runs `default` only when none matches, wherever it is written.
func (f *trFn) desugarSwitch(s *ast.SwitchStmt) ast.Stmt {
	if s.Init != nil {
		refuse("switch with an initialiser")
	}
	var deflt *ast.CaseClause
	var clauses []*ast.CaseClause
	for _, c := range s.Body.List {
		cc := c.(*ast.CaseClause)
		for _, b := range cc.Body {
			ast.Inspect(b, func(n ast.Node) bool {
				switch n := n.(type) {
				case *ast.ForStmt, *ast.RangeStmt, *ast.FuncLit:
					return false
				case *ast.BranchStmt:
					if n.Tok == token.FALLTHROUGH || n.Tok == token.BREAK || n.Tok == token.GOTO {
						refuse("%s inside a switch", n.Tok)
					}
				}
				return true
			})
		}
		if cc.List == nil {
			deflt = cc
		} else {
			clauses = append(clauses, cc)
		}
	}
	var els ast.Stmt
	if deflt != nil {
		els = &ast.BlockStmt{List: deflt.Body}
	}
	for i := len(clauses) - 1; i >= 0; i-- {
		var cond ast.Expr
		for _, e := range clauses[i].List {
			c := e
			if s.Tag != nil {
				c = &ast.BinaryExpr{X: &ast.ParenExpr{X: s.Tag}, Op: token.EQL, Y: e}
			}
			if cond == nil {
				cond = c
			} else {
				cond = &ast.BinaryExpr{X: cond, Op: token.LOR, Y: c}
			}
		}
		els = &ast.IfStmt{Cond: cond, Body: &ast.BlockStmt{List: clauses[i].Body}, Else: els}
	}
	if els == nil {
		return &ast.EmptyStmt{}
	}
	return els
}

// assignedIn: printed targets of every assignment / ++ / -- / mutating call statement below n
func (f *trFn) assignedIn(n ast.Node) map[string]bool {
	out := map[string]bool{}
	ast.Inspect(n, func(nd ast.Node) bool {
		switch s := nd.(type) {
		case *ast.FuncLit:
			refuse("closure")
		case *ast.AssignStmt:
			for _, l := range s.Lhs {
				if ix, ok := l.(*ast.IndexExpr); ok {
					l = ix.X
				}
				out[f.t.src(l)] = true
			}
		case *ast.IncDecStmt:
			out[f.t.src(s.X)] = true
		case *ast.RangeStmt:
			if s.Key != nil {
				out[f.t.src(s.Key)] = true
			}
			if s.Value != nil {
				out[f.t.src(s.Value)] = true
			}
		case *ast.ExprStmt:
			if ce, ok := s.X.(*ast.CallExpr); ok {
				if sel, ok := ce.Fun.(*ast.SelectorExpr); ok {
					out[f.t.src(sel.X)] = true
				}
				for _, a := range ce.Args {
					if sl, ok := a.(*ast.SliceExpr); ok {
						out[f.t.src(sl.X)] = true
					}
				}
			}
		}
		return true
	})
	return out
}

// invariant refuses an expression that mentions something the loop body assigns
func (f *trFn) invariant(e ast.Expr, assigned map[string]bool, what string) {
	ast.Inspect(e, func(n ast.Node) bool {
		switch n.(type) {
		case *ast.Ident, *ast.SelectorExpr:
			if assigned[f.t.src(n)] {
				refuse("%s %s is not loop-invariant: the body assigns %s", what, f.t.src(e), f.t.src(n))
			}
		}
		return true
	})
}

// emitLoop: the fold. `idx` = the Lean list of the counter's values, `prelude` = bindings at the start of every iteration
func (f *trFn) emitLoop(st *trState, counter string, cty gty, idx string, prelude func(*trState) string, body *ast.BlockStmt,
	assigned map[string]bool, next trK) string {
	if f.loop != nil {
		refuse("nested loop")
	}
	if _, exists := st.vars[counter]; exists {
		refuse("redeclaration / shadowing of %s", counter)
	}
	keys := []string{}
	for k := range assigned {
		if ty, ok := st.vars[k]; ok {
			if ty == tBig || ty == tBigOpt {
				refuse("loop-carried *big.Int %s (ownership across iterations is not tracked)", k)
			}
			keys = append(keys, k)
		}
	}
	sort.Strings(keys)
	f.sawLoop, f.sawPanic = true, true // a loop is always wrapped in Go.Res
	pre := f.flush()
	f.loop = &trLoop{keys}
	s0 := f.loopState(st)
	pat := ""
	if len(keys) > 0 {
		pat = "let " + s0 + " := s__;\n"
	}
	inner := st.clone()
	inner.vars[counter], inner.lname[counter] = cty, leanName(counter)
	bodyS := prelude(inner) + f.block(inner, body.List, func(b *trState) string { return "Go.Step.next " + f.loopState(b) + "\n" })
	f.loop = nil
	rest := next(st.clone())
	return pre + "Go.loopThen (Go.forIn " + idx + " " + s0 + " (fun " + leanName(counter) + " s__ => (\n" + pat + bodyS +
		"))) (fun s__ => (\n" + pat + rest + "))\n"
}

// forLoop: `for i := a; i < b; i++` / `i <= C` / `for i := a; i > b; i--` / `i >= C` with a 64-bit counter the body does not
// assign and a loop-invariant bound, as a fold over the counter's values
func (f *trFn) forLoop(st *trState, s *ast.ForStmt, next trK) string {
	as, ok := s.Init.(*ast.AssignStmt)
	if !ok || as.Tok != token.DEFINE || len(as.Lhs) != 1 || len(as.Rhs) != 1 {
		refuse("loop without a counter declared in its initialiser: %s", f.t.src(s.Init))
	}
	cid, ok := as.Lhs[0].(*ast.Ident)
	if !ok {
		refuse("loop counter %s", f.t.src(as.Lhs[0]))
	}
	be, ok := s.Cond.(*ast.BinaryExpr)
	if !ok || f.t.src(be.X) != cid.Name {
		refuse("loop condition %s is not a comparison of the counter with a bound", f.t.src(s.Cond))
	}
	up := false
	switch p := s.Post.(type) {
	case *ast.IncDecStmt:
		if f.t.src(p.X) != cid.Name {
			refuse("loop post statement %s", f.t.src(p))
		}
		up = p.Tok == token.INC
	case *ast.AssignStmt:
		if len(p.Lhs) != 1 || f.t.src(p.Lhs[0]) != cid.Name || f.t.src(p.Rhs[0]) != "1" || (p.Tok != token.ADD_ASSIGN && p.Tok != token.SUB_ASSIGN) {
			refuse("loop post statement %s", f.t.src(p))
		}
		up = p.Tok == token.ADD_ASSIGN
	default:
		refuse("loop without a unit step")
	}
	if up != (be.Op == token.LSS || be.Op == token.LEQ) || !(be.Op == token.LSS || be.Op == token.LEQ || be.Op == token.GTR || be.Op == token.GEQ) {
		refuse("loop condition %s does not bound a counter stepping %v", f.t.src(s.Cond), map[bool]string{true: "up", false: "down"}[up])
	}
	assigned := f.assignedIn(s.Body)
	if assigned[cid.Name] {
		refuse("the loop body assigns its counter %s", cid.Name)
	}
	f.invariant(be.Y, assigned, "loop bound")
	a := f.expr(st, as.Rhs[0])
	if a.cv != nil && (a.ty == tUInt || a.ty == tUFloat) {
		a = f.typed(a, tInt)
	}
	a = f.typed(a, a.ty)
	if !a.ty.isInt() || a.ty.width() != 64 {
		refuse("loop counter of type %s", a.ty.lean())
	}
	b := f.expr(st, be.Y)
	if be.Op == token.LEQ || be.Op == token.GEQ {
		// i <= C ≡ i < C+1, i >= C ≡ i > C-1 — only for a constant C, so that C±1 is checked not to overflow
		if b.cv == nil {
			refuse("loop condition %s with a non-constant inclusive bound", f.t.src(s.Cond))
		}
		d := token.ADD
		if be.Op == token.GEQ {
			d = token.SUB
		}
		b = tval{ty: tUInt, cv: constant.BinaryOp(constant.ToInt(b.cv), d, constant.MakeInt64(1))}
	}
	b = f.typed(b, a.ty)
	var idx string
	switch {
	case up && a.ty.isSigned():
		idx = "(Go.upS " + a.lean + " " + b.lean + ")"
	case up:
		idx = "(Go.upU " + a.lean + " " + b.lean + ")"
	case a.ty.isSigned():
		idx = "(Go.downS " + a.lean + " " + b.lean + ")"
	default:
		refuse("downward loop over an unsigned counter")
	}
	return f.emitLoop(st, cid.Name, a.ty, idx, func(*trState) string { return "" }, s.Body, assigned, next)
}

// rangeLoop: `for i := range xs` / `for i, v := range xs` / `for _, v := range xs` over a byte slice or a table
func (f *trFn) rangeLoop(st *trState, s *ast.RangeStmt, next trK) string {
	if s.Tok != token.DEFINE {
		refuse("range loop assigning existing variables")
	}
	assigned := f.assignedIn(s.Body)
	f.invariant(s.X, assigned, "ranged expression")
	xs := f.expr(st, s.X)
	if xs.ty != tBytes && !xs.ty.isTab() {
		refuse("range over %s", f.t.src(s.X))
	}
	counter := "i__"
	if id, ok := s.Key.(*ast.Ident); ok && id.Name != "_" {
		counter = id.Name
		if assigned[counter] {
			refuse("the loop body assigns its counter %s", counter)
		}
	}
	prelude := func(inner *trState) string { return "" }
	if id, ok := s.Value.(*ast.Ident); ok && id.Name != "_" {
		at := "Go.atW"
		if xs.ty == tBytes {
			at = "Go.atB"
		}
		prelude = func(inner *trState) string {
			return f.bind(inner, id.Name, tval{lean: "(" + at + " " + xs.lean + " " + leanName(counter) + ")", ty: xs.ty.elem()}, true)
		}
	} else if s.Value != nil && f.t.src(s.Value) != "_" {
		refuse("range value %s", f.t.src(s.Value))
	}
	return f.emitLoop(st, counter, tInt, "(Go.upS 0#64 (Go.len "+xs.lean+"))", prelude, s.Body, assigned, next)
}

// block translates a nested block: names it declares are dropped before the continuation runs
func (f *trFn) block(st *trState, list []ast.Stmt, k trK) string {
	outer := map[string]bool{}
	for n := range st.vars {
		outer[n] = true
	}
	return f.stmts(st, list, func(b *trState) string {
		for n := range b.vars {
			if !outer[n] {
				delete(b.vars, n)
				delete(b.lname, n)
				delete(b.owned, n)
			}
		}
		return k(b)
	})
}

// selfMutation: `x.M(args)` where x is a local *big.Int that owns its value: the new value of x
func (f *trFn) selfMutation(st *trState, ce *ast.CallExpr, recv string) (tval, bool) {
	sel, ok := ce.Fun.(*ast.SelectorExpr)
	if !ok || f.t.src(sel.X) != recv {
		return tval{}, false
	}
	n, mut := bigMut[sel.Sel.Name]
	if !mut || st.vars[recv] != tBig {
		return tval{}, false
	}
	if !st.owned[recv] {
		refuse("%s: mutating a *big.Int the function does not own (parameter, package variable or alias)", f.t.src(ce))
	}
	if len(ce.Args) != n {
		refuse("big.Int.%s with %d arguments", sel.Sel.Name, len(ce.Args))
	}
	return f.bigMethod(st, sel.Sel.Name, ce.Args), true
}

func (f *trFn) useBigNoGuard(v tval) tval {
	if v.ty == tBigOpt {
		refuse("returning a nilable *big.Int")
	}
	if v.ty == tUInt {
		return f.typed(v, tBig)
	}
	return v
}

// ---- driver --------------------------------------------------------------------------------------------------------------

type trParam struct {
	lean string
	ty   gty
}

// findFragment locates the spec's statement list inside body
func (f *trFn) findFragment(body *ast.BlockStmt) []ast.Stmt {
	var found [][]ast.Stmt
	var visit func(list []ast.Stmt)
	visit = func(list []ast.Stmt) {
		for i, s := range list {
			if strings.HasPrefix(f.t.src(s), f.spec.from) {
				n := f.spec.n
				if f.spec.tail && n == 0 {
					n = len(list) - i
				}
				if i+n <= len(list) {
					found = append(found, list[i:i+n])
				}
			}
			ast.Inspect(s, func(nd ast.Node) bool {
				switch b := nd.(type) {
				case *ast.FuncLit:
					return false
				case *ast.BlockStmt:
					visit(b.List)
					return false
				case *ast.CaseClause:
					visit(b.Body)
					return false
				case *ast.CommClause:
					visit(b.Body)
					return false
				}
				return true
			})
		}
	}
	visit(body.List)
	if f.spec.occ >= len(found) {
		refuse("fragment starting with %q: occurrence %d not found (%d matches)", f.spec.from, f.spec.occ, len(found))
	}
	return found[f.spec.occ]
}

func (t *translator) translate(sp *trSpec) (def string, sig *trSig) {
	dir := filepath.Dir(sp.file)
	p := t.pkg(dir)
	fd, ok := p.funcs[sp.fn]
	if !ok || fd.decl.Body == nil {
		refuse("function %s not found in %s", sp.fn, dir)
	}
	if filepath.Base(t.fset.File(fd.file.Pos()).Name()) != filepath.Base(sp.file) {
		refuse("function %s is no longer in %s", sp.fn, sp.file)
	}
	run := func(wrap bool) (string, *trFn, []trParam, string) {
		f := &trFn{t: t, spec: sp, pkg: p, file: fd.file, wrap: wrap, frag: sp.from != "", exits: map[token.Pos]int{}, nilable: map[string]bool{}}
		st := &trState{map[string]gty{}, map[string]string{}, map[string]bool{}}
		var params []trParam
		addIn := func(key string, ty gty, name string) {
			st.vars[key], st.lname[key] = ty, name
			params = append(params, trParam{name, ty})
		}
		assumed := []string{}
		if !f.frag {
			// struct slices are projected to the ONE field the body selects on their elements (`xs[i].F`)
			pf := map[string]bool{}
			ast.Inspect(fd.decl.Body, func(n ast.Node) bool {
				if se, ok := n.(*ast.SelectorExpr); ok {
					if _, ok := se.X.(*ast.IndexExpr); ok {
						pf[se.Sel.Name] = true
					}
				}
				return true
			})
			if len(pf) == 1 {
				for k := range pf {
					f.projField = k
				}
			}
			// nil tests on *big.Int parameters
			ast.Inspect(fd.decl.Body, func(n ast.Node) bool {
				if be, ok := n.(*ast.BinaryExpr); ok && (be.Op == token.EQL || be.Op == token.NEQ) {
					x, y := be.X, be.Y
					if id, ok := x.(*ast.Ident); ok && id.Name == "nil" {
						x, y = y, x
					}
					if id, ok := y.(*ast.Ident); ok && id.Name == "nil" {
						if v, ok := x.(*ast.Ident); ok {
							f.nilable[v.Name] = true
						}
					}
				}
				return true
			})
			for _, fl := range fd.decl.Type.Params.List {
				for _, n := range fl.Names {
					ty := f.typeOf(fd.file, fl.Type)
					if ty == tBig && f.nilable[n.Name] {
						ty = tBigOpt
					} else if ty == tBig {
						assumed = append(assumed, n.Name)
					}
					if ty != tBad {
						addIn(n.Name, ty, leanName(n.Name))
						continue
					}
					// (pointer to) struct: the fields the body reads, flattened, in alphabetical order
					fields := map[string]bool{}
					ast.Inspect(fd.decl.Body, func(nd ast.Node) bool {
						if se, ok := nd.(*ast.SelectorExpr); ok {
							if id, ok := se.X.(*ast.Ident); ok && id.Name == n.Name {
								fields[se.Sel.Name] = true
							}
						}
						return true
					})
					names := []string{}
					for fn := range fields {
						names = append(names, fn)
					}
					sort.Strings(names)
					for _, fn := range names {
						fty, _, _ := f.structField(fd.file, fl.Type, fn)
						if fty == tBad {
							continue // a field outside the subset: any use of it is refused when met
						}
						if fty == tBig {
							assumed = append(assumed, n.Name+"."+fn)
						}
						addIn(n.Name+"."+fn, fty, leanName(n.Name+"."+fn))
					}
					if _, isPtr := fl.Type.(*ast.StarExpr); isPtr && len(names) > 0 {
						assumed = append(assumed, n.Name)
					}
				}
			}
			if fd.decl.Type.Results != nil {
				for _, fl := range fd.decl.Type.Results.List {
					k := len(fl.Names)
					if k == 0 {
						k = 1
					} else {
						refuse("named results")
					}
					ty := f.typeOf(fd.file, fl.Type)
					if ty == tBad {
						refuse("result type %s", t.src(fl.Type))
					}
					f.results = append(f.results, ty)
				}
			}
		} else if sp.tail {
			for _, fl := range fd.decl.Type.Results.List {
				ty := f.typeOf(fd.file, fl.Type)
				if ty == tBad || len(fl.Names) > 0 {
					refuse("result type %s", t.src(fl.Type))
				}
				f.results = append(f.results, ty)
			}
		}
		for _, in := range sp.ins {
			ty, ok := trBasic[in.ty]
			if in.ty == "*big.Int" {
				ty, ok = tBig, true
			}
			if !ok {
				refuse("input %s: type %s", in.expr, in.ty)
			}
			addIn(in.expr, ty, in.name)
		}
		var body string
		var rty string
		if !f.frag {
			body = f.stmts(st, fd.decl.Body.List, func(*trState) string {
				if len(f.results) == 0 {
					return f.ret([]string{"()"})
				}
				refuse("control reaches the end of a function with results")
				return ""
			})
		} else {
			list := f.findFragment(fd.decl.Body)
			if sp.expr != "" {
				var hit ast.Expr
				ast.Inspect(list[0], func(n ast.Node) bool {
					if e, ok := n.(ast.Expr); ok && hit == nil && t.src(e) == sp.expr {
						hit = e
					}
					return hit == nil
				})
				if hit == nil {
					refuse("expression %q not found in %q", sp.expr, t.src(list[0]))
				}
				v := f.expr(st, hit)
				if v.ty == tUInt {
					v = f.typed(v, tInt)
				}
				f.results = []gty{v.ty}
				body = f.flush() + f.ret([]string{f.typed(v, v.ty).lean})
			} else {
				// number the returns of the fragment in source order
				var rets []token.Pos
				for _, s := range list {
					ast.Inspect(s, func(n ast.Node) bool {
						if r, ok := n.(*ast.ReturnStmt); ok {
							rets = append(rets, r.Pos())
						}
						return true
					})
				}
				sort.Slice(rets, func(i, j int) bool { return rets[i] < rets[j] })
				for i, p := range rets {
					f.exits[p] = i
				}
				body = f.stmts(st, list, func(end *trState) string {
					if sp.tail {
						refuse("control reaches the end of the tail fragment")
					}
					vals := []string{}
					for _, o := range sp.outs {
						ty, ok := end.vars[o]
						if !ok {
							refuse("output %s is not defined at the end of the fragment", o)
						}
						if len(f.results) < len(sp.outs) {
							f.results = append(f.results, ty)
						}
						vals = append(vals, end.lname[o])
					}
					return f.ret(vals)
				})
			}
		}
		rts := []string{}
		for _, r := range f.results {
			rts = append(rts, r.lean())
		}
		switch len(rts) {
		case 0:
			rty = "Unit"
		case 1:
			rty = rts[0]
		default:
			rty = strings.Join(rts, " × ")
		}
		if wrap {
			rty = "Go.Res (" + rty + ")"
		}
		note := ""
		if len(assumed) > 0 {
			note = " Assumed non-nil: " + strings.Join(assumed, ", ") + "."
		}
		return body, f, params, rty + "\x00" + note
	}
	body, f, params, rty := run(false)
	if f.sawPanic || f.sawExit || (f.frag && sp.expr == "" && !sp.tail) {
		body, f, params, rty = run(true)
	}
	parts := strings.SplitN(rty, "\x00", 2)
	var b strings.Builder
	what := "func " + sp.fn
	if f.frag {
		what = fmt.Sprintf("fragment of func %s starting at `%s`", sp.fn, sp.from)
		if sp.expr != "" {
			what += fmt.Sprintf(", expression `%s`", sp.expr)
		}
	}
	fmt.Fprintf(&b, "/-- %s: %s.%s -/\ndef %s", sp.file, what, parts[1], sp.name)
	sig = &trSig{results: f.results, mayPanic: f.wrap}
	for _, pr := range params {
		fmt.Fprintf(&b, " (%s : %s)", pr.lean, pr.ty.lean())
		sig.params = append(sig.params, pr.ty)
	}
	fmt.Fprintf(&b, " : %s :=\n", parts[0])
	// indentation by nesting depth
	depth := 1
	for _, line := range strings.Split(strings.TrimRight(body, "\n"), "\n") {
		if strings.HasPrefix(line, ")") {
			depth--
		}
		b.WriteString(strings.Repeat("  ", depth) + line + "\n")
		if strings.HasSuffix(line, "(") {
			depth++
		}
	}
	return b.String(), sig
}

func init() {
	factGens = append(factGens, func(repo string) (*factFile, error) {
		t := &translator{repo: repo, fset: token.NewFileSet(), pkgs: map[string]*trPkg{}, inits: map[string]string{},
			specs: map[string]*trSpec{}, sigs: map[string]*trSig{}}
		for i := range trSpecs {
			if trSpecs[i].from == "" {
				t.specs[filepath.Dir(trSpecs[i].file)+"."+trSpecs[i].fn] = &trSpecs[i]
			}
		}
		ff := newFactFile("Translated", "ZenonVerif.Model.GoSem")
		ff.buf.Reset()
		ff.raw("-- GENERATED by `zvh facts` (harness/cmd/zvh/f_translate.go) from the working tree of /repo. Do not edit.\n")
		ff.raw("-- Every definition is the mechanical translation of the body of the named Go function / fragment; see\n")
		ff.raw("-- ZenonVerif/Model/GoSem.lean for the semantics of the operations and DESIGN.md §2 L12 for the subset.\n")
		ff.raw("import ZenonVerif.Model.GoSem\nset_option linter.unusedVariables false\nnamespace ZV.Gen.Translated\nopen ZV\n\n")
		var defs []string
		ok, bad := []string{}, []string{}
		for i := range trSpecs {
			sp := &trSpecs[i]
			func() {
				defer func() {
					if r := recover(); r != nil {
						e, isTr := r.(trErr)
						if !isTr {
							panic(r)
						}
						bad = append(bad, sp.name)
						defs = append(defs, fmt.Sprintf("/- %s %s: OUTSIDE THE TRANSLATED SUBSET — %s -/\ndef %s_UNTRANSLATABLE : Unit := ()\n",
							sp.file, sp.fn, strings.ReplaceAll(e.msg, "-/", "- /"), sp.name))
					}
				}()
				d, sig := t.translate(sp)
				t.sigs[sp.name] = sig
				defs = append(defs, d)
				ok = append(ok, sp.name)
			}()
		}
		// C18 — the page-size guard of EVERY paged getter of rpc/api and rpc/api/embedded (a function with a parameter
		// `pageSize uint32`): its `if pageSize > …RpcMaxPageSize { return … }` statement, translated; a getter without
		// such a statement is listed in unguardedPagedGetters
		var pgNames, pgBad []string
		for _, dir := range []string{"rpc/api", "rpc/api/embedded"} {
			p := t.pkg(dir)
			fns := []string{}
			for name, fd := range p.funcs {
				if fd.decl.Body == nil {
					continue
				}
				for _, fl := range fd.decl.Type.Params.List {
					for _, n := range fl.Names {
						if n.Name == "pageSize" && t.src(fl.Type) == "uint32" {
							fns = append(fns, name)
						}
					}
				}
			}
			sort.Strings(fns)
			for _, name := range fns {
				fd := p.funcs[name]
				sp := &trSpec{name: leanName("pageGuard_" + strings.ReplaceAll(dir, "/", "_") + "_" + name),
					file: filepath.Join(dir, filepath.Base(t.fset.File(fd.file.Pos()).Name())), fn: name,
					from: "if pageSize > ", n: 1, outs: []string{}, ins: []trIn{{"pageSize", "uint32", "pageSize"}}}
				func() {
					defer func() {
						if r := recover(); r != nil {
							e, isTr := r.(trErr)
							if !isTr {
								panic(r)
							}
							pgBad = append(pgBad, dir+"."+name+": "+e.msg)
						}
					}()
					d, _ := t.translate(sp)
					defs = append(defs, d)
					pgNames = append(pgNames, sp.name)
				}()
			}
		}
		for _, n := range t.order {
			ff.raw("%s\n", t.inits[n])
		}
		for _, d := range t.helpers {
			ff.raw("%s\n", d)
		}
		for _, d := range defs {
			ff.raw("%s\n", d)
		}
		q := func(l []string) string {
			s := []string{}
			for _, x := range l {
				s = append(s, fmt.Sprintf("%q", x))
			}
			return "[" + strings.Join(s, ", ") + "]"
		}
		ff.raw("/-- the translated page-size guards of all paged getters, by name -/\ndef pageGuards : List (String × (BitVec 32 → Go.Res Unit)) := [%s]\n",
			func() string {
				l := []string{}
				for _, n := range pgNames {
					l = append(l, fmt.Sprintf("(%q, %s)", n, n))
				}
				return strings.Join(l, ",\n  ")
			}())
		ff.raw("def unguardedPagedGetters : List String := %s\n\n", q(pgBad))
		ff.raw("def translatedNames : List String := %s\n", q(ok))
		ff.raw("def untranslatableNames : List String := %s\n", q(bad))
		ff.raw("\nend ZV.Gen.Translated\nnamespace ZV.Gen\n")
		return ff, nil
	})
}
