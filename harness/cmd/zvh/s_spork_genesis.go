package main

import (
	"fmt"
	"sort"
	"strings"

	"github.com/zenon-network/go-zenon/chain"
	"github.com/zenon-network/go-zenon/chain/genesis"
	g "github.com/zenon-network/go-zenon/chain/genesis/mock"
	"github.com/zenon-network/go-zenon/chain/nom"
	"github.com/zenon-network/go-zenon/chain/store"
	"github.com/zenon-network/go-zenon/common"
	"github.com/zenon-network/go-zenon/common/types"
	"github.com/zenon-network/go-zenon/verifier"
	"github.com/zenon-network/go-zenon/vm/constants"
	"github.com/zenon-network/go-zenon/vm/embedded/definition"
)

// ---------------------------------------------------------------------------------------------------
// spork stream (C17), family "sporks DEFINED IN THE GENESIS CONFIGURATION" (GenesisConfig.SporkConfig: how a devnet /
// testnet starts with features switched on). The real node is started from the mock genesis with a generated SporkConfig:
// per implemented spork (accelerator, bridge&liquidity, htlc) and for one or two further ids one of
//   act0      Activated, EnforcementHeight 0                      (enforced from the first momentum after genesis)
//   actLow    Activated, EnforcementHeight 1..8                   (below / at / just above 1 + the minimum activation delay)
//   actLater  Activated, EnforcementHeight 9..13
//   created   defined, not activated                              (activated later by a transaction - or never)
//   absent    not in the configuration                            (possibly created and activated by transactions)
// and the chain is walked momentum by momentum from height 2 to past every enforcement height. On EVERY height:
// IsSporkActive of every spork (store by identifier and frontier store), the unimplemented-spork report, the spork
// contract's record of every spork, and the send-time validation of ALL gated methods (plus a sample of the others) for a
// block acknowledging that momentum; real calls to a gated contract are inserted at low heights and must be answered.
// On the way the spork key (a third of the scenarios also the community key inside its window, always also an account
// without any key) tries to activate the genesis sporks AGAIN - at heights 2..4, before / at / after their enforcement
// heights -, activates the created ones, repeats that, creates and activates one more spork, activates an unknown id.
// Compared with the Lean model (S-genesis lines define the initial contract state; Model/Spork.lean defineGenesis,
// theorems genesis_gate_by_height / genesis_activation_not_repeated / genesis_feature_never_switched_off).
// Model-free monitors, stated on the configuration and the calls alone:
//   * a spork is active on the store of height h >= 2 iff it is activated and its enforcement height <= h, where the
//     enforcement height is the CONFIGURED one for a spork activated in the genesis configuration (0: from height 2 on)
//     and acknowledged height + minimum delay of the FIRST successful activation otherwise;
//   * a gated method is available for a block acknowledging height h iff its own spork is active at h by that rule;
//   * an activation call for an activated spork never succeeds; the contract's record (Activated, EnforcementHeight) of
//     an activated spork never changes; a spork active at h is active at h+1; an accepted call to a gated contract is
//     answered within a few momentums;
//   * a binary without the spork gets the unimplemented-spork report on every height from the enforcement height on.
// ---------------------------------------------------------------------------------------------------

type gsRec struct {
	name      string
	tag       string // acc / bridge / htlc / extra
	bound     *types.ImplementedSpork
	kind      string
	id        types.Hash
	exists    bool   // the contract has a record
	activated bool   // expected
	enf       uint64 // expected enforcement height (valid when activated)
	genesis   bool   // activated by the genesis configuration
	recorded  uint64 // height of the momentum that confirmed the first successful activation (0: genesis)
	actAt     uint64 // frontier height at which the spork key activates a created spork (0: never)
	again     []uint64
	lastAct   bool
}

func (s *gsRec) descr() string {
	switch {
	case s.genesis:
		return fmt.Sprintf("%s spork %s, defined in the genesis configuration as activated with enforcement height %d", s.tag, h8(s.id), s.enf)
	case s.activated:
		return fmt.Sprintf("%s spork %s (%s), activated by a call confirmed at height %d: enforcement height %d", s.tag, h8(s.id), s.kind, s.recorded, s.enf)
	}
	return fmt.Sprintf("%s spork %s (%s), not activated", s.tag, h8(s.id), s.kind)
}

func sporkGenesisScenario(c *Ctx, id int, variant int) {
	origGate := verifier.ReceiverMismatchEnforcementHeight
	origMap := map[types.Hash]bool{}
	for k, v := range types.ImplementedSporksMap {
		origMap[k] = v
	}
	origCfg := g.EmbeddedGenesis.SporkConfig
	origComm, origStart, origEnd := types.CommunitySporkAddress, definition.CommunitySporkAddressStartHeight, definition.CommunitySporkAddressEndHeight
	defer func() {
		verifier.ReceiverMismatchEnforcementHeight = origGate
		g.EmbeddedGenesis.SporkConfig = origCfg
		types.CommunitySporkAddress, definition.CommunitySporkAddressStartHeight, definition.CommunitySporkAddressEndHeight = origComm, origStart, origEnd
		for k := range types.ImplementedSporksMap {
			delete(types.ImplementedSporksMap, k)
		}
		for k, v := range origMap {
			types.ImplementedSporksMap[k] = v
		}
	}()
	verifier.ReceiverMismatchEnforcementHeight = 0

	recs := []*gsRec{
		{name: "gen-accelerator", tag: "acc", bound: types.AcceleratorSpork},
		{name: "gen-bridge-liq", tag: "bridge", bound: types.BridgeAndLiquiditySpork},
		{name: "gen-htlc", tag: "htlc", bound: types.HtlcSpork},
		{name: "gen-extra-1", tag: "extra"},
		{name: "gen-extra-2", tag: "extra"},
	}
	low := func() uint64 { return []uint64{1, 2, 3, 5, 6, 7, 8}[c.R.Intn(7)] }
	later := func() uint64 { return uint64(9 + c.R.Intn(5)) }
	setKind := func(s *gsRec, kind string) {
		s.kind = kind
		switch kind {
		case "act0":
			s.exists, s.activated, s.genesis, s.enf = true, true, true, 0
		case "actLow":
			s.exists, s.activated, s.genesis, s.enf = true, true, true, low()
		case "actLater":
			s.exists, s.activated, s.genesis, s.enf = true, true, true, later()
		case "created":
			s.exists = true
		}
	}
	switch variant % 4 {
	case 0: // everything on from the start
		for _, s := range recs[:3] {
			setKind(s, "act0")
		}
		setKind(recs[3], "created")
		setKind(recs[4], "actLow")
	case 1: // in order, the last one activated by a transaction at a low height
		setKind(recs[0], "act0")
		setKind(recs[1], "act0")
		setKind(recs[2], "created")
		setKind(recs[3], "act0")
		setKind(recs[4], "absent")
	case 2: // in order with rising enforcement heights
		setKind(recs[0], "act0")
		setKind(recs[1], "actLow")
		setKind(recs[2], "actLater")
		setKind(recs[3], "actLow")
		setKind(recs[4], "created")
	default:
		kinds := []string{"act0", "act0", "actLow", "actLater", "created", "absent"}
		for _, s := range recs {
			setKind(s, kinds[c.R.Intn(len(kinds))])
		}
		if c.R.Intn(2) == 0 {
			// enforcement heights of the three implemented sporks in the order accelerator <= bridge <= htlc where all are activated
			var es []uint64
			for _, s := range recs[:3] {
				if s.genesis {
					es = append(es, s.enf)
				}
			}
			sort.Slice(es, func(i, j int) bool { return es[i] < es[j] })
			k := 0
			for _, s := range recs[:3] {
				if s.genesis {
					s.enf = es[k]
					k++
				}
			}
		}
	}
	community := variant%4 == 3
	var winA, winB uint64
	if community {
		winA = uint64(2 + c.R.Intn(3))
		winB = winA + uint64(4+c.R.Intn(8))
		types.CommunitySporkAddress = g.User3.Address
		definition.CommunitySporkAddressStartHeight, definition.CommunitySporkAddressEndHeight = winA, winB
		c.Hit("genesis-scenario-with-community-key")
	}
	cfg := &genesis.SporkConfig{}
	var cfgDescr []string
	for _, s := range recs {
		c.R.Read(s.id[:])
		c.Hit("genesis-spork-kind-" + s.kind)
		if !s.exists {
			cfgDescr = append(cfgDescr, s.tag+"=absent")
			continue
		}
		cfg.Sporks = append(cfg.Sporks, &definition.Spork{Id: s.id, Name: s.name, Description: "defined in the genesis configuration", Activated: s.activated, EnforcementHeight: s.enf})
		// every spork of the configuration is one this binary implements (chain.Init terminates the process otherwise)
		types.ImplementedSporksMap[s.id] = true
		if s.activated {
			cfgDescr = append(cfgDescr, fmt.Sprintf("%s=activated@%d", s.tag, s.enf))
		} else {
			cfgDescr = append(cfgDescr, s.tag+"=created")
		}
	}
	c.R.Shuffle(len(cfg.Sporks), func(i, j int) { cfg.Sporks[i], cfg.Sporks[j] = cfg.Sporks[j], cfg.Sporks[i] })
	g.EmbeddedGenesis.SporkConfig = cfg
	cfgText := "genesis SporkConfig {" + strings.Join(cfgDescr, " ") + "}"

	var n *Node
	if p := safely(func() { n = NewNode() }); p != "" || n == nil {
		c.Fail("spork-genesis run=%d: the node does not start on a genesis configuration that defines sporks (%s): %s", id, cfgText, p)
		return
	}
	defer n.Stop()
	fail := func(format string, a ...interface{}) {
		c.Fail("spork-genesis run=%d h=%d [%s]: %s", id, n.Height(), cfgText, fmt.Sprintf(format, a...))
	}
	c.Emit("S-reset")
	if community {
		c.Emit("S-window %d %d", winA, winB)
	}
	for _, s := range recs {
		if s.exists {
			c.Emit("S-genesis %s %v %d", h8(s.id), s.activated, s.enf)
		}
		if s.bound != nil {
			s.bound.SporkId = s.id
			c.Emit("S-bind %s %s", s.tag, h8(s.id))
		}
	}
	c.Hit("genesis-scenario")

	rows := methodTableRows()
	keySet := map[string]bool{}
	for _, r := range rows {
		keySet[r[1]+"."+r[2]] = true
	}
	pool := &argPool{addrs: []types.Address{g.User1.Address, g.User2.Address, types.TokenContract}, tokens: []types.ZenonTokenStandard{types.ZnnTokenStandard, types.QsrTokenStandard},
		names: []string{g.Pillar1Name}}
	expectActive := func(s *gsRec, h uint64) bool {
		return s.exists && s.activated && s.enf <= h && h >= s.recorded && h != 1
	}
	implList := func(without *gsRec) string {
		var ids []string
		for _, s := range recs {
			if s.exists && s != without {
				ids = append(ids, h8(s.id))
			}
		}
		sort.Strings(ids)
		if len(ids) == 0 {
			return "none"
		}
		return strings.Join(ids, ",")
	}
	storeAt := func(h uint64) store.Momentum {
		m, err := n.Chain().GetFrontierMomentumStore().GetMomentumByHeight(h)
		if err != nil || m == nil {
			return nil
		}
		return n.Chain().GetMomentumStore(m.Identifier())
	}
	abort := false
	pending := map[types.Hash]uint64{} // accepted calls to a gated contract that are not answered yet -> frontier height when sent
	observe := func(h uint64, live bool) {
		st := storeAt(h)
		if st == nil {
			fail("no store for momentum %d", h)
			return
		}
		onChain := map[types.Hash]*definition.Spork{}
		for _, sp := range definition.GetAllSporks(st.GetAccountStore(types.SporkContract).Storage()) {
			onChain[sp.Id] = sp
		}
		for _, s := range recs {
			if !s.exists {
				continue
			}
			probe := s.bound
			if probe == nil {
				probe = &types.ImplementedSpork{SporkId: s.id}
			}
			act, err := st.IsSporkActive(probe)
			if err != nil {
				fail("IsSporkActive: %v", err)
				continue
			}
			c.Emit("S-active %d %s | %v", h, h8(s.id), act)
			c.Hit(fmt.Sprintf("genesis-active-%v", act))
			if h >= 2 && h <= constants.SporkMinHeightDelay+1 {
				c.Hit(fmt.Sprintf("genesis-active-%v-at-height<=delay+1", act))
			}
			if want := expectActive(s, h); act != want {
				fail("C17: IsSporkActive on the store of height %d answers %v for the %s — by height alone it must be %v", h, act, s.descr(), want)
			}
			if live && h == n.Height() {
				if lv, err := n.Chain().GetFrontierMomentumStore().IsSporkActive(probe); err != nil || lv != act {
					fail("C17: IsSporkActive(%s) at height %d: the frontier store answers %v (%v), the store of the same momentum by identifier %v", h8(s.id), h, lv, err, act)
				}
				if s.lastAct && !act {
					fail("C17: the %s was active at height %d and is not at height %d: a feature that was enforced is switched off", s.descr(), h-1, h)
				}
				s.lastAct = act
			}
			// the contract's record: an activated spork keeps its enforcement height for ever
			if h >= s.recorded {
				sp := onChain[s.id]
				switch {
				case sp == nil:
					fail("C17: the spork contract as of height %d has no record of the %s", h, s.descr())
				case s.activated && (!sp.Activated || sp.EnforcementHeight != s.enf):
					fail("C17: the spork contract as of height %d records Activated=%v EnforcementHeight=%d for the %s: the enforcement height of an activated spork changed", h, sp.Activated, sp.EnforcementHeight, s.descr())
					abort = true
				case !s.activated && sp.Activated:
					fail("C17: the spork contract as of height %d records the %s as activated (EnforcementHeight=%d) although no activation call succeeded", h, s.descr(), sp.EnforcementHeight)
					abort = true
				}
			}
		}
		_, unimpl, err := chain.GotAllActiveSporksImplemented(st)
		if err != nil {
			fail("GotAllActiveSporksImplemented: %v", err)
			return
		}
		var got []string
		for _, u := range unimpl {
			got = append(got, h8(u.Id))
		}
		sort.Strings(got)
		res := strings.Join(got, ",")
		if res == "" {
			res = "none"
		}
		c.Emit("S-unimpl %d %s | %s", h, implList(nil), res)
		if res != "none" {
			fail("C17: at height %d the unimplemented-spork report names %s although the binary implements every spork of this chain", h, res)
		}
	}
	// availability of gated methods for a block acknowledging the momentum of height h (send-time validation, nothing inserted)
	probe := func(h uint64, all bool) {
		m, _ := n.Chain().GetFrontierMomentumStore().GetMomentumByHeight(h)
		if m == nil {
			return
		}
		from := g.User2.Address
		flags := [3]bool{expectActive(recs[0], h), expectActive(recs[1], h), expectActive(recs[2], h)}
		for _, ca := range allContractABIs {
			for _, name := range sortedMethodNames(ca.abi) {
				key := embeddedNames[ca.addr][2:] + "." + name
				if !keySet[key] {
					continue
				}
				own := ownSpork(rows, key)
				if c.Tier != "thorough" {
					if own < 0 && c.R.Intn(8) != 0 {
						continue
					}
					if own >= 0 && !all && c.R.Intn(4) != 0 {
						continue
					}
				}
				data, err := c.genCall(ca.abi, name, pool)
				if err != nil {
					continue
				}
				tpl := &nom.AccountBlock{BlockType: nom.BlockTypeUserSend, Address: from, ToAddress: ca.addr, Data: data, MomentumAcknowledged: m.Identifier()}
				var gerr error
				if p := safely(func() { _, gerr = n.Sup.GenerateFromTemplate(tpl, keyOf(from).Signer) }); p != "" {
					fail("C09/C17: send-time validation of %s acknowledged at %d panicked: %s", key, h, p)
					continue
				}
				avail := gerr != constants.ErrContractMethodNotFound && gerr != constants.ErrContractDoesntExist
				c.Emit("S-avail %d %s | %v", h, key, avail)
				c.Hit(fmt.Sprintf("genesis-avail-%v", avail))
				if own >= 0 {
					if h <= constants.SporkMinHeightDelay+1 {
						c.Hit(fmt.Sprintf("genesis-gated-call-at-height<=delay+1-avail=%v", avail))
					}
					if avail != flags[own] {
						tag := "C17"
						if avail && !flags[own] && ((own == 0 && (flags[1] || flags[2])) || (own == 1 && flags[2])) {
							tag = "C17 spork-order" // F17: table selection by priority htlc > bridge > accelerator
						}
						fail("%s: method %s for a block acknowledging height %d is available=%v (%v) while its guarding spork is the %s, i.e. enforced at that height = %v [acc=%v bridge=%v htlc=%v]", tag, key, h, avail, gerr, recs[own].descr(), flags[own], flags[0], flags[1], flags[2])
					}
				} else if !avail {
					fail("C17: ungated method %s is unavailable for a block acknowledging height %d", key, h)
				}
			}
		}
	}
	sendSpork := func(from types.Address, data []byte) (*nom.AccountBlock, error) {
		return n.Submit(&nom.AccountBlock{BlockType: nom.BlockTypeUserSend, Address: from, ToAddress: types.SporkContract, Data: data})
	}
	senderName := func(a types.Address) string {
		if a == g.Spork.Address {
			return "sporkKey"
		}
		if community && a == types.CommunitySporkAddress {
			return "community"
		}
		return "other"
	}
	byID := func(id types.Hash) *gsRec {
		for _, s := range recs {
			if s.id == id {
				return s
			}
		}
		return nil
	}
	var txSpork *gsRec // the spork created by a transaction on the way
	n.OnMomentum = func(dm *nom.DetailedMomentum) {
		for _, b := range dm.AccountBlocks {
			if b.BlockType == nom.BlockTypeContractReceive {
				delete(pending, b.FromBlockHash)
			}
			if b.BlockType != nom.BlockTypeContractReceive || b.Address != types.SporkContract {
				continue
			}
			send, _ := n.Chain().GetFrontierMomentumStore().GetAccountBlockByHash(b.FromBlockHash)
			if send == nil {
				continue
			}
			status := common.BytesToUint64(b.Data)
			res := "fail"
			if status == 1 {
				res = "ok"
			}
			m, err := definition.ABISpork.MethodById(send.Data)
			if err != nil {
				continue
			}
			fh := b.MomentumAcknowledged.Height
			switch m.Name {
			case definition.SporkCreateMethodName:
				c.Emit("S-create %s %d %s | %s", senderName(send.Address), fh, h8(send.Hash), res)
				c.Hit("genesis-create-" + res)
				if s := byID(send.Hash); s != nil && status == 1 {
					s.exists = true
				}
			case definition.SporkActivateMethodName:
				sid := new(types.Hash)
				definition.ABISpork.UnpackMethod(sid, m.Name, send.Data)
				c.Emit("S-activate %s %d %s | %s", senderName(send.Address), fh, h8(*sid), res)
				s := byID(*sid)
				if s == nil {
					c.Hit("genesis-activate-unknown-id-" + res)
					continue
				}
				c.Hit(fmt.Sprintf("genesis-activate-%s-already-activated=%v-%s", s.kind, s.activated, res))
				if status == 1 && s.activated {
					fail("C17: activation cannot be repeated — ActivateSpork by %s, evaluated against frontier height %d and confirmed at height %d, SUCCEEDED for the %s", senderName(send.Address), fh, dm.Momentum.Height, s.descr())
					abort = true
				}
				if status == 1 && !s.activated {
					s.activated, s.enf, s.recorded = true, fh+constants.SporkMinHeightDelay, dm.Momentum.Height
					s.again = []uint64{dm.Momentum.Height, s.enf - 1, s.enf + 1}
				}
				if status != 1 && !s.activated && s.exists && senderName(send.Address) == "sporkKey" {
					fail("C17: the spork key's activation of the %s (evaluated against frontier height %d) was refused", s.descr(), fh)
				}
			}
		}
		observe(dm.Momentum.Height, true)
		for hsh, at := range pending {
			if dm.Momentum.Height >= at+5 {
				fail("C17: a call to a gated contract (send block %s) accepted at frontier height %d is still unanswered at height %d", h8(hsh), at, dm.Momentum.Height)
				delete(pending, hsh)
			}
		}
	}

	// the plan: frontier heights at which the spork key tries to activate the genesis sporks again / for the first time
	for _, s := range recs {
		switch {
		case s.genesis:
			s.again = []uint64{uint64(1 + c.R.Intn(4))}
			if s.enf > 1 {
				s.again = append(s.again, s.enf-1, s.enf+uint64(c.R.Intn(2)))
			} else {
				s.again = append(s.again, uint64(5+c.R.Intn(6)))
			}
		case s.kind == "created" && c.R.Intn(5) != 0:
			s.actAt = uint64(1 + c.R.Intn(4))
		}
	}
	if c.R.Intn(2) == 0 {
		txSpork = &gsRec{name: "tx-spork", tag: "extra", kind: "by-transaction"}
		recs = append(recs, txSpork)
		c.Hit("genesis-scenario-with-a-spork-created-by-transaction")
	}
	observe(1, false)
	htlcCalls := 0
	for step := 0; step < 30 && !abort; step++ {
		h := n.Height() // frontier
		T := uint64(constants.SporkMinHeightDelay + 3)
		for _, s := range recs {
			if s.activated && s.enf+3 > T {
				T = s.enf + 3
			}
			if !s.activated && s.actAt != 0 && s.actAt+constants.SporkMinHeightDelay+4 > T {
				T = s.actAt + constants.SporkMinHeightDelay + 4
			}
		}
		if h >= T {
			break
		}
		for _, s := range recs {
			if !s.exists {
				continue
			}
			send := false
			for _, a := range s.again {
				send = send || a == h
			}
			if s.activated && send {
				who := g.Spork.Address
				if community && winA <= h && h+1 < winB && c.R.Intn(2) == 0 {
					who = types.CommunitySporkAddress
					c.Hit("genesis-reactivation-by-community-key")
				}
				if _, err := sendSpork(who, definition.ABISpork.PackMethodPanic(definition.SporkActivateMethodName, s.id)); err != nil {
					c.Hit("genesis-reactivation-send-refused")
				} else {
					c.Hit(fmt.Sprintf("genesis-reactivation-sent-enf=%d-frontier<=delay=%v", s.enf, h <= constants.SporkMinHeightDelay))
				}
			}
			if !s.activated && s.actAt == h {
				if c.R.Intn(2) == 0 {
					if _, err := sendSpork(g.User1.Address, definition.ABISpork.PackMethodPanic(definition.SporkActivateMethodName, s.id)); err == nil {
						fail("C17: spork activation by an account without the spork key was accepted")
					}
					c.Hit("genesis-activate-by-wrong-key")
				}
				if _, err := sendSpork(g.Spork.Address, definition.ABISpork.PackMethodPanic(definition.SporkActivateMethodName, s.id)); err != nil {
					fail("activation of the %s refused at send time: %v", s.descr(), err)
				}
				c.Hit("genesis-created-spork-activation-sent")
			}
		}
		if txSpork != nil && !txSpork.exists && txSpork.id.IsZero() && h >= 2 && c.R.Intn(2) == 0 {
			if b, err := sendSpork(g.Spork.Address, definition.ABISpork.PackMethodPanic(definition.SporkCreateMethodName, txSpork.name, "verif")); err == nil {
				txSpork.id = b.Hash
				types.ImplementedSporksMap[b.Hash] = true
				txSpork.actAt = h + 2 + uint64(c.R.Intn(2))
			}
		}
		if h == 3 || (h > 3 && c.R.Intn(6) == 0) {
			var bogus types.Hash
			c.R.Read(bogus[:])
			sendSpork(g.Spork.Address, definition.ABISpork.PackMethodPanic(definition.SporkActivateMethodName, bogus))
			if _, err := sendSpork(g.User4.Address, definition.ABISpork.PackMethodPanic(definition.SporkCreateMethodName, "by-nobody", "x")); err == nil {
				fail("C17: spork creation by an account without the spork key was accepted")
			}
		}
		// a real call to the gated htlc contract acknowledging the frontier (the first momentums of the network, then now and then)
		if h >= 2 && (h <= constants.SporkMinHeightDelay+2 || c.R.Intn(3) == 0) {
			name := []string{definition.DenyHtlcProxyUnlockMethodName, definition.AllowHtlcProxyUnlockMethodName}[htlcCalls%2]
			htlcCalls++
			b, err := n.Submit(&nom.AccountBlock{BlockType: nom.BlockTypeUserSend, Address: g.User1.Address, ToAddress: types.HtlcContract, Data: definition.ABIHtlc.PackMethodPanic(name)})
			want := expectActive(recs[2], h)
			gate := err == constants.ErrContractMethodNotFound || err == constants.ErrContractDoesntExist
			c.Hit(fmt.Sprintf("genesis-real-htlc-call-accepted=%v-refused-by-the-gate=%v", err == nil, gate))
			switch {
			case err != nil && !gate:
				// refused for another reason (plasma …): says nothing about the gate
			case (err == nil) != want:
				fail("C17: a call of htlc.%s acknowledging height %d was accepted=%v (%v); its guarding spork is the %s, i.e. enforced at that height = %v", name, h, err == nil, err, recs[2].descr(), want)
			case err == nil:
				pending[b.Hash] = h
			}
		}
		if _, err := n.Momentum(); err != nil {
			fail("momentum: %v", err)
			return
		}
		nh := n.Height()
		near := nh <= constants.SporkMinHeightDelay+2
		for _, s := range recs {
			if s.activated && nh+1 >= s.enf && nh <= s.enf+1 {
				near = true
			}
		}
		probe(nh, near)
	}
	if abort {
		return
	}
	// blocks acknowledging OLDER momentums: the acknowledged momentum decides, whatever the frontier is
	for _, h := range []uint64{1, 2, uint64(3 + c.R.Intn(3)), constants.SporkMinHeightDelay, constants.SporkMinHeightDelay + 1} {
		if h < n.Height() {
			probe(h, h != 1 && c.R.Intn(2) == 0)
			c.Hit("genesis-probe-historical")
		}
	}
	// every height once more through the historical stores
	for h := uint64(1); h <= n.Height(); h++ {
		observe(h, false)
	}
	// an older binary on this ledger: without the spork in its list it must get the report on every height from the
	// enforcement height on (height 1 included for a spork the configuration enforces from 0 or 1)
	for _, s := range recs {
		if !s.exists || !s.activated {
			continue
		}
		delete(types.ImplementedSporksMap, s.id)
		for h := uint64(1); h <= n.Height(); h++ {
			st := storeAt(h)
			if st == nil {
				continue
			}
			_, unimpl, err := chain.GotAllActiveSporksImplemented(st)
			if err != nil {
				fail("GotAllActiveSporksImplemented: %v", err)
				break
			}
			named := false
			var got []string
			for _, u := range unimpl {
				got = append(got, h8(u.Id))
				named = named || u.Id == s.id
			}
			sort.Strings(got)
			res := strings.Join(got, ",")
			if res == "" {
				res = "none"
			}
			c.Emit("S-unimpl %d %s | %s", h, implList(s), res)
			should := s.enf <= h && h >= s.recorded
			if named != should {
				fail("C17: a binary that does not implement the %s gets the unimplemented-spork report %v on the store of height %d, expected %v", s.descr(), named, h, should)
				break
			}
			c.Hit(fmt.Sprintf("genesis-old-binary-report-%v", should))
		}
		types.ImplementedSporksMap[s.id] = true
	}
}
