package main

import (
	"fmt"
	"math/big"
	"os"
	"os/exec"
	"sort"
	"strings"

	"github.com/zenon-network/go-zenon/chain"
	"github.com/zenon-network/go-zenon/chain/genesis"
	g "github.com/zenon-network/go-zenon/chain/genesis/mock"
	"github.com/zenon-network/go-zenon/chain/nom"
	"github.com/zenon-network/go-zenon/chain/store"
	"github.com/zenon-network/go-zenon/common"
	"github.com/zenon-network/go-zenon/common/db"
	"github.com/zenon-network/go-zenon/common/types"
	"github.com/zenon-network/go-zenon/verifier"
	"github.com/zenon-network/go-zenon/vm/constants"
	"github.com/zenon-network/go-zenon/vm/embedded/definition"
)

// ---------------------------------------------------------------------------------------------------
// spork stream (C17): scenarios on a real node with the genesis spork key: the three implemented sporks and an
// unknown one are created and activated in generated orders and at generated heights (also by the wrong key, twice,
// before creation). Observed and compared with the Lean spork model:
//   * the outcome of every create / activate call (status of the contract receive),
//   * IsSporkActive of every spork on the store of EVERY momentum height (historical views),
//   * GotAllActiveSporksImplemented on every height,
//   * availability of every (contract, method) for blocks acknowledging momentums around each enforcement height,
//     decided by the real send-time validation (error = method-not-found / contract-doesn't-exist or not).
// Model-free monitors: activity never before the enforcement height nor at the genesis store, monotone in height, on from
// max(enforcement height, height of the recording momentum); enforcement height = acknowledged height + minimum delay;
// a second activation never changes anything; a gated method is available iff its own spork is active.
// Reorganisations (every second scenario): the node is rolled back with chain.RollbackTo across creation / activation /
// enforcement heights of the scenario's sporks and continues DIFFERENTLY (no activation, a later one, another spork first,
// or the same calls again); every height of the surviving branch is observed again (S-rollback line: the model's state
// becomes the one recorded for the fork point and the abandoned heights are forgotten). Model-free: IsSporkActive on the
// store of every height equals the answer read off the spork contract's storage as of that momentum — whatever this
// process has seen before — and a gated method is available iff the CONTRACT of the acknowledged momentum says so.
// ---------------------------------------------------------------------------------------------------

type sporkRec struct {
	name      string
	id        types.Hash
	bound     *types.ImplementedSpork // nil for the unknown spork
	tag       string                  // acc / bridge / htlc / unknown
	created   bool
	createdAt uint64 // height of the momentum that confirmed the creating receive
	enf       uint64 // expected enforcement height once activated (from the acknowledged momentum of the first successful activation)
	recorded  uint64 // height of the momentum that confirmed the activating receive
}

func init() {
	register("spork", func(c *Ctx) {
		// the real GetEmbeddedMethod under all 8 regimes against the reviewed gate table (s_spork_gate.go)
		sporkTableMonitor(c)
		for i := 0; i < c.N; i++ {
			sporkScenario(c, i)
			// the family "the gate table": every spork-introduced method around every enforcement height, all six activation
			// orders in rotation, send time and receive time (s_spork_gate.go)
			sporkGateScenario(c, i)
			if i%3 == 0 {
				// the family "sporks defined in the genesis configuration" (s_spork_genesis.go), its four shapes in rotation
				sporkGenesisScenario(c, i, i/3+int(c.Seed%4))
			}
		}
	})
}

func sporkScenario(c *Ctx, id int) {
	origGate := verifier.ReceiverMismatchEnforcementHeight
	origMap := map[types.Hash]bool{}
	for k, v := range types.ImplementedSporksMap {
		origMap[k] = v
	}
	defer func() {
		verifier.ReceiverMismatchEnforcementHeight = origGate
		for k := range types.ImplementedSporksMap {
			delete(types.ImplementedSporksMap, k)
		}
		for k, v := range origMap {
			types.ImplementedSporksMap[k] = v
		}
	}()
	verifier.ReceiverMismatchEnforcementHeight = 0
	// the community spork key: in a third of the scenarios an account we hold the key of is made the community address and
	// its window [start, end) is a few momentums wide (both are package variables of the real code, as its own tests use
	// them); the mainnet window cannot be reached on a test chain
	origComm, origStart, origEnd := types.CommunitySporkAddress, definition.CommunitySporkAddressStartHeight, definition.CommunitySporkAddressEndHeight
	defer func() {
		types.CommunitySporkAddress, definition.CommunitySporkAddressStartHeight, definition.CommunitySporkAddressEndHeight = origComm, origStart, origEnd
	}()
	community := id%3 == 1
	var winA, winB uint64
	if community {
		winA = uint64(2 + c.R.Intn(12))
		winB = winA + uint64(5+c.R.Intn(22))
		types.CommunitySporkAddress = g.User3.Address
		definition.CommunitySporkAddressStartHeight, definition.CommunitySporkAddressEndHeight = winA, winB
		c.Hit("scenario-with-community-key")
	}
	n := NewNode()
	defer n.Stop()
	c.Emit("S-reset")
	if community {
		c.Emit("S-window %d %d", winA, winB)
	}
	fail := func(format string, a ...interface{}) {
		c.Fail("spork run=%d h=%d: %s", id, n.Height(), fmt.Sprintf(format, a...))
	}
	abort := false
	var commCreated []types.Hash // sporks created by the community key (never activated by this scenario unless the window allows it)
	var commCreatedAt []uint64   // … and the height of the momentum that confirmed each creation (a rollback below it removes the spork)
	var ghosts []types.Hash      // ids of the scenario's sporks whose creation was abandoned by a rollback: they exist on no momentum of the chain any more
	reorgNote := ""              // what this node went through (for the failure texts)
	commN := 0

	sporks := []*sporkRec{
		{name: "spork-accelerator", bound: types.AcceleratorSpork, tag: "acc"},
		{name: "spork-bridge-liq", bound: types.BridgeAndLiquiditySpork, tag: "bridge"},
		{name: "spork-htlc-xx", bound: types.HtlcSpork, tag: "htlc"},
		{name: "spork-unknown", tag: "unknown"},
	}
	inOrder := c.R.Intn(3) != 0 // two thirds of the scenarios activate in the order accelerator, bridge, htlc
	order := []int{0, 1, 2, 3}
	if !inOrder {
		c.R.Shuffle(len(order), func(i, j int) { order[i], order[j] = order[j], order[i] })
		c.Hit("scenario-out-of-order")
	} else {
		// the unknown spork goes anywhere
		p := c.R.Intn(4)
		base := []int{0, 1, 2}
		order = append(append(append([]int{}, base[:p]...), 3), base[p:]...)
		c.Hit("scenario-in-order")
	}
	// the unknown spork, if present, comes last: the real node terminates the process (os.Exit) when it is enforced,
	// so the scenario stops one momentum before that; the termination itself is observed in a child process
	withUnknown := c.R.Intn(4) == 0
	{
		var o2 []int
		for _, x := range order {
			if x != 3 {
				o2 = append(o2, x)
			}
		}
		order = o2
		if withUnknown {
			order = append(order, 3)
			c.Hit("scenario-with-unknown-spork")
		}
	}

	sendSpork := func(from types.Address, data []byte) (*nom.AccountBlock, error) {
		return n.Submit(&nom.AccountBlock{BlockType: nom.BlockTypeUserSend, Address: from, ToAddress: types.SporkContract, Data: data})
	}
	senderName := func(a types.Address) string {
		if a == g.Spork.Address {
			return "sporkKey"
		}
		if community && a == types.CommunitySporkAddress {
			return "community"
		}
		return "other"
	}

	// per height observations, issued after every momentum
	implementedIDs := func() []string {
		var ids []string
		for _, s := range sporks {
			if s.bound != nil && s.created {
				ids = append(ids, h8(s.id))
			}
		}
		sort.Strings(ids)
		return ids
	}
	lastActive := map[string]bool{}
	// the answer read off the spork contract's storage as of the momentum of store `st` (height h), through the definition
	// getters — independent of IsSporkActive and of anything the node process has seen before
	contractSays := func(st store.Momentum, h uint64, sid types.Hash) (bool, string) {
		for _, sp := range definition.GetAllSporks(st.GetAccountStore(types.SporkContract).Storage()) {
			if sp.Id == sid {
				return sp.Activated && sp.EnforcementHeight <= h && h != 1, fmt.Sprintf("Activated=%v EnforcementHeight=%d", sp.Activated, sp.EnforcementHeight)
			}
		}
		return false, "no such spork"
	}
	// monitor (C17, model-free): the answer depends only on the acknowledged momentum's state
	sameAsContract := func(st store.Momentum, h uint64, sid types.Hash, act bool, via string) bool {
		want, info := contractSays(st, h, sid)
		if act != want {
			fail("C17: IsSporkActive(%s) on the store of height %d (%s) answers %v, but the spork contract as of that momentum says %s, i.e. %v%s", h8(sid), h, via, act, info, want, reorgNote)
			return false
		}
		return true
	}
	observeHeight := func(h uint64) {
		m, err := n.Chain().GetFrontierMomentumStore().GetMomentumByHeight(h)
		if err != nil || m == nil {
			fail("no momentum %d", h)
			return
		}
		st := n.Chain().GetMomentumStore(m.Identifier())
		if st == nil {
			fail("no store for momentum %d", h)
			return
		}
		for _, s := range sporks {
			if !s.created {
				continue
			}
			probe := s.bound
			if probe == nil {
				probe = &types.ImplementedSpork{SporkId: s.id}
			}
			act, err := st.IsSporkActive(probe)
			if err != nil {
				fail("IsSporkActive: %v", err)
				continue
			}
			c.Emit("S-active %d %s | %v", h, h8(s.id), act)
			c.Hit(fmt.Sprintf("active-%v", act))
			sameAsContract(st, h, s.id, act, "GetMomentumStore")
			if h == n.Height() {
				// the live view of the same momentum
				fst := n.Chain().GetFrontierMomentumStore()
				if live, err := fst.IsSporkActive(probe); err != nil || live != act {
					fail("C17: IsSporkActive(%s) at height %d: the frontier store answers %v (%v), the store of the same momentum by identifier %v%s", h8(s.id), h, live, err, act, reorgNote)
				} else {
					sameAsContract(fst, h, s.id, live, "GetFrontierMomentumStore")
				}
			}
			key := h8(s.id)
			// monitors
			if act && (s.enf == 0 || h < s.enf || h == 1) {
				fail("C17: spork %s is active on the store of height %d, below its enforcement height %d", s.name, h, s.enf)
			}
			if !act && s.enf != 0 && h >= s.enf && h >= s.recorded && s.recorded != 0 {
				fail("C17: spork %s is not active on the store of height %d although its enforcement height is %d (recorded at %d)", s.name, h, s.enf, s.recorded)
			}
			if lastActive[key] && !act {
				fail("C17: spork %s was active at height %d and is not at height %d", s.name, h-1, h)
			}
			lastActive[key] = act
		}
		// sporks of an abandoned branch: they are on no momentum of this chain
		for _, gid := range ghosts {
			act, err := st.IsSporkActive(&types.ImplementedSpork{SporkId: gid})
			if err != nil {
				fail("IsSporkActive: %v", err)
				continue
			}
			c.Emit("S-active %d %s | %v", h, h8(gid), act)
			c.Hit(fmt.Sprintf("active-abandoned-id-%v", act))
			sameAsContract(st, h, gid, act, "GetMomentumStore")
		}
		_, unimpl, err := chain.GotAllActiveSporksImplemented(st)
		if err != nil {
			fail("GotAllActiveSporksImplemented: %v", err)
			return
		}
		var got []string
		for _, u := range unimpl {
			got = append(got, h8(u.Id))
		}
		sort.Strings(got)
		res := strings.Join(got, ",")
		if res == "" {
			res = "none"
		}
		impl := strings.Join(implementedIDs(), ",")
		if impl == "" {
			impl = "none"
		}
		c.Emit("S-unimpl %d %s | %s", h, impl, res)
		// monitor: exactly the activated, enforced sporks that the binary does not implement
		for _, s := range sporks {
			should := s.bound == nil && s.enf != 0 && h >= s.enf && s.recorded != 0 && h >= s.recorded
			is := false
			for _, x := range got {
				if x == h8(s.id) {
					is = true
				}
			}
			if should != is && s.created {
				fail("C17: at height %d the unimplemented-spork report contains %s = %v, expected %v", h, s.name, is, should)
			}
		}
	}
	n.OnMomentum = func(dm *nom.DetailedMomentum) {
		// outcomes of spork contract receives in this momentum
		for _, b := range dm.AccountBlocks {
			if b.BlockType != nom.BlockTypeContractReceive || b.Address != types.SporkContract {
				continue
			}
			send, _ := n.Chain().GetFrontierMomentumStore().GetAccountBlockByHash(b.FromBlockHash)
			if send == nil {
				continue
			}
			status := common.BytesToUint64(b.Data)
			res := "fail"
			if status == 1 {
				res = "ok"
			}
			m, err := definition.ABISpork.MethodById(send.Data)
			if err != nil {
				continue
			}
			fh := b.MomentumAcknowledged.Height
			if community && send.Address == types.CommunitySporkAddress {
				inside := winA <= fh && fh < winB
				c.Hit(fmt.Sprintf("community-%s-%s-inside=%v-sendack-inside=%v", m.Name, res, inside, winA <= send.MomentumAcknowledged.Height && send.MomentumAcknowledged.Height < winB))
				if status == 1 && !inside {
					fail("C17: the community key's %s call was applied by a receive evaluated against frontier height %d, outside its window [%d,%d) (the send acknowledged height %d)", m.Name, fh, winA, winB, send.MomentumAcknowledged.Height)
					abort = true
				}
				if status != 1 && inside && m.Name == definition.SporkCreateMethodName {
					fail("C17: the community key's Create call evaluated against frontier height %d inside its window [%d,%d) was refused", fh, winA, winB)
				}
				if status == 1 && m.Name == definition.SporkCreateMethodName {
					commCreated = append(commCreated, send.Hash)
					commCreatedAt = append(commCreatedAt, dm.Momentum.Height)
				}
			}
			switch m.Name {
			case definition.SporkCreateMethodName:
				c.Emit("S-create %s %d %s | %s", senderName(send.Address), fh, h8(send.Hash), res)
				c.Hit("create-" + res)
				for _, s := range sporks {
					if !s.created && !s.id.IsZero() && s.id == send.Hash && status == 1 {
						// sent below the fork point of a rollback, received again on the surviving branch: the same id is back
						for i, gid := range ghosts {
							if gid == s.id {
								ghosts = append(ghosts[:i], ghosts[i+1:]...)
								break
							}
						}
						s.created = true
						c.Hit("reorg-creation-received-again")
					}
					if s.created && s.id == send.Hash && status == 1 {
						s.createdAt = dm.Momentum.Height
					}
				}
			case definition.SporkActivateMethodName:
				sid := new(types.Hash)
				definition.ABISpork.UnpackMethod(sid, m.Name, send.Data)
				c.Emit("S-activate %s %d %s | %s", senderName(send.Address), fh, h8(*sid), res)
				c.Hit("activate-" + res)
				for _, s := range sporks {
					if s.created && s.id == *sid && status == 1 {
						if s.enf != 0 {
							fail("C17: spork %s was activated a second time", s.name)
						}
						s.enf = fh + constants.SporkMinHeightDelay
						s.recorded = dm.Momentum.Height
					}
				}
			}
		}
		observeHeight(dm.Momentum.Height)
	}
	// side traffic of the community key before a momentum: Create calls at any height (harmless: a created spork is never
	// enforced), Activate calls of its own sporks only where they must be refused (frontier at or past the end of the window,
	// or well before its start); a third of the calls acknowledge an OLDER momentum — one inside the window when the frontier
	// is past it — as far as the account's previous block allows
	communityTraffic := func() {
		if !community || c.R.Intn(3) == 0 {
			return
		}
		from := types.CommunitySporkAddress
		h := n.Height()
		tpl := &nom.AccountBlock{BlockType: nom.BlockTypeUserSend, Address: from, ToAddress: types.SporkContract}
		past := h >= winB
		early := h+4 < winA
		if (past || early) && len(commCreated) > 0 && c.R.Intn(2) == 0 {
			tpl.Data = definition.ABISpork.PackMethodPanic(definition.SporkActivateMethodName, commCreated[c.R.Intn(len(commCreated))])
		} else {
			commN++
			tpl.Data = definition.ABISpork.PackMethodPanic(definition.SporkCreateMethodName, fmt.Sprintf("comm-spork-%d", commN), "by the community key")
		}
		if c.R.Intn(3) != 0 {
			min := uint64(1)
			if fr, _ := n.Chain().GetFrontierAccountStore(from).Frontier(); fr != nil {
				min = fr.MomentumAcknowledged.Height
			}
			lo, hi := min, h
			if past && min < winB {
				// inside the window if the account chain allows it
				if lo < winA {
					lo = winA
				}
				hi = winB - 1
			}
			if lo <= hi {
				if m, _ := n.Chain().GetFrontierMomentumStore().GetMomentumByHeight(lo + uint64(c.R.Intn(int(hi-lo+1)))); m != nil {
					tpl.MomentumAcknowledged = m.Identifier()
					c.Hit("community-acknowledges-older-momentum")
				}
			}
		}
		if _, err := n.Submit(tpl); err != nil {
			c.Hit("community-send-refused")
		}
	}
	mom := func() bool {
		if abort {
			return false
		}
		communityTraffic()
		if _, err := n.Momentum(); err != nil {
			fail("momentum: %v", err)
			return false
		}
		return !abort
	}

	pool := &argPool{addrs: []types.Address{g.User1.Address, g.User2.Address, types.TokenContract}, tokens: []types.ZenonTokenStandard{types.ZnnTokenStandard, types.QsrTokenStandard},
		names: []string{g.Pillar1Name}}
	// availability probes: for every method of every contract, does send-time validation know the method when the block
	// acknowledges momentum h? (nothing is inserted)
	rows := methodTableRows()
	keySet := map[string]bool{}
	for _, r := range rows {
		keySet[r[1]+"."+r[2]] = true
	}
	// focus: indices (0 accelerator, 1 bridge&liquidity, 2 htlc) of sporks whose gated methods are all probed, not sampled
	probe := func(h uint64, focus ...int) {
		m, _ := n.Chain().GetFrontierMomentumStore().GetMomentumByHeight(h)
		if m == nil {
			return
		}
		from := g.User2.Address
		fr, _ := n.Chain().GetFrontierAccountStore(from).Frontier()
		if fr != nil && fr.MomentumAcknowledged.Height > h {
			return
		}
		st := n.Chain().GetMomentumStore(m.Identifier())
		flags := [3]bool{}
		// the flags are read off the spork contract of the acknowledged momentum (what a node that only ever saw this
		// chain, or this node after a restart, decides by); IsSporkActive must agree
		for i, sp := range []*types.ImplementedSpork{types.AcceleratorSpork, types.BridgeAndLiquiditySpork, types.HtlcSpork} {
			flags[i], _ = contractSays(st, h, sp.SporkId)
			if act, err := st.IsSporkActive(sp); err == nil {
				sameAsContract(st, h, sp.SporkId, act, "GetMomentumStore, availability probe")
			}
		}
		inFocus := func(own int) bool {
			for _, f := range focus {
				if f == own {
					return true
				}
			}
			return false
		}
		// a sample of methods per probe (all of them in the thorough tier)
		for _, ca := range allContractABIs {
			for _, name := range sortedMethodNames(ca.abi) {
				key := embeddedNames[ca.addr][2:] + "." + name
				if !keySet[key] {
					continue
				}
				if skip := c.Tier != "thorough" && c.R.Intn(4) != 0; skip && !(len(focus) > 0 && inFocus(ownSpork(rows, key))) {
					continue
				}
				data, err := c.genCall(ca.abi, name, pool)
				if err != nil {
					continue
				}
				tpl := &nom.AccountBlock{BlockType: nom.BlockTypeUserSend, Address: from, ToAddress: ca.addr, Data: data, MomentumAcknowledged: m.Identifier()}
				var gerr error
				if p := safely(func() { _, gerr = n.Sup.GenerateFromTemplate(tpl, keyOf(from).Signer) }); p != "" {
					fail("C09/C17: send-time validation of %s acknowledged at %d panicked: %s", key, h, p)
					continue
				}
				avail := gerr != constants.ErrContractMethodNotFound && gerr != constants.ErrContractDoesntExist
				c.Emit("S-avail %d %s | %v", h, key, avail)
				c.Hit(fmt.Sprintf("avail-%v", avail))
				// monitor: a gated method is available iff its own spork is active on the acknowledged store
				own := ownSpork(rows, key)
				if own >= 0 {
					if avail != flags[own] {
						tag := "C17"
						// F17: the leak that the table selection by priority htlc > bridge > accelerator explains — a spork of
						// higher priority is enforced on the acknowledged momentum
						if avail && !flags[own] && ((own == 0 && (flags[1] || flags[2])) || (own == 1 && flags[2])) {
							tag = "C17 spork-order"
						}
						fail("%s: method %s for a block acknowledging height %d is available=%v while its guarding spork (%s) active=%v by the spork contract of that momentum [acc=%v bridge=%v htlc=%v]%s", tag, key, h, avail, []string{"accelerator", "bridge-liquidity", "htlc"}[own], flags[own], flags[0], flags[1], flags[2], reorgNote)
					}
				} else if !avail {
					fail("C17: ungated method %s is unavailable for a block acknowledging height %d", key, h)
				}
			}
		}
	}

	for i := 0; i < 1+c.R.Intn(3); i++ {
		if !mom() {
			return
		}
	}
	for _, oi := range order {
		s := sporks[oi]
		// attempts by the wrong key (refused at send time) and activation before creation
		if c.R.Intn(3) == 0 {
			if _, err := sendSpork(g.User1.Address, definition.ABISpork.PackMethodPanic(definition.SporkCreateMethodName, s.name, "by the wrong key")); err == nil {
				fail("C17: spork creation by an account without the spork key was accepted")
			}
			c.Hit("create-by-wrong-key")
		}
		if c.R.Intn(4) == 0 {
			var bogus types.Hash
			c.R.Read(bogus[:])
			sendSpork(g.Spork.Address, definition.ABISpork.PackMethodPanic(definition.SporkActivateMethodName, bogus))
			c.Hit("activate-nonexistent")
		}
		b, err := sendSpork(g.Spork.Address, definition.ABISpork.PackMethodPanic(definition.SporkCreateMethodName, s.name, "verif"))
		if err != nil {
			fail("spork creation refused: %v", err)
			return
		}
		s.id = b.Hash
		s.created = true
		if s.bound != nil {
			s.bound.SporkId = s.id
			types.ImplementedSporksMap[s.id] = true
			c.Emit("S-bind %s %s", s.tag, h8(s.id))
		}
		for k := 0; k < 2+c.R.Intn(3); k++ {
			if !mom() {
				return
			}
		}
		if c.R.Intn(3) == 0 {
			if _, err := sendSpork(g.User2.Address, definition.ABISpork.PackMethodPanic(definition.SporkActivateMethodName, s.id)); err == nil {
				fail("C17: spork activation by an account without the spork key was accepted")
			}
			c.Hit("activate-by-wrong-key")
		}
		activator := g.Spork.Address
		if community && s.bound != nil && n.Height() >= winA && n.Height()+4 < winB {
			activator = types.CommunitySporkAddress // well inside its window: the community key acts like the spork key
			c.Hit("activation-by-community-key")
		}
		if _, err := sendSpork(activator, definition.ABISpork.PackMethodPanic(definition.SporkActivateMethodName, s.id)); err != nil {
			fail("spork activation refused: %v", err)
			return
		}
		actH := n.Height()
		// walk across the enforcement height, probing availability around it, with a repeated activation on the way
		for k := 0; k < 9+c.R.Intn(4); k++ {
			if s.bound == nil && s.enf != 0 && n.Height()+1 >= s.enf {
				break // the next momentum would enforce the unknown spork: the real node exits the process there
			}
			if !mom() {
				return
			}
			if k == 3 && c.R.Intn(2) == 0 {
				sendSpork(g.Spork.Address, definition.ABISpork.PackMethodPanic(definition.SporkActivateMethodName, s.id))
				c.Hit("activate-again")
			}
			if s.enf != 0 && n.Height() >= s.enf-2 && n.Height() <= s.enf+2 {
				probe(n.Height())
			}
		}
		if s.enf == 0 {
			fail("C17: activation of %s sent at height %d was never recorded", s.name, actH)
			return
		}
		if s.bound == nil {
			break
		}
		// and once more against historical momentums around the enforcement height (the acknowledged momentum decides)
		for _, d := range []int64{-2, -1, 0, 1} {
			probe(uint64(int64(s.enf) + d))
		}
	}
	// an older binary on this ledger: for every enforced spork in turn, the binary's list of implemented sporks is taken to
	// be without it (chain.Init and momentum insertion stop the node when the report is non-empty): the report on the store
	// of EVERY height from the enforcement height to the frontier must name it — not only on the enforcement momentum itself
	oldBinary := func() {
		for _, s := range sporks {
			if s.bound == nil || !s.created || s.enf == 0 || s.recorded == 0 || n.Height() < s.enf {
				continue
			}
			delete(types.ImplementedSporksMap, s.id)
			var others []string
			for _, o := range sporks {
				if o != s && o.bound != nil && o.created {
					others = append(others, h8(o.id))
				}
			}
			sort.Strings(others)
			impl := strings.Join(others, ",")
			if impl == "" {
				impl = "none"
			}
			from := s.enf
			if from > 2 {
				from -= 2
			}
			for h := from; h <= n.Height(); h++ {
				m, _ := n.Chain().GetFrontierMomentumStore().GetMomentumByHeight(h)
				if m == nil {
					continue
				}
				st := n.Chain().GetMomentumStore(m.Identifier())
				if st == nil {
					continue
				}
				_, unimpl, err := chain.GotAllActiveSporksImplemented(st)
				if err != nil {
					fail("GotAllActiveSporksImplemented: %v", err)
					break
				}
				var got []string
				named := false
				for _, u := range unimpl {
					got = append(got, h8(u.Id))
					if u.Id == s.id {
						named = true
					}
				}
				sort.Strings(got)
				res := strings.Join(got, ",")
				if res == "" {
					res = "none"
				}
				c.Emit("S-unimpl %d %s | %s", h, impl, res)
				should := h >= s.enf && h >= s.recorded
				if h >= s.enf && h < s.recorded {
					continue // the activation was confirmed later than its own enforcement height: not judged here
				}
				if named != should {
					fail("C17: a binary that does not implement %s (enforced from height %d) gets the unimplemented-spork report %v on the store of height %d, expected %v — such a node must stop at every height from the enforcement height on, also when it starts on a ledger that is already past it", s.name, s.enf, named, h, should)
					break
				}
				c.Hit(fmt.Sprintf("old-binary-report-%v", should))
			}
			types.ImplementedSporksMap[s.id] = true
		}
	}
	oldBinary()
	// ---------------------------------------------------------------------------------------------------------------
	// reorganisation: the node abandons the upper part of its chain (chain.RollbackTo, as when protocol/chain_bridge
	// InsertChain switches to a longer side chain) at a height chosen around the creation / activation / enforcement
	// height of one of the scenario's enforced sporks, and the surviving branch continues differently:
	//   none         nobody activates anything; empty momentums past every abandoned enforcement height
	//   later        the abandoned activations (the first k) are sent again, each acknowledging a HIGHER momentum
	//   other-first  another spork of the scenario is activated first — then the abandoned one, or never
	//   same         the same calls again, right away (control; with a fork point above the activation: nothing but momentums)
	// Every height of the surviving branch is observed as it grows and once more at the end; availability is probed around
	// every abandoned and every new enforcement height with all the methods the sporks concerned guard.
	// ---------------------------------------------------------------------------------------------------------------
	reorg := func(kind string, forcePos string) {
		var cands []*sporkRec
		for _, s := range sporks {
			if s.bound != nil && s.created && s.createdAt != 0 && s.enf != 0 && s.recorded != 0 && n.Height() >= s.enf {
				cands = append(cands, s)
			}
		}
		if len(cands) == 0 {
			c.Hit("reorg-no-candidate")
			return
		}
		t := cands[c.R.Intn(len(cands))]
		oldFrontier := n.Height()
		// a spork that was activated after t's enforcement height + 1 and enforced: a fork point that keeps t's activation still
		// abandons an enforcement
		laterEnforced := false
		for _, s := range cands {
			if s != t && s.recorded > t.enf+1 {
				laterEnforced = true
			}
		}
		// a contract's receive block acknowledges the momentum that confirmed the send and is confirmed by the next one: a fork
		// point exactly between the two keeps the call, and the surviving branch answers it again (same id, same enforcement height)
		positions := []string{"below-creation", "creation-sent-not-received", "created-not-activated", "activation-sent-not-received"}
		if kind == "same" || laterEnforced {
			positions = append(positions, "activated-not-enforced", "enforcement-1", "enforcement", "enforcement+1")
		}
		pos := positions[c.R.Intn(len(positions))]
		if forcePos != "" {
			pos = forcePos
		}
		between := func(lo, hi uint64) uint64 {
			if hi <= lo {
				return lo
			}
			return lo + uint64(c.R.Intn(int(hi-lo+1)))
		}
		var H uint64
		switch pos {
		case "below-creation":
			lo := uint64(2)
			if t.createdAt > 6 {
				lo = t.createdAt - 4
			}
			H = between(lo, t.createdAt-2)
		case "creation-sent-not-received":
			H = t.createdAt - 1
		case "created-not-activated":
			H = between(t.createdAt, t.recorded-2)
		case "activation-sent-not-received":
			H = t.recorded - 1
		case "activated-not-enforced":
			H = between(t.recorded, t.enf-2)
		case "enforcement-1":
			H = t.enf - 1
		case "enforcement":
			H = t.enf
		case "enforcement+1":
			H = t.enf + 1
		}
		// an activated unknown spork does not survive (the surviving branch is extended past every enforcement height, and
		// the real node exits the process when an unimplemented spork is enforced)
		for _, s := range sporks {
			if s.bound == nil && s.recorded != 0 && H+1 >= s.recorded {
				H = s.recorded - 2 // below the momentum that confirmed the activating send
			}
		}
		if H >= oldFrontier {
			H = oldFrontier - 1
		}
		if H < 2 {
			H = 2
		}
		target, terr := n.Chain().GetFrontierMomentumStore().GetMomentumByHeight(H)
		if terr != nil || target == nil {
			fail("no momentum %d to roll back to: %v", H, terr)
			return
		}
		ins := n.Chain().AcquireInsert("zvh spork reorg")
		rerr := n.Chain().RollbackTo(ins, target.Identifier())
		ins.Unlock()
		if rerr != nil || n.Height() != H {
			fail("rollback from %d to %d failed: %v (frontier now %d)", oldFrontier, H, rerr, n.Height())
			abort = true
			return
		}
		c.Emit("S-rollback %d | ok", H)
		c.Hit("reorg")
		c.Hit("reorg-" + kind + "-at-" + pos)
		type undoneAct struct {
			s       *sporkRec
			id      types.Hash
			enf, fh uint64
		}
		var undone []undoneAct // activations of bound sporks that the rollback abandoned, in the order they were made
		var note []string
		settle := false // a creation or activation was sent below the fork point and received above it
		for _, oi := range order {
			s := sporks[oi]
			if (s.recorded != 0 && s.recorded == H+1) || (s.created && s.createdAt == H+1) {
				settle = true
				c.Hit("reorg-between-a-call-and-its-receive")
			}
			if s.recorded > H {
				if s.bound != nil {
					undone = append(undone, undoneAct{s, s.id, s.enf, s.enf - constants.SporkMinHeightDelay})
					if s.enf <= oldFrontier {
						c.Hit("reorg-abandons-a-reached-enforcement-height")
						note = append(note, fmt.Sprintf("%s (%s) was enforced at %d", s.name, h8(s.id), s.enf))
					}
				}
				s.enf, s.recorded = 0, 0
			}
			if s.created && (s.createdAt == 0 || s.createdAt > H) {
				ghosts = append(ghosts, s.id)
				s.created, s.createdAt = false, 0
				c.Hit("reorg-abandons-a-creation")
			}
		}
		if len(undone) == 0 {
			c.Hit("reorg-abandons-no-activation")
		}
		for i := len(commCreated) - 1; i >= 0; i-- {
			if commCreatedAt[i] > H {
				commCreated = append(commCreated[:i], commCreated[i+1:]...)
				commCreatedAt = append(commCreatedAt[:i], commCreatedAt[i+1:]...)
			}
		}
		reorgNote += fmt.Sprintf(" (this node went through a rollback from height %d to %d", oldFrontier, H)
		if len(note) > 0 {
			reorgNote += ", abandoning a branch on which " + strings.Join(note, ", ")
		}
		reorgNote += ")"
		for k := range lastActive {
			delete(lastActive, k)
		}
		observeHeight(H)
		if settle {
			// the surviving branch answers the call that it still holds
			for k := 0; k < 2; k++ {
				if !mom() {
					return
				}
			}
			kept := undone[:0]
			for _, u := range undone {
				if u.s.enf == 0 {
					kept = append(kept, u)
					continue
				}
				c.Hit("reorg-activation-received-again")
				if u.s.enf != u.enf || u.s.id != u.id {
					fail("C17: the activation of %s was sent below the fork point %d and received again on the surviving branch: enforcement height %d, on the abandoned branch %d", u.s.name, H, u.s.enf, u.enf)
				}
			}
			undone = kept
		}

		idx := func(s *sporkRec) int {
			for i := range sporks {
				if sporks[i] == s {
					return i
				}
			}
			return -1
		}
		ensureCreated := func(s *sporkRec) bool {
			if s.created {
				return true
			}
			descr := "verif, on the surviving branch"
			if kind == "same" {
				descr = "verif"
			}
			b, err := sendSpork(g.Spork.Address, definition.ABISpork.PackMethodPanic(definition.SporkCreateMethodName, s.name, descr))
			if err != nil {
				fail("spork creation refused after the rollback: %v", err)
				return false
			}
			s.id, s.created = b.Hash, true
			for i, gid := range ghosts {
				if gid == s.id { // the very same block again: the id is back
					ghosts = append(ghosts[:i], ghosts[i+1:]...)
					break
				}
			}
			s.bound.SporkId = s.id
			types.ImplementedSporksMap[s.id] = true
			c.Emit("S-bind %s %s", s.tag, h8(s.id))
			for k := 0; k < 1+c.R.Intn(2); k++ {
				if !mom() {
					return false
				}
			}
			return true
		}
		activateWalk := func(s *sporkRec, notBefore uint64) bool {
			if !ensureCreated(s) {
				return false
			}
			for n.Height() < notBefore {
				if !mom() {
					return false
				}
			}
			if _, err := sendSpork(g.Spork.Address, definition.ABISpork.PackMethodPanic(definition.SporkActivateMethodName, s.id)); err != nil {
				fail("spork activation refused after the rollback: %v", err)
				return false
			}
			for k := 0; k < 12 && (s.enf == 0 || n.Height() <= s.enf); k++ {
				if !mom() {
					return false
				}
				if s.enf != 0 && n.Height()+1 >= s.enf && n.Height() <= s.enf+1 {
					probe(n.Height(), idx(s))
				}
			}
			if s.enf == 0 {
				fail("C17: activation of %s on the surviving branch was never recorded", s.name)
				return false
			}
			return true
		}
		if c.R.Intn(2) == 0 {
			// a plain transfer makes the first momentum of the surviving branch differ from the abandoned one
			n.Submit(&nom.AccountBlock{BlockType: nom.BlockTypeUserSend, Address: g.User1.Address, ToAddress: g.User4.Address, TokenStandard: types.ZnnTokenStandard, Amount: big.NewInt(1)})
		}
		switch {
		case kind == "later" && len(undone) > 0:
			for _, u := range undone[:1+c.R.Intn(len(undone))] {
				if !activateWalk(u.s, u.fh+1+uint64(c.R.Intn(3))) {
					return
				}
				if u.s.enf <= u.enf {
					fail("harness: the later activation of %s is enforced at %d, not later than %d", u.s.name, u.s.enf, u.enf)
				}
				c.Hit("reorg-activated-later")
			}
		case kind == "other-first" && len(undone) > 0:
			var others []*sporkRec
			for _, s := range sporks[:3] {
				if s != undone[0].s && s.enf == 0 {
					others = append(others, s)
				}
			}
			if len(others) > 0 {
				if !activateWalk(others[c.R.Intn(len(others))], 0) {
					return
				}
				c.Hit("reorg-another-spork-first")
			}
			if len(others) == 0 || c.R.Intn(2) == 0 {
				if !activateWalk(undone[0].s, undone[0].fh+1) {
					return
				}
				c.Hit("reorg-then-the-abandoned-one")
			} else {
				c.Hit("reorg-another-spork-instead")
			}
		case kind == "same":
			for _, u := range undone {
				if !activateWalk(u.s, 0) {
					return
				}
			}
			c.Hit("reorg-same-calls-again")
		default:
			c.Hit("reorg-no-activation-on-the-surviving-branch")
		}
		// past every abandoned and every new enforcement height
		T := H + 3
		for _, u := range undone {
			if x := u.enf + 1 + uint64(c.R.Intn(2)); x > T {
				T = x
			}
		}
		for _, s := range sporks[:3] {
			if s.enf != 0 && s.enf+1 > T {
				T = s.enf + 1
			}
		}
		for n.Height() < T {
			if !mom() {
				return
			}
		}
		// every height of the surviving branch once more (historical stores), then the heights below without lines
		for k := range lastActive {
			delete(lastActive, k)
		}
		lo := uint64(2)
		if H > 4 {
			lo = H - 2
		}
		for h := lo; h <= n.Height(); h++ {
			observeHeight(h)
		}
		for h := uint64(2); h < lo; h++ {
			m, _ := n.Chain().GetFrontierMomentumStore().GetMomentumByHeight(h)
			if m == nil {
				continue
			}
			st := n.Chain().GetMomentumStore(m.Identifier())
			if st == nil {
				continue
			}
			var ids []types.Hash
			for _, s := range sporks {
				if s.created {
					ids = append(ids, s.id)
				}
			}
			for _, sid := range append(ids, ghosts...) {
				if act, err := st.IsSporkActive(&types.ImplementedSpork{SporkId: sid}); err == nil {
					sameAsContract(st, h, sid, act, "GetMomentumStore")
				}
			}
		}
		// gated calls acknowledging momentums of the surviving branch around the ABANDONED enforcement heights (and the frontier):
		// all the methods the sporks concerned guard; the answer must be the one of a node that only ever saw this branch
		probed := map[uint64]bool{}
		var focusAll []int
		for _, u := range undone {
			focusAll = append(focusAll, idx(u.s))
		}
		for _, u := range undone {
			if u.enf > oldFrontier {
				continue
			}
			for _, h := range []uint64{u.enf - 1, u.enf, u.enf + 1} {
				if h > H && h <= n.Height() && !probed[h] {
					probed[h] = true
					probe(h, idx(u.s))
					c.Hit("reorg-probe-around-abandoned-enforcement-height")
				}
			}
		}
		if !probed[n.Height()] && len(focusAll) > 0 {
			probe(n.Height(), focusAll...)
		}
		oldBinary()
	}
	if id%2 == 1 {
		// directed: the first of every five is the plain witness family — the fork point lies between the creation and the
		// activation of an enforced spork, nobody activates it on the surviving branch, which grows past the abandoned
		// enforcement height
		k := (id / 2) % 5
		reorg([]string{"none", "later", "other-first", "none", "same"}[k], []string{"created-not-activated", "", "", "", ""}[k])
	}
	c.Hit("scenario")
	if id%8 == 0 || (withUnknown && id%2 == 0) {
		sporkHaltInChild(c, id)
	}
	if id%5 == 2 {
		sporkRestartInChild(c, id, []int{0, 1, 3, 7}[(id/5)%4])
	}
}

// sporkHaltInChild re-executes the harness: the child enforces an unknown spork on a real node; the property says the
// node stops instead of continuing — the real code calls os.Exit(2) in AddMomentumTransaction.
func sporkHaltInChild(c *Ctx, id int) {
	out, err := exec.Command(os.Args[0], "spork-halt-child").CombinedOutput()
	code := 0
	if ee, ok := err.(*exec.ExitError); ok {
		code = ee.ExitCode()
	} else if err != nil {
		c.Fail("spork run=%d: cannot run child: %v", id, err)
		return
	}
	reached := strings.Contains(string(out), "CHILD-CONTINUED-PAST-ENFORCEMENT")
	detected := strings.Contains(string(out), "Detected an unimplemented spork")
	c.Emit("S-halt-child | exit=%d detected=%v continued=%v", code, detected, reached)
	c.Hit("halt-child")
	if code == 0 || reached {
		c.Fail("C17: a node that does not implement an enforced spork kept running past the enforcement height (child exit=%d, continued=%v)", code, reached)
	}
}

// sporkRestartInChild: a ledger that is `past` momentums beyond the enforcement height of a spork, opened by a binary that
// does not implement that spork (downgrade / old binary on a copied database): chain.Init must stop the process.
func sporkRestartInChild(c *Ctx, id int, past int) {
	out, err := exec.Command(os.Args[0], "spork-restart-child", fmt.Sprint(past)).CombinedOutput()
	code := 0
	if ee, ok := err.(*exec.ExitError); ok {
		code = ee.ExitCode()
	} else if err != nil {
		c.Fail("spork run=%d: cannot run child: %v", id, err)
		return
	}
	if strings.Contains(string(out), "CHILD-SETUP-FAILED") {
		c.Hit("restart-child-setup-failed")
		return
	}
	started := strings.Contains(string(out), "CHILD-STARTED-PAST-ENFORCEMENT")
	detected := strings.Contains(string(out), "Detected an unimplemented spork")
	c.Hit(fmt.Sprintf("restart-child-past-%d", past))
	if code == 0 || started || !detected {
		c.Fail("C17: a node that does not implement an enforced spork started on a ledger %d momentum(s) past the enforcement height (child exit=%d, started=%v, detected=%v)", past, code, started, detected)
	}
}

func sporkRestartChild() {
	past := 0
	if len(os.Args) > 2 {
		fmt.Sscan(os.Args[2], &past)
	}
	n := NewNode()
	b, err := n.Submit(&nom.AccountBlock{BlockType: nom.BlockTypeUserSend, Address: g.Spork.Address, ToAddress: types.SporkContract,
		Data: definition.ABISpork.PackMethodPanic(definition.SporkCreateMethodName, "spork-later-dropped", "verif")})
	if err != nil {
		fmt.Println("CHILD-SETUP-FAILED", err)
		os.Exit(0)
	}
	types.ImplementedSporksMap[b.Hash] = true // this binary implements it …
	for i := 0; i < 3; i++ {
		n.Momentum()
	}
	if _, err := n.Submit(&nom.AccountBlock{BlockType: nom.BlockTypeUserSend, Address: g.Spork.Address, ToAddress: types.SporkContract,
		Data: definition.ABISpork.PackMethodPanic(definition.SporkActivateMethodName, b.Hash)}); err != nil {
		fmt.Println("CHILD-SETUP-FAILED", err)
		os.Exit(0)
	}
	enf := uint64(0)
	for i := 0; i < 40; i++ {
		n.Momentum()
		sps, _ := n.Chain().GetFrontierMomentumStore().GetAllDefinedSporks()
		for _, sp := range sps {
			if sp.Id == b.Hash && sp.Activated {
				enf = sp.EnforcementHeight
			}
		}
		if enf != 0 && n.Height() >= enf+uint64(past) {
			break
		}
	}
	if enf == 0 || n.Height() != enf+uint64(past) {
		fmt.Println("CHILD-SETUP-FAILED enforcement height", enf, "height", n.Height())
		os.Exit(0)
	}
	dir := n.T.dirs[0]
	img, err := os.MkdirTemp("", "zvspork")
	if err != nil {
		fmt.Println("CHILD-SETUP-FAILED", err)
		os.Exit(0)
	}
	safely(func() { n.Z.StopPanic() })
	if err := copyDir(dir, img); err != nil {
		fmt.Println("CHILD-SETUP-FAILED", err)
		os.Exit(0)
	}
	defer os.RemoveAll(img)
	// … the binary that opens the ledger now does not
	delete(types.ImplementedSporksMap, b.Hash)
	ch := chain.NewChain(db.NewLevelDBManager(img), genesis.NewGenesis(g.EmbeddedGenesis))
	ierr := ch.Init()
	fmt.Println("CHILD-STARTED-PAST-ENFORCEMENT height", enf+uint64(past), "enforcement", enf, "init error", ierr)
	os.RemoveAll(img)
	os.Exit(0)
}

func sporkHaltChild() {
	n := NewNode()
	b, err := n.Submit(&nom.AccountBlock{BlockType: nom.BlockTypeUserSend, Address: g.Spork.Address, ToAddress: types.SporkContract,
		Data: definition.ABISpork.PackMethodPanic(definition.SporkCreateMethodName, "spork-unknown", "verif")})
	if err != nil {
		fmt.Println("CHILD-SETUP-FAILED", err)
		os.Exit(0)
	}
	for i := 0; i < 3; i++ {
		n.Momentum()
	}
	if _, err := n.Submit(&nom.AccountBlock{BlockType: nom.BlockTypeUserSend, Address: g.Spork.Address, ToAddress: types.SporkContract,
		Data: definition.ABISpork.PackMethodPanic(definition.SporkActivateMethodName, b.Hash)}); err != nil {
		fmt.Println("CHILD-SETUP-FAILED", err)
		os.Exit(0)
	}
	for i := 0; i < 14; i++ {
		n.Momentum()
	}
	// still alive 14 momentums after the activation (enforcement is 6-7 momentums after it)
	fmt.Println("CHILD-CONTINUED-PAST-ENFORCEMENT height", n.Height())
	os.Exit(0)
}

// ownSpork: which spork introduces the method (0 accelerator, 1 bridge&liquidity, 2 htlc; -1: part of the protocol from
// genesis; -2: no reviewed entry). Read off the REVIEWED gate table (s_spork_gate.go sporkGateTable = Model/Spork.lean
// introducedBy), NOT off the method tables of the code under test (`rows`): a method that leaks into the table of an earlier
// regime would otherwise simply count as ungated.
func ownSpork(rows [][4]string, key string) int {
	own, ok := sporkGateTable[key]
	if !ok {
		return -2
	}
	return own - 1
}
