package main

import (
	"crypto/ed25519"
	"encoding/hex"
	"errors"
	"fmt"
	"math/big"
	"os"
	"sort"
	"strings"
	"time"

	g "github.com/zenon-network/go-zenon/chain/genesis/mock"
	"github.com/zenon-network/go-zenon/chain/nom"
	"github.com/zenon-network/go-zenon/common/db"
	"github.com/zenon-network/go-zenon/common/types"
	"github.com/zenon-network/go-zenon/consensus"
	"github.com/zenon-network/go-zenon/verifier"
	"github.com/zenon-network/go-zenon/vm"
	"github.com/zenon-network/go-zenon/vm/constants"
	"github.com/zenon-network/go-zenon/vm/embedded/definition"
	"github.com/zenon-network/go-zenon/wallet"
	"github.com/zenon-network/go-zenon/zenon/mock"
)

// Stream `mverify` (C05): a real single-node chain (zenon/mock). Every round builds the valid next momentum the
// way pillar/worker_momentum.go does, derives single-field mutations / re-timed / re-signed variants, and asks
// the real vm.Supervisor.ApplyMomentum for a verdict.
//
//	mv now=<ns> store=<none|chainId:fHash:fHeight:fTs> m=<version>:<chainId>:<height>:<tsUnix>:<tsCacheNs>:<hash>:<prevHash>:<changesHash>:<dataLen>:<pubLen>:<sigLen>
//	   content=<-|addr/hash/height,..> blocks=<-|addr/hash/height/prevHash/batched,..> acc=<-|addr/hash/height,addr/none,..>
//	   o=<computedHash>:<vmOk>:<patchHash>:<sigErr>:<sigOk>:<producer> ctx=<genesisSec>:<blockTime>:<nodeCount>:<randCount>
//	   E none | E <tick> <proofHeight> <k> <name:producing:weight>{k} P <seed> <n> <csv> ...        | <verdict>
//	before-time <tSec> <ts of height 1>,<ts of height 2>,... | <height|none>
//
// `o=` are oracle values (crypto, momentum VM); `E` is the election input for the tick of the candidate's
// timestamp taken at the proof momentum found by a linear reference scan; the model elects, schedules and looks
// the producer up itself.

type mockT struct{ dir string }

func (t *mockT) Fatalf(format string, args ...interface{}) { panic(fmt.Sprintf(format, args...)) }
func (t *mockT) TempDir() string {
	d, err := os.MkdirTemp(t.dir, "zvmock")
	if err != nil {
		panic(err)
	}
	return d
}

var mvErrNames = []struct {
	e error
	n string
}{
	{verifier.ErrMNotGenesis, "ErrMNotGenesis"}, {verifier.ErrMPrevHashMissing, "ErrMPrevHashMissing"},
	{verifier.ErrMPreviousMissing, "ErrMPreviousMissing"}, {verifier.ErrABChainIdentifierMissing, "ErrABChainIdentifierMissing"},
	{verifier.ErrABChainIdentifierMismatch, "ErrABChainIdentifierMismatch"}, {verifier.ErrMVersionMissing, "ErrMVersionMissing"},
	{verifier.ErrMVersionInvalid, "ErrMVersionInvalid"}, {verifier.ErrMTimestampMissing, "ErrMTimestampMissing"},
	{verifier.ErrMTimestampInTheFuture, "ErrMTimestampInTheFuture"}, {verifier.ErrMTimestampNotIncreasing, "ErrMTimestampNotIncreasing"},
	{verifier.ErrMDataMustBeZero, "ErrMDataMustBeZero"}, {verifier.ErrMContentTooBig, "ErrMContentTooBig"},
	{verifier.ErrMChangesHashInvalid, "ErrMChangesHashInvalid"}, {verifier.ErrMHashInvalid, "ErrMHashInvalid"},
	{verifier.ErrMSignatureMissing, "ErrMSignatureMissing"}, {verifier.ErrMPublicKeyMissing, "ErrMPublicKeyMissing"},
	{verifier.ErrMSignatureInvalid, "ErrMSignatureInvalid"}, {verifier.ErrMProducerInvalid, "ErrMProducerInvalid"},
	{constants.ErrVmRunPanic, "panic"},
}

func mvErrName(err error) string {
	if err == nil {
		return "ok"
	}
	for _, x := range mvErrNames {
		if errors.Is(err, x.e) {
			return x.n
		}
	}
	s := err.Error()
	switch {
	case errors.Is(err, verifier.ErrVerifierInternal) && strings.Contains(s, "couldn't find producer for timestamp"):
		return "producerInternal:noSlotStartsHere"
	case errors.Is(err, verifier.ErrVerifierInternal) && strings.Contains(s, consensus.ErrElectionBeforeGenesis.Error()):
		return "producerInternal:beforeGenesis"
	case errors.Is(err, verifier.ErrVerifierInternal) && strings.Contains(s, "bad public key length"):
		return "sigInternal"
	case errors.Is(err, verifier.ErrVerifierInternal):
		return "producerInternal:electionFailed"
	case strings.Contains(s, "momentum content size is different"):
		return "contentSizeMismatch"
	case strings.Contains(s, "gap in previous"):
		return "contentGap"
	case strings.Contains(s, "not present in prefetched"):
		return "contentHeaderMissing"
	}
	return "vmFailed"
}

func cloneMomentum(m *nom.Momentum) *nom.Momentum {
	b, err := m.Serialize()
	if err != nil {
		panic(err)
	}
	c, err := nom.DeserializeMomentum(b)
	if err != nil {
		panic(err)
	}
	return c
}

type mvEnv struct {
	c          *Ctx
	z          mock.MockZenon
	sup        *vm.Supervisor
	genesis    time.Time
	cctx       *consensus.Context
	ver        verifier.Verifier
	seenDelegs map[string]bool
	// sched: the schedule of a tick as first computed (by a cold instance); every later computation must give the same list
	sched map[uint64]string
	// pcs: a consensus instance over a persistent (leveldb) consensus database, restarted every round (s_mverify_restart.go)
	pcs *persistentCs
	// noise: goroutines drawing from the process-wide math/rand generator, switched on while a cold instance elects
	noise *randNoise
	rounds        int
	restartFailed bool
	// mid: a consensus instance started late, mid-tick, on an empty consensus database (s_mverify_mid.go)
	mid *midCs
}

func (e *mvEnv) frontier() *nom.Momentum {
	m, err := e.z.Chain().GetFrontierMomentumStore().GetFrontierMomentum()
	if err != nil {
		panic(err)
	}
	return m
}

// build the momentum for timestamp tsec on top of the frontier exactly as pillar/worker_momentum.go does, signed by key.
func (e *mvEnv) build(prev *nom.Momentum, tsec int64, blocks []*nom.AccountBlock, key *wallet.KeyPair) (*nom.MomentumTransaction, error) {
	m := &nom.Momentum{
		ChainIdentifier: e.z.Chain().ChainIdentifier(),
		PreviousHash:    prev.Hash,
		Height:          prev.Height + 1,
		TimestampUnix:   uint64(tsec),
		Content:         nom.NewMomentumContent(blocks),
		Version:         1,
	}
	m.EnsureCache()
	return e.sup.GenerateMomentum(&nom.DetailedMomentum{Momentum: m, AccountBlocks: blocks}, key.Signer)
}

// reference: last momentum with timestamp < t by a linear scan down from the frontier (nil if none)
func (e *mvEnv) refBefore(t time.Time) *nom.Momentum {
	st := e.z.Chain().GetFrontierMomentumStore()
	f := e.frontier()
	for h := f.Height; h >= 1; h-- {
		m, err := st.GetMomentumByHeight(h)
		if err != nil || m == nil {
			panic(fmt.Sprintf("reference scan: height %d: %v", h, err))
		}
		if m.Timestamp.Before(t) {
			return m
		}
	}
	return nil
}


func (e *mvEnv) electionTok(ts time.Time) string {
	if ts.Before(e.genesis) || ts.Unix()-e.genesis.Unix() > 1<<33 {
		return "E none"
	}
	tick := e.cctx.ToTick(ts)
	proofTime := consensus.GenProofTimeVerif(e.cctx, tick)
	proof := e.refBefore(proofTime)
	if proof == nil {
		return "E none"
	}
	dd, err := e.z.Chain().GetMomentumStore(proof.Identifier()).ComputePillarDelegations()
	if err != nil {
		return "E none"
	}
	toks := make([]string, len(dd))
	for i, d := range dd {
		toks[i] = hx([]byte(d.Name)) + ":" + hex.EncodeToString(d.Producing.Bytes()) + ":" + d.Weight.String()
	}
	N, R, L := int(e.cctx.NodeCount), int(e.cctx.RandCount), len(dd)
	seed := int64(proof.Height)
	var perms []string
	if L < N {
		perms = []string{permTok(seed, L), permTok(seed, N)}
	} else {
		perms = []string{permTok(seed, N), permTok(seed+1, L-N+R)}
	}
	if dk := strings.Join(toks, " "); !e.seenDelegs[dk] {
		e.seenDelegs[dk] = true
		e.c.Hit("distinct-delegation-sets")
	}
	return fmt.Sprintf("E %d %d %d %s %s", tick, proof.Height, L, strings.Join(toks, " "), strings.Join(perms, " "))
}

// judge asks the real code and prints the line for the model.
func (e *mvEnv) judge(label string, m *nom.Momentum, blocks []*nom.AccountBlock) string {
	c := e.c
	ch := e.z.Chain()
	now := time.Now()
	verdict := func() (v string) {
		defer func() {
			if r := recover(); r != nil {
				v = "panic"
			}
		}()
		_, err := e.sup.ApplyMomentum(&nom.DetailedMomentum{Momentum: m, AccountBlocks: blocks})
		return mvErrName(err)
	}()
	// --- state view at m.Previous()
	storeTok, accTok := "none", "-"
	func() {
		defer func() { recover() }()
		st := ch.GetMomentumStore(m.Previous())
		if st == nil {
			return
		}
		f, err := st.GetFrontierMomentum()
		if err != nil {
			return
		}
		storeTok = fmt.Sprintf("%d:%s:%d:%d", st.ChainIdentifier(), hex.EncodeToString(f.Hash.Bytes()), f.Height, f.TimestampUnix)
		seen := map[types.Address]bool{}
		var accs []string
		for _, h := range m.Content {
			if seen[h.Address] {
				continue
			}
			seen[h.Address] = true
			fb, err := st.GetFrontierAccountBlock(h.Address)
			if err != nil || fb == nil {
				accs = append(accs, hex.EncodeToString(h.Address.Bytes())+"/none")
			} else {
				accs = append(accs, fmt.Sprintf("%s/%s/%d", hex.EncodeToString(h.Address.Bytes()), hex.EncodeToString(fb.Hash.Bytes()), fb.Height))
			}
		}
		sort.Strings(accs)
		if len(accs) > 0 {
			accTok = strings.Join(accs, ",")
		}
	}()
	// --- candidate
	var cacheNs string
	if m.Timestamp == nil {
		cacheNs = "nil"
	} else {
		cacheNs = new(big.Int).Add(new(big.Int).Mul(big.NewInt(m.Timestamp.Unix()), big.NewInt(1000000000)), big.NewInt(int64(m.Timestamp.Nanosecond()))).String()
	}
	mTok := fmt.Sprintf("%d:%d:%d:%d:%s:%s:%s:%s:%d:%d:%d", m.Version, m.ChainIdentifier, m.Height, m.TimestampUnix, cacheNs,
		hex.EncodeToString(m.Hash.Bytes()), hex.EncodeToString(m.PreviousHash.Bytes()), hex.EncodeToString(m.ChangesHash.Bytes()),
		len(m.Data), len(m.PublicKey), len(m.Signature))
	contentTok, blocksTok := "-", "-"
	if len(m.Content) > 0 {
		ss := make([]string, len(m.Content))
		for i, h := range m.Content {
			ss[i] = fmt.Sprintf("%s/%s/%d", hex.EncodeToString(h.Address.Bytes()), hex.EncodeToString(h.Hash.Bytes()), h.Height)
		}
		contentTok = strings.Join(ss, ",")
	}
	if len(blocks) > 0 {
		ss := make([]string, len(blocks))
		for i, b := range blocks {
			batched := b.IsSendBlock() && types.IsEmbeddedAddress(b.Address)
			ss[i] = fmt.Sprintf("%s/%s/%d/%s/%v", hex.EncodeToString(b.Address.Bytes()), hex.EncodeToString(b.Hash.Bytes()), b.Height,
				hex.EncodeToString(b.PreviousHash.Bytes()), batched)
		}
		blocksTok = strings.Join(ss, ",")
	}
	// --- oracles
	// the hash the candidate's content commits to, computed from the fields by the harness (momentumPreimage: the content
	// headers IN THE ORDER GIVEN) - not by the repository's own ComputeHash, which is what is under test
	computed := types.NewHash(momentumPreimage(m))
	if own := m.ComputeHash(); own != computed {
		c.Fail("mverify: Momentum.ComputeHash() = %v differs from the hash of the momentum's fields with its content in the order given (%v): the hash does not commit to the content as transmitted; candidate %q height=%d content=%d headers", own, computed, label, m.Height, len(m.Content))
	}
	sigErr := len(m.PublicKey) != ed25519.PublicKeySize
	sigOk := !sigErr && ed25519.Verify(m.PublicKey, m.Hash.Bytes(), m.Signature)
	producer := types.PubKeyToAddress(m.PublicKey)
	vmOk, patchHash := true, "-"
	func() {
		defer func() {
			if r := recover(); r != nil {
				vmOk = true // raw verification panicked: the VM is never reached
			}
		}()
		cl := cloneMomentum(m)
		if m.Timestamp == nil {
			return
		}
		*cl.Timestamp = *m.Timestamp
		if err := e.ver.Momentum(&nom.DetailedMomentum{Momentum: cl, AccountBlocks: blocks}); err != nil {
			return // raw checks reject: the VM is never reached
		}
		cl.ChangesHash = types.ZeroHash
		e.sup.GenerateMomentum(&nom.DetailedMomentum{Momentum: cl, AccountBlocks: blocks}, g.User10.Signer)
		if cl.ChangesHash.IsZero() {
			vmOk = false
		} else {
			patchHash = hex.EncodeToString(cl.ChangesHash.Bytes())
		}
	}()
	oTok := fmt.Sprintf("%s:%v:%s:%v:%v:%s", hex.EncodeToString(computed.Bytes()), vmOk, patchHash, sigErr, sigOk, hex.EncodeToString(producer.Bytes()))
	eTok := "E none"
	if m.Timestamp != nil {
		eTok = e.electionTok(*m.Timestamp)
	}
	ctxTok := fmt.Sprintf("%d:%d:%d:%d", e.genesis.Unix(), e.cctx.BlockTime, e.cctx.NodeCount, e.cctx.RandCount)
	c.Emit("mv now=%d store=%s m=%s content=%s blocks=%s acc=%s o=%s ctx=%s %s | %s", now.UnixNano(), storeTok, mTok, contentTok, blocksTok, accTok, oTok, ctxTok, eTok, verdict)
	c.Hit("verdict-" + verdict)
	c.Hit("cand-" + label)

	// ---- model-free monitor: the property's sentence on every ACCEPTED candidate ---------------------------------
	if verdict == "ok" {
		what := fmt.Sprintf("candidate %q height=%d ts=%d prev=%v", label, m.Height, m.TimestampUnix, m.PreviousHash)
		if computed != m.Hash {
			c.Fail("mverify: accepted momentum whose hash does not commit to its content; %s", what)
		}
		if !sigOk {
			c.Fail("mverify: accepted momentum with an invalid signature; %s", what)
		}
		if len(m.Data) != 0 {
			c.Fail("mverify: accepted momentum with data; %s", what)
		}
		st := ch.GetFrontierMomentumStore()
		parent, err := st.GetMomentumByHeight(m.Height - 1)
		if err != nil || parent == nil || parent.Hash != m.PreviousHash {
			c.Fail("mverify: accepted momentum that does not extend a stored momentum at height-1; %s", what)
		} else if parent.TimestampUnix >= m.TimestampUnix {
			c.Fail("mverify: accepted momentum whose timestamp %d is not later than its parent's %d; %s", m.TimestampUnix, parent.TimestampUnix, what)
		}
		if int64(m.TimestampUnix) > now.Unix()+int64(constants.ConsensusConfig.BlockTime)+1 {
			c.Fail("mverify: accepted momentum from the future (now=%d); %s", now.Unix(), what)
		}
		if patchHash != "-" && patchHash != hex.EncodeToString(m.ChangesHash.Bytes()) {
			c.Fail("mverify: accepted momentum whose changes hash is not the hash of the state changes; %s", what)
		}
		// signed by the pillar elected for the slot of its timestamp: the timestamp is a slot start, the signer is
		// what an independent (cold, empty cache) consensus instance elects for that instant
		if (int64(m.TimestampUnix)-e.genesis.Unix())%e.cctx.BlockTime != 0 {
			c.Fail("mverify: accepted momentum whose timestamp %d is not the start of a slot; %s", m.TimestampUnix, what)
		}
		cold := consensus.NewConsensus(db.NewMemDB(), ch, true)
		exp, err := cold.GetMomentumProducer(time.Unix(int64(m.TimestampUnix), 0))
		if err != nil || *exp != producer {
			c.Fail("mverify: accepted momentum signed by %v, a cold consensus instance elects %v (err %v) for its slot; %s", producer, exp, err, what)
		}
		// the account blocks an accepted momentum confirms extend, account by account and in content order, the account's
		// confirmed chain as of the parent momentum: no height is skipped, every listed header has its block
		func() {
			defer func() { recover() }()
			pst := ch.GetMomentumStore(m.Previous())
			if pst == nil {
				return
			}
			byID := map[types.HashHeight]*nom.AccountBlock{}
			var flat func(bs []*nom.AccountBlock)
			flat = func(bs []*nom.AccountBlock) {
				for _, b := range bs {
					byID[b.Identifier()] = b
					flat(b.DescendantBlocks)
				}
			}
			flat(blocks)
			heads := map[types.Address]types.HashHeight{}
			for _, h := range m.Content {
				prevID, ok := heads[h.Address]
				if !ok {
					if fb, err := pst.GetFrontierAccountBlock(h.Address); err == nil && fb != nil {
						prevID = fb.Identifier()
					}
				}
				b := byID[h.Identifier()]
				if b == nil {
					c.Fail("mverify: accepted momentum lists account block %v/%d for which no block was delivered; %s", h.Address, h.Height, what)
					return
				}
				if types.IsEmbeddedAddress(b.Address) && (b.BlockType == nom.BlockTypeContractSend || b.BlockType == nom.BlockTypeUserSend) {
					continue // a descendant send of a contract receive listed in this momentum: part of that receive's batch
				}
				// a contract receive stands for its whole batch: the batch starts at its first descendant send
				first := b
				if len(b.DescendantBlocks) > 0 {
					first = b.DescendantBlocks[0]
				}
				if first.Height != prevID.Height+1 || first.PreviousHash != prevID.Hash {
					c.Fail("mverify: accepted momentum confirms block height %d (previous %v) of account %v whose confirmed chain (with the blocks listed before it) ends at height %d (%v): a height of the account chain is skipped; %s", first.Height, first.PreviousHash, h.Address, prevID.Height, prevID.Hash, what)
					return
				}
				heads[h.Address] = h.Identifier()
			}
			c.Hit("accepted-content-linkage-checked")
		}()
		if label != "valid" && label != "valid-next-slot" && label != "valid-content-reordered" && label != "fork-sibling" && label != "replay-frontier" {
			c.Fail("mverify: a mutated momentum was accepted; %s", what)
		}
	} else if label == "valid" || label == "valid-next-slot" {
		c.Fail("mverify: the valid momentum (%s, height %d ts %d) was rejected: %s", label, m.Height, m.TimestampUnix, verdict)
	}
	return verdict
}

// add-momentum <frontier hash:height before> <m.prevHash> <m.height> <m.hash> | <frontier hash:height after>
func (e *mvEnv) emitAdd(before *nom.Momentum, m *nom.Momentum) {
	after := e.frontier()
	e.c.Emit("add-momentum %s:%d %s %d %s | %s:%d", hex.EncodeToString(before.Hash.Bytes()), before.Height,
		hex.EncodeToString(m.PreviousHash.Bytes()), m.Height, hex.EncodeToString(m.Hash.Bytes()),
		hex.EncodeToString(after.Hash.Bytes()), after.Height)
	e.c.Hit("add-momentum")
}

func flipBit(h types.Hash, i int) types.Hash { h[i%32] ^= 1 << uint(i%8); return h }

func (e *mvEnv) rehashSign(m *nom.Momentum, key *wallet.KeyPair) {
	m.Hash = m.ComputeHash()
	m.Signature = key.Sign(m.Hash.Bytes())
	m.PublicKey = append(ed25519.PublicKey(nil), key.Public...)
}

func setTs(m *nom.Momentum, ts uint64) {
	m.TimestampUnix = ts
	m.Timestamp = nil
	m.EnsureCache()
}

// one round: valid momentum for the next slot + all its variants
func (e *mvEnv) round(gapSlots int64) {
	c := e.c
	ch := e.z.Chain()
	prev := e.frontier()
	bt := e.cctx.BlockTime
	tsec := int64(prev.TimestampUnix) + bt*gapSlots
	exp, err := e.z.Consensus().GetMomentumProducer(time.Unix(tsec, 0))
	if err != nil {
		panic(fmt.Sprintf("GetMomentumProducer(%d): %v", tsec, err))
	}
	K := keyOf(*exp)
	insert := ch.AcquireInsert("zvh mverify")
	blocks := ch.GetNewMomentumContent()
	tx, err := e.build(prev, tsec, blocks, K)
	insert.Unlock()
	if err != nil {
		panic(fmt.Sprintf("cannot build the valid momentum: %v", err))
	}
	v := tx.Momentum
	if len(blocks) > 0 {
		c.Hit("round-with-content")
	}
	// the node's own production path: who gets a signed momentum out of GenerateMomentum / a pillar manager (s_mverify_produce.go)
	e.produceFamily(prev, tsec, blocks, K)
	if e.rounds%4 == 2 {
		e.produceThroughPillar(prev, tsec, K)
	}
	other := g.PillarKeys[0]
	for _, k := range g.PillarKeys {
		if k.Address != K.Address {
			other = k
			break
		}
	}
	type mut struct {
		label string
		f     func(m *nom.Momentum)
		bl    []*nom.AccountBlock
	}
	var muts []mut
	add := func(label string, f func(m *nom.Momentum)) { muts = append(muts, mut{label, f, blocks}) }
	addB := func(label string, bl []*nom.AccountBlock, f func(m *nom.Momentum)) {
		muts = append(muts, mut{label, f, bl})
	}
	add("valid", func(m *nom.Momentum) {})
	// single-field mutations, everything else untouched
	add("version=0", func(m *nom.Momentum) { m.Version = 0 })
	add("version=2", func(m *nom.Momentum) { m.Version = 2 })
	add("chainId=0", func(m *nom.Momentum) { m.ChainIdentifier = 0 })
	add("chainId+1", func(m *nom.Momentum) { m.ChainIdentifier++ })
	add("hash-flip", func(m *nom.Momentum) { m.Hash = flipBit(m.Hash, c.R.Intn(256)) })
	add("prevHash=0", func(m *nom.Momentum) { m.PreviousHash = types.ZeroHash })
	add("prevHash-flip", func(m *nom.Momentum) { m.PreviousHash = flipBit(m.PreviousHash, c.R.Intn(256)) })
	add("prevHash=older", func(m *nom.Momentum) { m.PreviousHash = prev.PreviousHash })
	add("height=0", func(m *nom.Momentum) { m.Height = 0 })
	add("height=1", func(m *nom.Momentum) { m.Height = 1 })
	add("height+1", func(m *nom.Momentum) { m.Height++ })
	add("height-1", func(m *nom.Momentum) { m.Height-- })
	add("ts=0", func(m *nom.Momentum) { setTs(m, 0) })
	add("ts=prev", func(m *nom.Momentum) { setTs(m, prev.TimestampUnix) })
	add("ts=prev-10", func(m *nom.Momentum) { setTs(m, prev.TimestampUnix-uint64(bt)) })
	add("ts+1", func(m *nom.Momentum) { setTs(m, m.TimestampUnix+1) })
	add("ts+10", func(m *nom.Momentum) { setTs(m, m.TimestampUnix+uint64(bt)) })
	add("ts=future", func(m *nom.Momentum) { setTs(m, uint64(time.Now().Unix()+3600)) })
	add("ts=2^63", func(m *nom.Momentum) { setTs(m, 1<<63) })
	add("data=01", func(m *nom.Momentum) { m.Data = []byte{1} })
	add("changesHash-flip", func(m *nom.Momentum) { m.ChangesHash = flipBit(m.ChangesHash, c.R.Intn(256)) })
	add("pubKey=empty", func(m *nom.Momentum) { m.PublicKey = nil })
	add("pubKey=31bytes", func(m *nom.Momentum) { m.PublicKey = append(ed25519.PublicKey(nil), m.PublicKey[:31]...) })
	add("pubKey=other", func(m *nom.Momentum) { m.PublicKey = append(ed25519.PublicKey(nil), other.Public...) })
	add("sig=empty", func(m *nom.Momentum) { m.Signature = nil })
	add("sig-flip", func(m *nom.Momentum) {
		s := append([]byte(nil), m.Signature...)
		s[c.R.Intn(len(s))] ^= 1 << uint(c.R.Intn(8))
		m.Signature = s
	})
	add("sig=63bytes", func(m *nom.Momentum) { m.Signature = append([]byte(nil), m.Signature[:63]...) })
	bogus := &types.AccountHeader{Address: g.User3.Address, HashHeight: types.HashHeight{Hash: types.NewHash([]byte("bogus")), Height: 77}}
	add("content+bogus", func(m *nom.Momentum) { m.Content = append(append(nom.MomentumContent(nil), m.Content...), bogus) })
	if len(v.Content) > 0 {
		add("content-replace-bogus", func(m *nom.Momentum) {
			ct := append(nom.MomentumContent(nil), m.Content...)
			ct[0] = bogus
			m.Content = ct
		})
		add("content-dup", func(m *nom.Momentum) {
			m.Content = append(append(nom.MomentumContent(nil), m.Content...), m.Content[0])
		})
		add("content-drop-header", func(m *nom.Momentum) { m.Content = append(nom.MomentumContent(nil), m.Content[1:]...) })
		addB("content-drop-block", blocks[1:], func(m *nom.Momentum) {})
		addB("content-drop-both+resign", blocks[:len(blocks)-1], func(m *nom.Momentum) {
			m.Content = nom.NewMomentumContent(blocks[:len(blocks)-1])
			e.rehashSign(m, K)
		})
		// the FIRST of several blocks one account has in this momentum left out, the later ones kept (hash recomputed, signed
		// by the elected pillar): the kept block does not extend the account's confirmed chain - also when that account has
		// no confirmed block at all yet (its chain would start at height 2)
		seenAddr := map[types.Address]bool{}
		for i, b := range blocks {
			if seenAddr[b.Address] {
				continue
			}
			seenAddr[b.Address] = true
			more := false
			for _, b2 := range blocks[i+1:] {
				more = more || b2.Address == b.Address
			}
			if !more {
				continue
			}
			bl := append(append([]*nom.AccountBlock(nil), blocks[:i]...), blocks[i+1:]...)
			lbl := "content-drop-first-of-account+resign"
			if b.Height == 1 {
				lbl = "content-drop-first-of-new-account+resign"
			}
			addB(lbl, bl, func(m *nom.Momentum) {
				m.Content = nom.NewMomentumContent(bl)
				e.rehashSign(m, K)
			})
			// the same as a momentum the elected pillar BUILT that way (its changes are those of the blocks it lists): the real
			// supervisor refuses to pack it; where it does not, the result goes to the judge like every other candidate
			func() {
				defer func() {
					if x := recover(); x != nil {
						c.Hit("built-without-first-block:panic")
					}
				}()
				insert := ch.AcquireInsert("zvh mverify reduced")
				tx2, err2 := e.build(prev, tsec, bl, K)
				insert.Unlock()
				if err2 != nil || tx2 == nil {
					c.Hit("built-without-first-block:refused")
					return
				}
				c.Hit("built-without-first-block:packed")
				built := cloneMomentum(tx2.Momentum)
				muts = append(muts, mut{lbl + "+built", func(m *nom.Momentum) { *m = *cloneMomentum(built) }, bl})
			}()
		}
		if len(v.Content) > 1 {
			// first and last header exchanged: still a valid momentum iff no account's own blocks change their relative
			// order (the pillar is free to order blocks of different accounts)
			ct := append(nom.MomentumContent(nil), v.Content...)
			ct[0], ct[len(ct)-1] = ct[len(ct)-1], ct[0]
			keeps := true
			last := map[types.Address]uint64{}
			for _, h := range ct {
				if prevH, ok := last[h.Address]; ok && h.Height <= prevH {
					keeps = false
				}
				last[h.Address] = h.Height
			}
			// the same exchange (and a rotation) with hash and signature LEFT AS THEY ARE: the hash no longer commits to
			// the content presented, whatever the order means semantically
			add("content-swap", func(m *nom.Momentum) { m.Content = append(nom.MomentumContent(nil), ct...) })
			if len(ct) > 2 {
				rot := append(append(nom.MomentumContent(nil), v.Content[1:]...), v.Content[0])
				add("content-rotate", func(m *nom.Momentum) { m.Content = rot })
			}
			lbl := "content-swap+resign"
			if keeps {
				lbl = "valid-content-reordered"
			}
			add(lbl, func(m *nom.Momentum) {
				m.Content = ct
				e.rehashSign(m, K)
			})
		}
	}
	// the same mutations with the hash recomputed and the momentum re-signed by the elected pillar: only the
	// semantic check can object
	add("version=2+resign", func(m *nom.Momentum) { m.Version = 2; e.rehashSign(m, K) })
	add("chainId+1+resign", func(m *nom.Momentum) { m.ChainIdentifier++; e.rehashSign(m, K) })
	add("height+1+resign", func(m *nom.Momentum) { m.Height++; e.rehashSign(m, K) })
	add("ts=prev+resign", func(m *nom.Momentum) { setTs(m, prev.TimestampUnix); e.rehashSign(m, K) })
	add("ts+1+resign", func(m *nom.Momentum) { setTs(m, m.TimestampUnix+1); e.rehashSign(m, K) })
	add("ts-1+resign", func(m *nom.Momentum) { setTs(m, m.TimestampUnix-1); e.rehashSign(m, K) })
	add("ts+5+resign", func(m *nom.Momentum) { setTs(m, m.TimestampUnix+uint64(bt)/2); e.rehashSign(m, K) })
	add("ts=future+resign", func(m *nom.Momentum) {
		setTs(m, uint64(time.Now().Unix()+3600)/uint64(bt)*uint64(bt))
		e.rehashSign(m, K)
	})
	// 30-40 s ahead of the wall clock, on a slot start, signed by the pillar elected for that slot: only the clock
	// check objects (MomentumFutureSeconds = 10)
	soon := (time.Now().Unix()+30)/bt*bt + bt
	if sp, err := e.z.Consensus().GetMomentumProducer(time.Unix(soon, 0)); err == nil && keyOf(*sp) != nil {
		add("ts=now+30s+resign-elected", func(m *nom.Momentum) { setTs(m, uint64(soon)); e.rehashSign(m, keyOf(*sp)) })
	}
	add("data=01+resign", func(m *nom.Momentum) { m.Data = []byte{1}; e.rehashSign(m, K) })
	add("changesHash-flip+resign", func(m *nom.Momentum) { m.ChangesHash = flipBit(m.ChangesHash, c.R.Intn(256)); e.rehashSign(m, K) })
	// valid momentums signed by somebody who is not elected for the slot
	add("signed-by-other-pillar", func(m *nom.Momentum) { e.rehashSign(m, other) })
	add("signed-by-user", func(m *nom.Momentum) { e.rehashSign(m, g.User1) })
	// the next slot, signed by this slot's pillar (accepted only if it is elected there too) and by the right one
	nextExp, nerr := e.z.Consensus().GetMomentumProducer(time.Unix(tsec+bt, 0))
	if nerr == nil {
		lbl := "ts+10+resign-same-pillar"
		if *nextExp == K.Address {
			lbl = "valid-next-slot"
		}
		add(lbl, func(m *nom.Momentum) { setTs(m, m.TimestampUnix+uint64(bt)); e.rehashSign(m, K) })
		if *nextExp != K.Address {
			add("valid-next-slot", func(m *nom.Momentum) { setTs(m, m.TimestampUnix+uint64(bt)); e.rehashSign(m, keyOf(*nextExp)) })
		}
	}
	for _, mu := range muts {
		m := cloneMomentum(v)
		mu.f(m)
		// as received from a peer: serialise / deserialise, so the unexported caches (Timestamp, producer) are
		// rebuilt from the transmitted fields by EnsureCache (a stale in-process cache is not a candidate an
		// attacker can present)
		m = cloneMomentum(m)
		e.judge(mu.label, m, mu.bl)
	}
	// a sibling of the frontier (extends frontier-1): the verifier accepts it against the older store; inserting it
	// must not make it part of the ledger (checked once, at the end of the stream)
	// ---- schedule determinism: cached instance vs a cold instance, for every slot of this and the next tick
	cold := consensus.NewConsensus(db.NewMemDB(), ch, true)
	tick := e.cctx.ToTick(time.Unix(tsec, 0))
	ticks := []uint64{tick, tick + 1}
	if tick > 0 {
		ticks = append(ticks, tick-1)
	}
	for _, tk := range ticks {
		s, _ := e.cctx.ToTime(tk)
		seenProd := map[types.Address]int{}
		var list []string
		for i := 0; i < int(e.cctx.NodeCount); i++ {
			t := s.Add(time.Duration(int64(i)*bt) * time.Second)
			a, err1 := e.z.Consensus().GetMomentumProducer(t)
			// the first slot asked is the cold instance's cache miss: it runs the election now — while other goroutines of
			// the process draw from the process-wide math/rand generator, as the network goroutines of a live node do
			if i == 0 && e.noise != nil {
				e.noise.enable()
				c.Hit("cold-election-under-global-rand-noise")
			}
			b, err2 := cold.GetMomentumProducer(t)
			if i == 0 && e.noise != nil {
				e.noise.disable()
			}
			if err2 == nil {
				list = append(list, addrName(*b))
			} else {
				list = append(list, "none")
			}
			c.Hit("slot-compared")
			if (err1 == nil) != (err2 == nil) || (err1 == nil && *a != *b) {
				c.Fail("schedule: tick %d slot %d: cached instance elects %v (err %v), a cold instance %v (err %v) [the cold instance ran this tick's election while other goroutines drew from the process-wide math/rand generator]", tk, i, a, err1, b, err2)
			}
			if err1 == nil {
				seenProd[*a]++
				if keyOf(*a) == nil {
					c.Fail("schedule: tick %d slot %d is given to %v which is not a registered pillar", tk, i, a)
				}
			}
			// an instant inside the slot has no producer
			if _, err := e.z.Consensus().GetMomentumProducer(t.Add(time.Second)); err == nil {
				c.Fail("schedule: GetMomentumProducer answers for %d which is not a slot start", t.Unix()+1)
			}
		}
		// the schedule of a tick is a function of the ledger as of its proof momentum (final once the tick before it has
		// begun): computed now, on a cold instance, it is the list computed when the frontier was further back
		if e.sched == nil {
			e.sched = map[uint64]string{}
		}
		now := strings.Join(list, ",")
		if was, ok := e.sched[tk]; !ok {
			e.sched[tk] = now
		} else {
			c.Hit("schedule-recomputed-later")
			if was != now {
				c.Fail("schedule: tick %d was computed as [%s] when the frontier was at an earlier momentum, and is [%s] on a cold instance with the frontier at height %d (timestamp %d): not a function of the proof momentum", tk, was, now, prev.Height, prev.TimestampUnix)
			}
		}
	}
	// the same ticks (and earlier ones) on a node that is restarted on its persistent consensus database
	e.rounds++
	e.restartCheck(cold, tick, ticks, e.rounds%4 == 1)
	// advance the chain with the valid momentum
	insert = ch.AcquireInsert("zvh mverify insert")
	err = ch.AddMomentumTransaction(insert, tx)
	insert.Unlock()
	if err != nil {
		panic(fmt.Sprintf("cannot insert the valid momentum: %v", err))
	}
	e.emitAdd(prev, v)
	if f := e.frontier(); f.Hash != v.Hash {
		c.Fail("mverify: the valid momentum %v was inserted without error but the frontier is %v", v.Hash, f.Hash)
	}
}

func (e *mvEnv) beforeTimeOps() {
	c := e.c
	st := e.z.Chain().GetFrontierMomentumStore()
	f := e.frontier()
	tss := make([]int64, f.Height)
	toks := make([]string, f.Height)
	for h := uint64(1); h <= f.Height; h++ {
		m, err := st.GetMomentumByHeight(h)
		if err != nil {
			panic(err)
		}
		tss[h-1] = int64(m.TimestampUnix)
		toks[h-1] = fmt.Sprint(m.TimestampUnix)
	}
	csv := strings.Join(toks, ",")
	try := func(t int64) {
		tt := time.Unix(t, 0)
		var obs string
		func() {
			defer func() {
				if r := recover(); r != nil {
					obs = "panic"
				}
			}()
			m, err := st.GetMomentumBeforeTime(&tt)
			switch {
			case err != nil:
				obs = "err"
			case m == nil:
				obs = "none"
			default:
				obs = fmt.Sprint(m.Height)
			}
		}()
		c.Emit("before-time %d %s | %s", t, csv, obs)
		c.Hit("before-time")
		// model-free monitor: the last momentum with timestamp < t
		want := "none"
		for h := len(tss); h >= 1; h-- {
			if tss[h-1] < t {
				want = fmt.Sprint(h)
				break
			}
		}
		if obs != want {
			c.Fail("GetMomentumBeforeTime(%d) = %s, the last momentum with an earlier timestamp is %s (chain timestamps %s)", t, obs, want, csv)
		}
	}
	step := 1
	if len(tss) > 80 {
		step = len(tss) / 40 // long chains: a sample of the heights (the line carries all timestamps)
	}
	for i := 0; i < len(tss); i += step {
		for _, d := range []int64{-1, 0, 1} {
			try(tss[i] + d)
		}
	}
	for i := 0; i < 40; i++ {
		try(tss[0] - 5 + c.R.Int63n(tss[len(tss)-1]-tss[0]+20))
	}
	try(tss[len(tss)-1] + 1000000)
	try(0)
}

func init() {
	register("mverify", func(c *Ctx) {
		t := &mockT{dir: os.TempDir()}
		z := mock.NewMockZenon(t)
		defer func() {
			defer func() { recover() }()
			z.StopPanic()
		}()
		gm := z.Chain().GetGenesisMomentum()
		e := &mvEnv{c: c, z: z, sup: vm.NewSupervisor(z.Chain(), z.Consensus()), genesis: *gm.Timestamp,
			cctx: consensus.NewConsensusContext(*gm.Timestamp), ver: verifier.NewVerifier(z.Chain(), z.Consensus()), seenDelegs: map[string]bool{}}
		e.noise = startRandNoise(3)
		defer e.noise.close()
		defer e.closePersistent(true)
		defer func() {
			if e.mid != nil {
				safely(e.mid.stop)
			}
		}()
		rounds := c.N
		if rounds < 3 {
			rounds = 3
		}
		freshUsers := []*wallet.KeyPair{g.User10, g.User9, g.User8, g.User7, g.User6}
		var freshSends []types.AccountHeader
		for r := 0; r < rounds; r++ {
			// content for the next momentum: plain transfers between users (two blocks of one account, one of another)
			if r%3 == 1 {
				func() {
					defer func() {
						if x := recover(); x != nil {
							c.Hit("send-block-failed")
						}
					}()
					z.InsertSendBlock(&nom.AccountBlock{Address: g.User1.Address, ToAddress: g.User2.Address,
						TokenStandard: types.ZnnTokenStandard, Amount: big.NewInt(1 * g.Zexp)}, nil, mock.SkipVmChanges)
					z.InsertSendBlock(&nom.AccountBlock{Address: g.User1.Address, ToAddress: g.User3.Address,
						TokenStandard: types.ZnnTokenStandard, Amount: big.NewInt(2 * g.Zexp)}, nil, mock.SkipVmChanges)
					z.InsertSendBlock(&nom.AccountBlock{Address: g.User2.Address, ToAddress: g.User3.Address,
						TokenStandard: types.ZnnTokenStandard, Amount: big.NewInt(3 * g.Zexp)}, nil, mock.SkipVmChanges)
				}()
			}
			// an account that has NO block yet gets two sends (r%6 == 1) and publishes both receives three rounds later: its
			// chain starts (heights 1 and 2) inside one momentum
			if r%6 == 1 && len(freshUsers) > 0 {
				func() {
					defer func() {
						if x := recover(); x != nil {
							c.Hit("fresh-send-failed")
						}
					}()
					fresh := freshUsers[0]
					freshUsers = freshUsers[1:]
					freshSends = nil
					// plasma for the new account first (fused by User1; two momentums of the mock's own producer confirm the
					// call and let the plasma contract receive it)
					z.InsertSendBlock(&nom.AccountBlock{Address: g.User1.Address, ToAddress: types.PlasmaContract,
						Data:          definition.ABIPlasma.PackMethodPanic(definition.FuseMethodName, fresh.Address),
						TokenStandard: types.QsrTokenStandard, Amount: big.NewInt(200 * g.Zexp)}, nil, mock.SkipVmChanges)
					z.InsertNewMomentum()
					z.InsertNewMomentum()
					for k := int64(1); k <= 2; k++ {
						b := z.InsertSendBlock(&nom.AccountBlock{Address: g.User1.Address, ToAddress: fresh.Address,
							TokenStandard: types.ZnnTokenStandard, Amount: big.NewInt(k * g.Zexp)}, nil, mock.SkipVmChanges)
						freshSends = append(freshSends, b.Header())
					}
				}()
			}
			if r%6 == 4 && len(freshSends) == 2 {
				func() {
					defer func() {
						if x := recover(); x != nil {
							c.Hit("fresh-receive-failed")
						}
					}()
					for _, h := range freshSends {
						z.InsertReceiveBlock(h, nil, nil, mock.SkipVmChanges)
					}
					freshSends = nil
					c.Hit("fresh-account-two-blocks-in-one-momentum")
				}()
			}
			// two calls to ONE contract by two users (r%6 == 2), confirmed by this round's momentum; at r%6 == 3 a momentum of the
			// mock's own producer lets the contract's two receives be generated, so that they wait in the pool for this round's
			// candidates (both receives of one contract in one momentum)
			if r%6 == 2 {
				func() {
					defer func() {
						if x := recover(); x != nil {
							c.Hit("contract-calls-failed")
						}
					}()
					names := []string{g.Pillar1Name, g.Pillar2Name, g.Pillar3Name}
					for k, u := range []*wallet.KeyPair{g.User2, g.User3} {
						z.InsertSendBlock(&nom.AccountBlock{Address: u.Address, ToAddress: types.PillarContract,
							Data:          definition.ABIPillars.PackMethodPanic(definition.DelegateMethodName, names[(r/6+k)%len(names)]),
							TokenStandard: types.ZnnTokenStandard, Amount: big.NewInt(0)}, nil, mock.SkipVmChanges)
					}
					c.Hit("two-calls-to-one-contract")
				}()
			}
			if r%6 == 3 {
				func() {
					defer func() {
						if x := recover(); x != nil {
							c.Hit("contract-receives-failed")
						}
					}()
					z.InsertNewMomentum()
					n := 0
					for _, b := range z.Chain().GetNewMomentumContent() {
						if b.Address == types.PillarContract && b.BlockType == nom.BlockTypeContractReceive {
							n++
						}
					}
					c.Hit(fmt.Sprintf("contract-receives-waiting-%d", n))
				}()
			}
			// change the pillar weights: a user delegates; the mock's own producer path includes the send and lets the
			// pillar contract receive it (two momentums)
			if r%8 == 3 {
				func() {
					defer func() {
						if x := recover(); x != nil {
							c.Hit("delegate-failed")
						}
					}()
					users := []*wallet.KeyPair{g.User4, g.User5, g.User6, g.User7, g.User8}
					names := []string{g.Pillar2Name, g.Pillar3Name, g.Pillar1Name}
					z.InsertSendBlock(&nom.AccountBlock{Address: users[(r/8)%len(users)].Address, ToAddress: types.PillarContract,
						Data:          definition.ABIPillars.PackMethodPanic(definition.DelegateMethodName, names[(r/8)%len(names)]),
						TokenStandard: types.ZnnTokenStandard, Amount: big.NewInt(0)}, nil, mock.SkipVmChanges)
					z.InsertNewMomentum()
					z.InsertNewMomentum()
					c.Hit("delegate-done")
				}()
			}
			// a consensus instance that starts to listen now, on an empty consensus database, after a weight change
			stayInTick := false
			if e.mid == nil {
				if p := safely(func() { stayInTick = e.midStart() }); p != "" {
					c.Hit("late-start-failed")
				}
			}
			gap := int64(1)
			switch c.R.Intn(10) {
			case 0:
				gap = 2
			case 1:
				gap = int64(3 + c.R.Intn(5))
			case 2:
				gap = int64(e.cctx.NodeCount) + int64(c.R.Intn(40)) // skips at least one whole tick
			case 3, 4:
				// land exactly on the first slot of the next tick (the instant that is the proof time of the tick after it):
				// the following rounds compute that tick's schedule while the frontier sits on its proof time
				f := e.frontier()
				start, _ := e.cctx.ToTime(e.cctx.ToTick(time.Unix(int64(f.TimestampUnix), 0)) + 1)
				if k := (start.Unix() - int64(f.TimestampUnix)) / e.cctx.BlockTime; k >= 1 {
					gap = k
					c.Hit("gap-to-tick-start")
				}
			}
			c.Hit(fmt.Sprintf("gap-%d", func() int64 {
				if gap > 3 {
					return 4
				}
				return gap
			}()))
			if stayInTick && c.R.Intn(4) != 0 {
				gap = 1
			}
			e.round(gap)
			e.midCheck()
			if (r < 60 && r%5 == 4) || r%60 == 59 || r == rounds-1 {
				e.beforeTimeOps()
			}
		}
		// last: a correctly signed sibling of the frontier (parent = frontier-1)
		func() {
			defer func() {
				if x := recover(); x != nil {
					c.Hit("fork-sibling-setup-failed")
				}
			}()
			ch := z.Chain()
			f := e.frontier()
			parent, err := ch.GetFrontierMomentumStore().GetMomentumByHeight(f.Height - 1)
			if err != nil {
				panic(err)
			}
			// (a) the frontier momentum itself presented again (a replay): same parent, slot, content and signer
			if rtx, err := e.build(parent, int64(f.TimestampUnix), nil, keyOf(f.Producer())); err == nil {
				if rtx.Momentum.Hash == f.Hash {
					c.Hit("replay-is-identical-to-frontier")
				}
				e.judge("replay-frontier", cloneMomentum(rtx.Momentum), nil)
			}
			// (b) a different momentum on the same parent: the slot after the frontier's, signed by its elected pillar
			tsec := int64(f.TimestampUnix) + e.cctx.BlockTime
			exp, err := e.z.Consensus().GetMomentumProducer(time.Unix(tsec, 0))
			if err != nil {
				panic(err)
			}
			tx, err := e.build(parent, tsec, nil, keyOf(*exp))
			if err != nil {
				c.Hit("fork-sibling-not-buildable")
				return
			}
			e.judge("fork-sibling", cloneMomentum(tx.Momentum), nil)
			insert := ch.AcquireInsert("zvh fork")
			err = ch.AddMomentumTransaction(insert, tx)
			insert.Unlock()
			after := e.frontier()
			e.emitAdd(f, tx.Momentum)
			if err == nil {
				c.Hit("note-fork-sibling-insert-returned-nil")
				c.Fail("mverify: a momentum extending frontier-1 (height %d, a sibling of the frontier) was accepted by AddMomentumTransaction (nil error, insert event broadcast) although it does not extend the frontier", tx.Momentum.Height)
			} else {
				c.Hit("note-fork-sibling-insert-returned-error")
			}
			// the property: a momentum that does not extend the frontier does not become part of the ledger
			if after.Hash != f.Hash {
				c.Fail("mverify: a momentum extending frontier-1 (height %d) replaced the frontier %v by %v", tx.Momentum.Height, f.Hash, after.Hash)
			}
		}()
	})
}
