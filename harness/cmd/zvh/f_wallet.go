package main

import (
	"crypto/aes"
	"crypto/cipher"
	"fmt"
	"go/ast"
	"go/parser"
	"go/token"
	"path/filepath"
	"strconv"
	"strings"

	"github.com/zenon-network/go-zenon/common/types"
	"github.com/zenon-network/go-zenon/wallet"
)

// ---- small AST helpers (facts read from the SOURCE of /repo, not from the linked package) -------------

type srcFile struct {
	fset *token.FileSet
	f    *ast.File
}

func parseSrc(repo, rel string) (*srcFile, error) {
	fset := token.NewFileSet()
	f, err := parser.ParseFile(fset, filepath.Join(repo, rel), nil, 0)
	if err != nil {
		return nil, err
	}
	return &srcFile{fset, f}, nil
}

// funcDecl finds a function / method by name (recv = "" for plain functions, else receiver type name without *).
func (s *srcFile) funcDecl(recv, name string) *ast.FuncDecl {
	for _, d := range s.f.Decls {
		fd, ok := d.(*ast.FuncDecl)
		if !ok || fd.Name.Name != name {
			continue
		}
		r := ""
		if fd.Recv != nil && len(fd.Recv.List) == 1 {
			t := fd.Recv.List[0].Type
			if st, ok := t.(*ast.StarExpr); ok {
				t = st.X
			}
			if id, ok := t.(*ast.Ident); ok {
				r = id.Name
			}
		}
		if r == recv {
			return fd
		}
	}
	return nil
}

// callsIn returns the calls `<anything>.<sel>(...)` or `<sel>(...)` inside a function body, in source order.
func callsIn(fd *ast.FuncDecl, sel string) []*ast.CallExpr {
	var out []*ast.CallExpr
	if fd == nil || fd.Body == nil {
		return nil
	}
	ast.Inspect(fd.Body, func(n ast.Node) bool {
		ce, ok := n.(*ast.CallExpr)
		if !ok {
			return true
		}
		switch f := ce.Fun.(type) {
		case *ast.SelectorExpr:
			if f.Sel.Name == sel {
				out = append(out, ce)
			}
		case *ast.Ident:
			if f.Name == sel {
				out = append(out, ce)
			}
		}
		return true
	})
	return out
}

// constInt evaluates an integer constant expression made of literals, * and +.
func constInt(e ast.Expr) (uint64, error) {
	switch x := e.(type) {
	case *ast.BasicLit:
		if x.Kind == token.INT {
			return strconv.ParseUint(strings.ReplaceAll(x.Value, "_", ""), 0, 64)
		}
	case *ast.ParenExpr:
		return constInt(x.X)
	case *ast.BinaryExpr:
		a, err := constInt(x.X)
		if err != nil {
			return 0, err
		}
		b, err := constInt(x.Y)
		if err != nil {
			return 0, err
		}
		switch x.Op {
		case token.MUL:
			return a * b, nil
		case token.ADD:
			return a + b, nil
		}
	}
	return 0, fmt.Errorf("not an integer constant expression: %T", e)
}

// constString resolves `[]byte(X)` / X where X is a string literal or a package-level string constant of the file set.
func constString(e ast.Expr, files ...*srcFile) (string, error) {
	if ce, ok := e.(*ast.CallExpr); ok && len(ce.Args) == 1 {
		if at, ok := ce.Fun.(*ast.ArrayType); ok && at.Len == nil {
			if id, ok := at.Elt.(*ast.Ident); ok && id.Name == "byte" {
				return constString(ce.Args[0], files...)
			}
		}
	}
	switch x := e.(type) {
	case *ast.BasicLit:
		if x.Kind == token.STRING {
			return strconv.Unquote(x.Value)
		}
	case *ast.Ident:
		for _, s := range files {
			for _, d := range s.f.Decls {
				gd, ok := d.(*ast.GenDecl)
				if !ok || gd.Tok != token.CONST {
					continue
				}
				for _, sp := range gd.Specs {
					vs := sp.(*ast.ValueSpec)
					for i, n := range vs.Names {
						if n.Name == x.Name && i < len(vs.Values) {
							return constString(vs.Values[i], files...)
						}
					}
				}
			}
		}
	}
	return "", fmt.Errorf("cannot resolve string constant")
}

func bytesOf(s string) []uint64 {
	r := make([]uint64, len(s))
	for i := 0; i < len(s); i++ {
		r[i] = uint64(s[i])
	}
	return r
}

func init() {
	factGens = append(factGens, func(repo string) (*factFile, error) {
		f := newFactFile("Wallet")
		seedMod, ad, aesName, argon, ver, maxSearch := wallet.ConstsVerif()
		_ = ad
		f.raw("-- wallet/derivation.go\n")
		f.nat("FirstHardenedIndex", uint64(wallet.FirstHardenedIndex))
		f.natList("seedModifier", bytesOf(seedMod))
		pf := wallet.ZenonAccountPathFormat
		k := strings.Index(pf, "%d")
		if k < 0 || strings.Count(pf, "%") != 1 {
			return nil, fmt.Errorf("ZenonAccountPathFormat %q is not <prefix>%%d<suffix>", pf)
		}
		f.natList("accountPathPrefix", bytesOf(pf[:k]))
		f.natList("accountPathSuffix", bytesOf(pf[k+2:]))
		f.raw("def pathRegexSrc : String := %q\n", wallet.PathRegexVerif())
		der, err := parseSrc(repo, "wallet/derivation.go")
		if err != nil {
			return nil, err
		}
		// strconv.ParseUint(<seg>, base, bitSize) in isValidPath and DeriveForPath
		for _, fn := range []string{"isValidPath", "DeriveForPath"} {
			cs := callsIn(der.funcDecl("", fn), "ParseUint")
			if len(cs) != 1 || len(cs[0].Args) != 3 {
				return nil, fmt.Errorf("%s: expected exactly one strconv.ParseUint(s, base, bits)", fn)
			}
			base, err1 := constInt(cs[0].Args[1])
			bits, err2 := constInt(cs[0].Args[2])
			if err1 != nil || err2 != nil {
				return nil, fmt.Errorf("%s: ParseUint base/bitSize not constant", fn)
			}
			f.natList("parseUintArgs_"+fn, []uint64{base, bits})
		}
		f.raw("-- wallet/crypto.go, password.go, keyfile.go\n")
		cr, err := parseSrc(repo, "wallet/crypto.go")
		if err != nil {
			return nil, err
		}
		adOf := func(fn, method string) (string, error) {
			cs := callsIn(cr.funcDecl("", fn), method)
			if len(cs) != 1 || len(cs[0].Args) != 4 {
				return "", fmt.Errorf("%s: expected exactly one stream.%s(dst, nonce, text, ad)", fn, method)
			}
			return constString(cs[0].Args[3], cr)
		}
		sealAD, err := adOf("aesGCMEncrypt", "Seal")
		if err != nil {
			return nil, err
		}
		openAD, err := adOf("aesGCMDecrypt", "Open")
		if err != nil {
			return nil, err
		}
		f.natList("sealAD", bytesOf(sealAD))
		f.natList("openAD", bytesOf(openAD))
		ncs := callsIn(cr.funcDecl("", "aesGCMEncrypt"), "GetEntropyCSPRNG")
		if len(ncs) != 1 {
			return nil, fmt.Errorf("aesGCMEncrypt: expected one GetEntropyCSPRNG call")
		}
		nl, err := constInt(ncs[0].Args[0])
		if err != nil {
			return nil, err
		}
		f.nat("nonceLen", nl)
		// nonce size of the AEAD the code constructs: cipher.NewGCM(aes.NewCipher(32-byte key))
		blk, err := aes.NewCipher(make([]byte, 32))
		if err != nil {
			return nil, err
		}
		gcm, err := cipher.NewGCM(blk)
		if err != nil {
			return nil, err
		}
		f.nat("gcmNonceSize", uint64(gcm.NonceSize()))
		pw, err := parseSrc(repo, "wallet/password.go")
		if err != nil {
			return nil, err
		}
		for _, fn := range []string{"Set", "SetFromJSON"} {
			cs := callsIn(pw.funcDecl("passwordHash", fn), "IDKey")
			if len(cs) != 1 || len(cs[0].Args) != 6 {
				return nil, fmt.Errorf("passwordHash.%s: expected exactly one argon2.IDKey(pw, salt, time, mem, threads, keyLen)", fn)
			}
			ps := []uint64{}
			for _, a := range cs[0].Args[2:] {
				v, err := constInt(a)
				if err != nil {
					return nil, err
				}
				ps = append(ps, v)
			}
			f.natList("argonParams_"+fn, ps)
		}
		scs := callsIn(pw.funcDecl("passwordHash", "Set"), "GetEntropyCSPRNG")
		if len(scs) != 1 {
			return nil, fmt.Errorf("passwordHash.Set: expected one GetEntropyCSPRNG call")
		}
		sl, err := constInt(scs[0].Args[0])
		if err != nil {
			return nil, err
		}
		f.nat("saltLen", sl)
		f.natList("aesMode", bytesOf(aesName))
		f.natList("argonName", bytesOf(argon))
		f.nat("cryptoStoreVersion", ver)
		f.nat("maxSearchIndex", maxSearch)
		f.raw("-- common/types/address.go\n")
		f.nat("UserAddrByte", uint64(types.UserAddrByte))
		f.nat("AddressCoreSize", uint64(types.AddressCoreSize))
		f.nat("WlAddressSize", uint64(types.AddressSize))
		return f, nil
	})
}
