package main

import (
	"encoding/json"
	"fmt"
	"math/big"
	"reflect"
	"sort"
	"strings"

	"github.com/zenon-network/go-zenon/chain"
	g "github.com/zenon-network/go-zenon/chain/genesis/mock"
	"github.com/zenon-network/go-zenon/chain/nom"
	"github.com/zenon-network/go-zenon/common/db"
	"github.com/zenon-network/go-zenon/common/types"
	"github.com/zenon-network/go-zenon/verifier"
	"github.com/zenon-network/go-zenon/vm/constants"
	"github.com/zenon-network/go-zenon/vm/embedded/definition"
	"github.com/zenon-network/go-zenon/vm/vm_context"
)

// ---------------------------------------------------------------------------------------------------
// rpc stream, cross-getter family (C18: "every … embedded-contract query returns exactly what the chain contains at
// the frontier").
//
// THE FRONTIER AS THE API DEFINES IT: every embedded getter reads api.GetFrontierContext(chain, contract) =
// vm_context.NewAccountContext(chain.GetFrontierMomentumStore(), chain.GetFrontierAccountStore(contract), nil): the
// momentum store of the last momentum and the CONTRACT'S ACCOUNT CHAIN INCLUDING ITS UNCONFIRMED BLOCKS IN THE POOL. A
// contract-receive block that the producer has generated but no momentum has confirmed yet is part of that state.
//
// The statement, at EVERY step of a history — including the steps in between: a call is sent but unconfirmed; its send
// block is confirmed and the contract has not answered (a momentum whose producer ran no contract phase); the contract's
// receive block is in the pool, unconfirmed; it is confirmed —
//   (1) all getters of one API answer from ONE state: for every list getter and every by-key / by-owner / filtered getter
//       of the same namespace (reviewed table xgTable; methods called by reflection through their RPC names) and every
//       candidate key (the keys of the listed elements plus catalogue keys that match nothing), the by-key getter answers
//       exactly the elements of the list that match the key, field for field (JSON), or null;
//   (2) that state is the frontier defined above: the list equals, element by element and field by field, what the
//       definition.* readers return on the storage of that context.
// Every pager the services register (found by reflection) must be in the table or in the reviewed list of getters without a
// sibling, otherwise the harness reports it.
// ---------------------------------------------------------------------------------------------------

// xgStorage: the storage the API documents (what api.GetFrontierContext builds)
func xgStorage(ch chain.Chain, a types.Address) db.DB {
	return vm_context.NewAccountContext(ch.GetFrontierMomentumStore(), ch.GetFrontierAccountStore(a), nil).Storage()
}

type jsonObj map[string]json.RawMessage

func (o jsonObj) s(key string) string { // scalar as text: strings without their quotes, numbers / booleans as written
	r, ok := o[key]
	if !ok {
		return "<absent>"
	}
	var s string
	if json.Unmarshal(r, &s) == nil {
		return s
	}
	return string(r)
}

func toObj(raw string) jsonObj {
	var o jsonObj
	if json.Unmarshal([]byte(raw), &o) != nil {
		return nil
	}
	return o
}

// elementsOf: the elements of an answer: {count, list} / {list} objects, arrays, one object, or null
func elementsOf(ans string) []string {
	ans = strings.TrimSpace(ans)
	if ans == "null" || ans == "" {
		return nil
	}
	if ans[0] == '[' {
		var l []json.RawMessage
		json.Unmarshal([]byte(ans), &l)
		out := make([]string, len(l))
		for i, e := range l {
			out[i] = string(e)
		}
		return out
	}
	if o := toObj(ans); o != nil {
		if lr, ok := o["list"]; ok {
			if _, ok := o["count"]; ok {
				if string(lr) == "null" {
					return nil
				}
				return elementsOf(string(lr))
			}
		}
	}
	return []string{ans}
}

type xgKeyed struct {
	method string
	paged  bool
	// keys: candidate keys from the listed elements and from the catalogue
	keys func(elems []jsonObj, cat *rpcCat) [][]interface{}
	// match: does the element belong to the answer for this key; nil: the answer only has to be a sub-multiset of the list
	match func(e jsonObj, key []interface{}) bool
	// keep: elements of the by-key answer that are outside the list getter's documented scope are dropped (an inactive sentinel)
	keep func(e jsonObj) bool
}

type xgList struct {
	ns, method string
	contract   types.Address
	// leading arguments of the list getter (nil: none)
	args func(cat *rpcCat) [][]interface{}
	// truth: the elements on the storage of the frontier context (definition structs), for these leading arguments
	truth func(sto db.DB, args []interface{}) ([]interface{}, error)
	// fields: (API key, definition key) pairs compared as text; nil with truth != nil: the elements are compared as whole JSON values
	fields [][2]string
	keyed  []xgKeyed
	// extra: API-specific sibling checks (phases of a project)
	extra func(svcs rpcSvcs, elems []jsonObj, bad func(string, ...interface{}))
}

// addrKeys: the addresses in `field` of the listed elements plus the last `extra` catalogue addresses (the unknown address is
// the last one); extra < 0: all of them
func addrKeys(field string, extra int) func([]jsonObj, *rpcCat) [][]interface{} {
	return func(elems []jsonObj, cat *rpcCat) [][]interface{} {
		seen := map[types.Address]bool{}
		var out [][]interface{}
		add := func(a types.Address) {
			if !seen[a] {
				seen[a] = true
				out = append(out, []interface{}{a})
			}
		}
		for _, e := range elems {
			if a, err := types.ParseAddress(e.s(field)); err == nil {
				add(a)
			}
		}
		for k, a := range cat.addrs {
			if extra < 0 || k >= len(cat.addrs)-extra {
				add(a)
			}
		}
		return out
	}
}
func stringKeys(field string, extra int) func([]jsonObj, *rpcCat) [][]interface{} {
	return func(elems []jsonObj, cat *rpcCat) [][]interface{} {
		seen := map[string]bool{}
		var out [][]interface{}
		add := func(s string) {
			if !seen[s] {
				seen[s] = true
				out = append(out, []interface{}{s})
			}
		}
		for _, e := range elems {
			add(e.s(field))
		}
		for k, s := range cat.strs {
			if extra < 0 || k < extra {
				add(s)
			}
		}
		return out
	}
}
func keyEq(field string) func(jsonObj, []interface{}) bool {
	return func(e jsonObj, key []interface{}) bool { return e.s(field) == fmt.Sprint(key[0]) }
}
func addrArgs(cat *rpcCat) [][]interface{} {
	var out [][]interface{}
	for _, a := range cat.addrs {
		out = append(out, []interface{}{a})
	}
	return out
}
func anyList(v interface{}) []interface{} {
	rv := reflect.ValueOf(v)
	out := make([]interface{}, rv.Len())
	for i := range out {
		out[i] = rv.Index(i).Interface()
	}
	return out
}

var xgTable = []xgList{
	{ns: "embedded.token", method: "getAll", contract: types.TokenContract,
		truth: func(sto db.DB, _ []interface{}) ([]interface{}, error) {
			l, err := definition.GetTokenInfoList(sto)
			return anyList(l), err
		},
		fields: [][2]string{{"tokenStandard", "tokenStandard"}, {"name", "tokenName"}, {"symbol", "tokenSymbol"}, {"domain", "tokenDomain"}, {"totalSupply", "totalSupply"},
			{"maxSupply", "maxSupply"}, {"decimals", "decimals"}, {"owner", "owner"}, {"isMintable", "isMintable"}, {"isBurnable", "isBurnable"}, {"isUtility", "isUtility"}},
		keyed: []xgKeyed{
			{method: "getByZts", match: keyEq("tokenStandard"), keys: func(elems []jsonObj, cat *rpcCat) [][]interface{} {
				seen := map[types.ZenonTokenStandard]bool{}
				var out [][]interface{}
				add := func(z types.ZenonTokenStandard) {
					if !seen[z] {
						seen[z] = true
						out = append(out, []interface{}{z})
					}
				}
				for _, e := range elems {
					if z, err := types.ParseZTS(e.s("tokenStandard")); err == nil {
						add(z)
					}
				}
				for _, z := range cat.zts {
					add(z)
				}
				return out
			}},
			{method: "getByOwner", paged: true, match: keyEq("owner"), keys: addrKeys("owner", -1)},
		}},
	{ns: "embedded.pillar", method: "getAll", contract: types.PillarContract,
		truth: func(sto db.DB, _ []interface{}) ([]interface{}, error) {
			l, err := definition.GetPillarsList(sto, true, definition.AnyPillarType)
			return anyList(l), err
		},
		fields: [][2]string{{"name", "Name"}, {"ownerAddress", "StakeAddress"}, {"producerAddress", "BlockProducingAddress"}, {"withdrawAddress", "RewardWithdrawAddress"},
			{"type", "PillarType"}, {"revokeTimestamp", "RevokeTime"}, {"giveMomentumRewardPercentage", "GiveBlockRewardPercentage"}, {"giveDelegateRewardPercentage", "GiveDelegateRewardPercentage"}},
		keyed: []xgKeyed{
			{method: "getByName", match: keyEq("name"), keys: stringKeys("name", 1)}, // (every pillar getter recomputes the weights: few extra keys)
			{method: "getByOwner", match: keyEq("ownerAddress"), keys: addrKeys("ownerAddress", 1)},
		}},
	{ns: "embedded.sentinel", method: "getAllActive", contract: types.SentinelContract,
		truth: func(sto db.DB, _ []interface{}) ([]interface{}, error) {
			var out []interface{}
			for _, s := range definition.GetAllSentinelInfo(sto) {
				if s.RevokeTimestamp == 0 {
					out = append(out, s)
				}
			}
			return out, nil
		},
		fields: [][2]string{{"owner", "owner"}, {"registrationTimestamp", "registrationTimestamp"}},
		keyed: []xgKeyed{
			{method: "getByOwner", match: keyEq("owner"), keys: addrKeys("owner", -1), keep: func(e jsonObj) bool { return e.s("active") == "true" }},
		}},
	{ns: "embedded.stake", method: "getEntriesByAddress", contract: types.StakeContract, args: addrArgs,
		truth: func(sto db.DB, args []interface{}) ([]interface{}, error) {
			var out []interface{}
			err := definition.IterateStakeEntries(sto, func(s *definition.StakeInfo) error {
				if s.RevokeTime == 0 && s.StakeAddress == args[0].(types.Address) {
					out = append(out, s)
				}
				return nil
			})
			return out, err
		},
		fields: [][2]string{{"id", "id"}, {"amount", "amount"}, {"weightedAmount", "weightedAmount"}, {"startTimestamp", "startTime"}, {"expirationTimestamp", "expirationTime"}, {"address", "stakeAddress"}}},
	{ns: "embedded.plasma", method: "getEntriesByAddress", contract: types.PlasmaContract, args: addrArgs,
		truth: func(sto db.DB, args []interface{}) ([]interface{}, error) {
			l, err := definition.AllFusionInfoVerif(sto)
			var out []interface{}
			for _, f := range l {
				if f.Owner == args[0].(types.Address) {
					out = append(out, f)
				}
			}
			return out, err
		},
		fields: [][2]string{{"id", "id"}, {"qsrAmount", "amount"}, {"beneficiary", "beneficiaryAddress"}, {"expirationHeight", "withdrawHeight"}}},
	{ns: "embedded.accelerator", method: "getAll", contract: types.AcceleratorContract,
		truth: func(sto db.DB, _ []interface{}) ([]interface{}, error) {
			l, err := definition.GetProjectList(sto)
			return anyList(l), err
		},
		fields: [][2]string{{"id", "id"}, {"owner", "owner"}, {"name", "name"}, {"description", "description"}, {"url", "url"}, {"znnFundsNeeded", "znnFundsNeeded"},
			{"qsrFundsNeeded", "qsrFundsNeeded"}, {"creationTimestamp", "creationTimestamp"}, {"lastUpdateTimestamp", "lastUpdateTimestamp"}, {"status", "status"}},
		keyed: []xgKeyed{{method: "getProjectById", match: keyEq("id"), keys: func(elems []jsonObj, cat *rpcCat) [][]interface{} {
			var out [][]interface{} // (an unknown id is an error of the getter, not null: only listed ids)
			for _, e := range elems {
				out = append(out, []interface{}{types.HexToHashPanic(e.s("id"))})
			}
			return out
		}}},
		extra: func(svcs rpcSvcs, elems []jsonObj, bad func(string, ...interface{})) {
			for _, e := range elems {
				for _, ph := range elementsOf(string(e["phases"])) {
					po := toObj(ph)
					if po == nil {
						continue
					}
					inner := toObj(string(po["phase"]))
					if inner == nil {
						continue
					}
					id := types.HexToHashPanic(inner.s("id"))
					if got, _ := svcs.call("embedded.accelerator", "getPhaseById", id); got != ph {
						bad("embedded.accelerator.getAll lists under project %s the phase %.300s; embedded.accelerator.getPhaseById(%s) answers %.300s", e.s("id"), ph, id, got)
					}
				}
			}
		}},
	{ns: "embedded.spork", method: "getAll", contract: types.SporkContract,
		truth: func(sto db.DB, _ []interface{}) ([]interface{}, error) {
			return anyList(definition.GetAllSporks(sto)), nil
		}},
	{ns: "embedded.liquidity", method: "getLiquidityStakeEntriesByAddress", contract: types.LiquidityContract, args: addrArgs,
		truth: func(sto db.DB, args []interface{}) ([]interface{}, error) {
			var out []interface{}
			for _, e := range definition.GetAllLiquidityStakeEntries(sto) {
				if e.RevokeTime == 0 && e.StakeAddress == args[0].(types.Address) {
					out = append(out, e)
				}
			}
			return out, nil
		}},
	{ns: "embedded.bridge", method: "getAllNetworks", contract: types.BridgeContract,
		truth: func(sto db.DB, _ []interface{}) ([]interface{}, error) {
			l, err := definition.GetNetworkList(sto)
			return anyList(l), err
		},
		keyed: []xgKeyed{{method: "getNetworkInfo", keys: func(elems []jsonObj, cat *rpcCat) [][]interface{} {
			var out [][]interface{} // (an unknown network is answered with an empty object, not null: only listed networks)
			for _, e := range elems {
				var a, b uint32
				json.Unmarshal(e["networkClass"], &a)
				json.Unmarshal(e["chainId"], &b)
				out = append(out, []interface{}{a, b})
			}
			return out
		}, match: func(e jsonObj, key []interface{}) bool {
			return e.s("networkClass") == fmt.Sprint(key[0]) && e.s("chainId") == fmt.Sprint(key[1])
		}}}},
	{ns: "embedded.bridge", method: "getAllWrapTokenRequests", contract: types.BridgeContract,
		truth: func(sto db.DB, _ []interface{}) ([]interface{}, error) {
			l, err := definition.GetWrapTokenRequests(sto)
			return anyList(l), err
		},
		fields: [][2]string{{"id", "id"}, {"networkClass", "networkClass"}, {"chainId", "chainId"}, {"toAddress", "toAddress"}, {"tokenStandard", "tokenStandard"},
			{"tokenAddress", "tokenAddress"}, {"amount", "amount"}, {"fee", "fee"}, {"signature", "signature"}, {"creationMomentumHeight", "creationMomentumHeight"}},
		keyed: []xgKeyed{
			{method: "getWrapTokenRequestById", match: keyEq("id"), keys: func(elems []jsonObj, cat *rpcCat) [][]interface{} {
				var out [][]interface{}
				for _, e := range elems {
					out = append(out, []interface{}{types.HexToHashPanic(e.s("id"))})
				}
				return out
			}},
			{method: "getAllWrapTokenRequestsByToAddress", paged: true, match: keyEq("toAddress"), keys: stringKeys("toAddress", -1)},
			{method: "getAllWrapTokenRequestsByToAddressNetworkClassAndChainId", paged: true,
				match: func(e jsonObj, key []interface{}) bool {
					return e.s("toAddress") == fmt.Sprint(key[0]) && e.s("networkClass") == fmt.Sprint(key[1]) && e.s("chainId") == fmt.Sprint(key[2])
				},
				keys: func(elems []jsonObj, cat *rpcCat) [][]interface{} {
					seen := map[string]bool{}
					var out [][]interface{}
					for _, e := range elems {
						var a, b uint32
						json.Unmarshal(e["networkClass"], &a)
						json.Unmarshal(e["chainId"], &b)
						for _, k := range [][]interface{}{{e.s("toAddress"), a, b}, {e.s("toAddress"), a, b + 1}} {
							if s := fmt.Sprint(k...); !seen[s] {
								seen[s] = true
								out = append(out, k)
							}
						}
					}
					return out
				}},
			{method: "getAllUnsignedWrapTokenRequests", paged: true, keys: func([]jsonObj, *rpcCat) [][]interface{} { return [][]interface{}{{}} }},
		}},
	{ns: "embedded.bridge", method: "getAllUnwrapTokenRequests", contract: types.BridgeContract,
		truth: func(sto db.DB, _ []interface{}) ([]interface{}, error) {
			l, err := definition.GetUnwrapTokenRequests(sto)
			return anyList(l), err
		},
		fields: [][2]string{{"transactionHash", "transactionHash"}, {"logIndex", "logIndex"}, {"networkClass", "networkClass"}, {"chainId", "chainId"}, {"toAddress", "toAddress"},
			{"tokenAddress", "tokenAddress"}, {"tokenStandard", "tokenStandard"}, {"amount", "amount"}, {"signature", "signature"}, {"redeemed", "redeemed"}, {"revoked", "revoked"},
			{"registrationMomentumHeight", "registrationMomentumHeight"}},
		keyed: []xgKeyed{
			{method: "getUnwrapTokenRequestByHashAndLog",
				match: func(e jsonObj, key []interface{}) bool {
					return e.s("transactionHash") == fmt.Sprint(key[0]) && e.s("logIndex") == fmt.Sprint(key[1])
				},
				keys: func(elems []jsonObj, cat *rpcCat) [][]interface{} {
					var out [][]interface{}
					for _, e := range elems {
						var li uint32
						json.Unmarshal(e["logIndex"], &li)
						out = append(out, []interface{}{types.HexToHashPanic(e.s("transactionHash")), li})
					}
					return out
				}},
			{method: "getAllUnwrapTokenRequestsByToAddress", paged: true, match: keyEq("toAddress"), keys: stringKeys("toAddress", -1)},
		}},
}

// pagers without a by-key sibling and without a one-call definition reader (reviewed): reward / epoch histories are
// append-only logs per address / epoch; the ledger's pagers are compared with the stores by s_rpc.go / s_rpc_stateless.go
var xgNoSibling = map[string]bool{
	"embedded.pillar.getFrontierRewardByPage": true, "embedded.sentinel.getFrontierRewardByPage": true, "embedded.stake.getFrontierRewardByPage": true,
	"embedded.liquidity.getFrontierRewardByPage": true, "embedded.pillar.getPillarEpochHistory": true, "embedded.pillar.getPillarsHistoryByEpoch": true,
	"ledger.getUnconfirmedBlocksByAddress": true, "ledger.getAccountBlocksByPage": true, "ledger.getUnreceivedBlocksByAddress": true, "ledger.getMomentumsByPage": true,
}

func xgCoverage(svcs rpcSvcs) (missing []string) {
	covered := map[string]bool{}
	for _, l := range xgTable {
		covered[l.ns+"."+l.method] = true
		for _, k := range l.keyed {
			covered[l.ns+"."+k.method] = true
		}
	}
	u32 := reflect.TypeOf(uint32(0))
	for _, svc := range svcs {
		t := svc.v.Type()
		for m := 0; m < t.NumMethod(); m++ {
			ft := t.Method(m).Func.Type()
			ni := ft.NumIn()
			if ni < 3 || ft.In(ni-1) != u32 || ft.In(ni-2) != u32 || ft.NumOut() != 2 {
				continue
			}
			name := svc.ns + "." + strings.ToLower(t.Method(m).Name[:1]) + t.Method(m).Name[1:]
			if !covered[name] && !xgNoSibling[name] && name != "embedded.bridge.getNetworkInfo" {
				missing = append(missing, name)
			}
		}
	}
	return
}

func multiset(l []string) string {
	s := append([]string{}, l...)
	sort.Strings(s)
	return strings.Join(s, "\n")
}

func firstMissing(have, want []string) string { // an element of want that have lacks (as multisets)
	cnt := map[string]int{}
	for _, h := range have {
		cnt[h]++
	}
	for _, w := range want {
		if cnt[w] == 0 {
			return w
		}
		cnt[w]--
	}
	return ""
}

func keyLabel(key []interface{}) string {
	l := make([]string, len(key))
	for i, k := range key {
		l[i] = argLabel(reflect.ValueOf(k))
	}
	return strings.Join(l, ",")
}

// xgObserve evaluates the statement on the current state of the chain. stage: where in the history (nil: the caller's fail
// carries the history).
func xgObserve(c *Ctx, ch chain.Chain, svcs rpcSvcs, fail func(string, ...interface{}), stage func() string, mem *rpcMemory) {
	if mem == nil {
		mem = &rpcMemory{}
	}
	cat := buildRpcCat(ch, mem)
	where := ""
	if stage != nil {
		where = " [state: " + stage() + "]"
	}
	for _, l := range xgTable {
		if _, ok := svcs.get(l.ns); !ok {
			continue
		}
		reported := 0
		bad := func(format string, a ...interface{}) {
			if reported++; reported <= 2 {
				fail("C18: cross-getter: "+format+where, a...)
			}
		}
		combos := [][]interface{}{{}}
		if l.args != nil {
			combos = l.args(cat)
		}
		for _, args := range combos {
			full := append(append([]interface{}{}, args...), uint32(0), uint32(1024))
			lname := fmt.Sprintf("%s.%s(%s)", l.ns, l.method, keyLabel(full))
			ans, ok := svcs.call(l.ns, l.method, full...)
			if !ok {
				if strings.HasPrefix(ans, "panic: ") || strings.HasPrefix(ans, "harness: ") {
					bad("%s: %s", lname, ans)
				}
				c.Hit("xg-list-getter-errors")
				continue
			}
			raw := elementsOf(ans)
			elems := make([]jsonObj, len(raw))
			for i, r := range raw {
				elems[i] = toObj(r)
			}
			c.Hit("xg-list")
			if len(raw) > 0 {
				c.Hit("xg-list-nonempty")
			}
			// (2) the list against the storage of the frontier context
			if l.truth != nil {
				var tl []interface{}
				var terr error
				if p := safely(func() { tl, terr = l.truth(xgStorage(ch, l.contract), args) }); p != "" || terr != nil {
					bad("%s answers %d elements, the definition reader on the storage of the frontier context fails: %v %s", lname, len(raw), terr, p)
				} else {
					var got, want []string
					for _, t := range tl {
						b, _ := json.Marshal(t)
						if l.fields == nil {
							want = append(want, string(b))
							continue
						}
						to := toObj(string(b))
						parts := make([]string, len(l.fields))
						for i, f := range l.fields {
							parts[i] = f[0] + "=" + to.s(f[1])
						}
						want = append(want, strings.Join(parts, " "))
					}
					for i, e := range elems {
						if l.fields == nil {
							got = append(got, raw[i])
							continue
						}
						parts := make([]string, len(l.fields))
						for k, f := range l.fields {
							parts[k] = f[0] + "=" + e.s(f[0])
						}
						got = append(got, strings.Join(parts, " "))
					}
					if multiset(got) != multiset(want) {
						m1, m2 := firstMissing(got, want), firstMissing(want, got)
						bad("%s answers %d elements, the %s contract's storage at the frontier (momentum store of the last momentum + the contract's account chain with its unconfirmed blocks, as api.GetFrontierContext builds it) holds %d; in the storage and not answered: {%.300s}; answered and not in the storage: {%.300s}",
							lname, len(got), addrName(l.contract), len(want), m1, m2)
					}
					c.Hit("xg-list-vs-storage")
				}
			}
			// (1) every sibling getter answers from the same state
			for _, kd := range l.keyed {
				for _, key := range kd.keys(elems, cat) {
					kargs := append(append([]interface{}{}, args...), key...)
					if kd.paged {
						kargs = append(kargs, uint32(0), uint32(1024))
					}
					kname := fmt.Sprintf("%s.%s(%s)", l.ns, kd.method, keyLabel(kargs))
					kans, ok := svcs.call(l.ns, kd.method, kargs...)
					var want []string
					for i, e := range elems {
						if kd.match != nil && kd.match(e, key) {
							want = append(want, raw[i])
						}
					}
					if !ok {
						if len(want) > 0 || strings.HasPrefix(kans, "panic: ") || strings.HasPrefix(kans, "harness: ") {
							bad("%s lists %d element(s) for that key (first: %.300s); %s answers %s", lname, len(want), firstOr(want), kname, kans)
						}
						c.Hit("xg-keyed-getter-errors")
						continue
					}
					var got []string
					for _, e := range elementsOf(kans) {
						if kd.keep == nil || kd.keep(toObj(e)) {
							got = append(got, e)
						}
					}
					c.Hit("xg-keyed")
					if len(got) > 0 {
						c.Hit("xg-keyed-nonempty")
					}
					if kd.match == nil {
						if m := firstMissing(raw, got); m != "" {
							bad("%s answers an element that %s does not list: %.300s", kname, lname, m)
						}
						continue
					}
					if multiset(got) != multiset(want) {
						m1, m2 := firstMissing(got, want), firstMissing(want, got)
						bad("the getters of one API answer from different states: %s lists %d element(s) for the key, %s answers %d; listed and not answered by key: {%.300s}; answered by key and not listed (or listed with other fields): {%.300s}",
							lname, len(want), kname, len(got), m1, m2)
					}
				}
			}
			if l.extra != nil {
				l.extra(svcs, elems, bad)
			}
		}
	}
	// htlc has no list getter: by id against the storage of the frontier context
	if _, ok := svcs.get("embedded.htlc"); ok {
		for _, h := range cat.hashes {
			ans, ok := svcs.call("embedded.htlc", "getById", h)
			var info *definition.HtlcInfo
			var terr error
			safely(func() { info, terr = definition.GetHtlcInfo(xgStorage(ch, types.HtlcContract), h) })
			if terr != nil || info == nil {
				if ok && ans != "null" {
					fail("C18: cross-getter: embedded.htlc.getById(%s) answers %.200s, the storage at the frontier holds no such entry (%v)%s", h8(h), ans, terr, where)
				}
				continue
			}
			b, _ := json.Marshal(info)
			if ans != string(b) {
				fail("C18: cross-getter: embedded.htlc.getById(%s) answers %.300s, the htlc contract's storage at the frontier holds %.300s%s", h8(h), ans, string(b), where)
			}
			c.Hit("xg-htlc-entry")
		}
	}
	c.Hit("xg-observation")
}

func xgFrontierTime(ch chain.Chain) int64 {
	fr, err := ch.GetFrontierMomentumStore().GetFrontierMomentum()
	if err != nil {
		return 0
	}
	return int64(fr.TimestampUnix)
}

func firstOr(l []string) string {
	if len(l) == 0 {
		return "<none>"
	}
	return l[0]
}

// ---------------------------------------------------------------------------------------------------
// rpcXgHistory: operations on the token, pillar, sentinel, stake, plasma, accelerator, spork and htlc contracts, one or a few
// per round, each round driven through every intermediate state, the statement evaluated at each:
//   sent        the calls are in the pool, unconfirmed
//   confirmed   a momentum WITHOUT the producer's contract phase confirmed them: the contracts have not answered
//   pooled      the next producer's contract phase has generated the receive blocks: in the pool, unconfirmed (Node.Momentum
//               = momentum + contract phase, exactly the state of a node between two momentums)
//   settled     the receive blocks are confirmed
// ---------------------------------------------------------------------------------------------------

func rpcXgHistory(c *Ctx, id int) {
	origGate := verifier.ReceiverMismatchEnforcementHeight
	defer func() { verifier.ReceiverMismatchEnforcementHeight = origGate }()
	verifier.ReceiverMismatchEnforcementHeight = 0
	n := NewNode()
	defer n.Stop()
	svcs := rpcServicesOf(n.Z) // long-lived, as on a node
	if missing := xgCoverage(svcs); len(missing) > 0 {
		c.Fail("rpc run=%d cross-getter: harness: pagers without an entry in the cross-getter table or the reviewed no-sibling list: %s", id, strings.Join(missing, ", "))
	}
	for i, sp := range []*types.ImplementedSpork{types.AcceleratorSpork, types.HtlcSpork} {
		if err := n.ActivateSpork(sp, fmt.Sprintf("xg-spork-%d", i)); err != nil {
			c.Fail("rpc run=%d cross-getter: setup: spork activation: %v", id, err)
			return
		}
	}
	fails := 0
	mem := &rpcMemory{}
	var round []string
	stageName := ""
	fail := func(format string, a ...interface{}) {
		if fails++; fails <= 6 {
			c.Fail("rpc run=%d %s", id, fmt.Sprintf(format, a...))
		}
	}
	stage := func() string {
		return fmt.Sprintf("height %d, %s; calls of this round: %s", n.Height(), stageName, strings.Join(round, " + "))
	}
	observe := func(s string) {
		stageName = s
		xgObserve(c, n.Chain(), svcs, fail, stage, mem)
		c.Hit("xg-state-" + strings.SplitN(s, ":", 2)[0])
	}
	znn := func(units int64) *big.Int { return new(big.Int).Mul(big.NewInt(units), big.NewInt(g.Zexp)) }
	u1, u2, u3, u4 := g.User1.Address, g.User2.Address, g.User3.Address, g.User4.Address
	call := func(what string, from, to types.Address, tok types.ZenonTokenStandard, amount *big.Int, data []byte) *nom.AccountBlock {
		b, err := n.Submit(&nom.AccountBlock{BlockType: nom.BlockTypeUserSend, Address: from, ToAddress: to, TokenStandard: tok, Amount: amount, Data: data})
		if err != nil {
			c.Hit("xg-call-refused")
			c.Emit("#xg setup: %s refused: %v", what, err)
			return nil
		}
		round = append(round, what)
		return b
	}
	tokensOf := func(owner types.Address) []*definition.TokenInfo {
		var out []*definition.TokenInfo
		if tl, err := definition.GetTokenInfoList(n.Chain().GetFrontierMomentumStore().GetAccountStore(types.TokenContract).Storage()); err == nil {
			for _, t := range tl {
				if t.Owner == owner && t.TokenStandard != types.ZnnTokenStandard && t.TokenStandard != types.QsrTokenStandard {
					out = append(out, t)
				}
			}
		}
		return out
	}
	zero := big.NewInt(0)
	serial := 0
	var htlcs []types.Hash
	ops := []func(){
		func() { // issue
			serial++
			call("token.issue by U1", u1, types.TokenContract, types.ZnnTokenStandard, constants.TokenIssueAmount, definition.ABIToken.PackMethodPanic(definition.IssueMethodName,
				fmt.Sprintf("xg-token-%d", serial), fmt.Sprintf("XG%d", serial), "", big.NewInt(int64(1000+serial)), big.NewInt(int64(100000+serial)), uint8(serial%9), true, true, false))
		},
		func() { // mint
			if ts := tokensOf(u1); len(ts) > 0 {
				t := ts[c.R.Intn(len(ts))]
				call("token.mint "+tokName(t.TokenStandard), u1, types.TokenContract, types.ZnnTokenStandard, zero, definition.ABIToken.PackMethodPanic(definition.MintMethodName, t.TokenStandard, big.NewInt(int64(1+c.R.Intn(50))), u2))
			}
		},
		func() { // burn (by the owner, of what the owner holds)
			if ts := tokensOf(u1); len(ts) > 0 {
				t := ts[c.R.Intn(len(ts))]
				for _, h := range func() []types.Hash {
					l, _ := n.Chain().GetFrontierMomentumStore().GetAccountMailbox(u1).GetUnreceivedAccountBlockHashes(20)
					return l
				}() {
					n.Submit(&nom.AccountBlock{BlockType: nom.BlockTypeUserReceive, Address: u1, FromBlockHash: h})
				}
				call("token.burn "+tokName(t.TokenStandard), u1, types.TokenContract, t.TokenStandard, big.NewInt(int64(1+c.R.Intn(5))), definition.ABIToken.PackMethodPanic(definition.BurnMethodName))
			}
		},
		func() { // update: ownership moves between U1 and U3
			from, to := u1, u3
			if c.R.Intn(2) == 0 {
				from, to = u3, u1
			}
			if ts := tokensOf(from); len(ts) > 0 {
				t := ts[c.R.Intn(len(ts))]
				call(fmt.Sprintf("token.updateToken %s to %s", tokName(t.TokenStandard), addrName(to)), from, types.TokenContract, types.ZnnTokenStandard, zero,
					definition.ABIToken.PackMethodPanic(definition.UpdateTokenMethodName, t.TokenStandard, to, true, c.R.Intn(2) == 0))
			}
		},
		func() { // fuse
			b := []types.Address{u2, u3, g.User6.Address}[c.R.Intn(3)]
			call("plasma.fuse for "+addrName(b), u1, types.PlasmaContract, types.QsrTokenStandard, znn(int64(10+c.R.Intn(90))), definition.ABIPlasma.PackMethodPanic(definition.FuseMethodName, b))
		},
		func() { // stake
			call("stake.stake by U2", u2, types.StakeContract, types.ZnnTokenStandard, znn(int64(1+c.R.Intn(9))), definition.ABIStake.PackMethodPanic(definition.StakeMethodName, constants.StakeTimeUnitSec*int64(1+c.R.Intn(3))))
		},
		func() { // sentinel: deposit, then register
			a := []types.Address{u1, u2, g.Pillar4.Address}[c.R.Intn(3)]
			if definition.GetSentinelInfoByOwner(xgStorage(n.Chain(), types.SentinelContract), a) != nil {
				call("sentinel.revoke by "+addrName(a), a, types.SentinelContract, types.ZnnTokenStandard, zero, definition.ABISentinel.PackMethodPanic(definition.RevokeSentinelMethodName))
				return
			}
			call("sentinel.depositQsr by "+addrName(a), a, types.SentinelContract, types.QsrTokenStandard, constants.SentinelQsrDepositAmount, definition.ABICommon.PackMethodPanic(definition.DepositQsrMethodName))
			call("sentinel.register by "+addrName(a), a, types.SentinelContract, types.ZnnTokenStandard, constants.SentinelZnnRegisterAmount, definition.ABISentinel.PackMethodPanic(definition.RegisterSentinelMethodName))
		},
		func() { // accelerator project
			serial++
			call("accelerator.createProject by U3", u3, types.AcceleratorContract, types.ZnnTokenStandard, constants.ProjectCreationAmount, definition.ABIAccelerator.PackMethodPanic(definition.CreateProjectMethodName,
				fmt.Sprintf("xg-project-%d", serial), "a project", "www.zenon.network", znn(10), znn(100)))
		},
		func() { // pillar: update of a genesis pillar's reward percentages (the list element changes in place)
			call("pillar.updatePillar "+g.Pillar1Name, g.Pillar1.Address, types.PillarContract, types.ZnnTokenStandard, zero, definition.ABIPillars.PackMethodPanic(definition.UpdatePillarMethodName,
				g.Pillar1Name, g.Pillar1.Address, g.Pillar1.Address, uint8(c.R.Intn(101)), uint8(c.R.Intn(101))))
		},
		func() { // pillar: a new one (deposit in one round, registration in a later one)
			a := g.Pillar7.Address
			dep, _ := definition.GetQsrDeposit(xgStorage(n.Chain(), types.PillarContract), &a)
			if dep != nil && dep.Qsr != nil && dep.Qsr.Cmp(znn(150000)) >= 0 {
				call("pillar.register xg-pillar", a, types.PillarContract, types.ZnnTokenStandard, constants.PillarStakeAmount, definition.ABIPillars.PackMethodPanic(definition.RegisterMethodName,
					"xg-pillar", a, a, uint8(10), uint8(50)))
				return
			}
			call("pillar.depositQsr by "+addrName(a), a, types.PillarContract, types.QsrTokenStandard, znn(190000), definition.ABICommon.PackMethodPanic(definition.DepositQsrMethodName))
		},
		func() { // spork
			serial++
			call("spork.create", g.Spork.Address, types.SporkContract, types.ZnnTokenStandard, zero, definition.ABISpork.PackMethodPanic(definition.SporkCreateMethodName, fmt.Sprintf("xg-spork-x%d", serial), "for the cross-getter family"))
		},
		func() { // htlc
			lock := types.NewHash([]byte(fmt.Sprintf("xg-preimage-%d-%d", id, serial))).Bytes()
			serial++
			if b := call("htlc.create by U4", u4, types.HtlcContract, types.ZnnTokenStandard, znn(1), definition.ABIHtlc.PackMethodPanic(definition.CreateHtlcMethodName,
				u2, xgFrontierTime(n.Chain())+100000, uint8(0), uint8(32), lock)); b != nil {
				htlcs = append(htlcs, b.Hash)
				mem.addHash(b.Hash)
			}
		},
	}
	opHit := map[int]bool{}
	rounds := 14 + c.R.Intn(6)
	for r := 0; r < rounds; r++ {
		round = round[:0]
		for k := 0; k < 1+c.R.Intn(3); k++ {
			i := c.R.Intn(len(ops))
			if r < len(ops) && k == 0 {
				i = (r + id) % len(ops) // every operation at least once per history
			}
			opHit[i] = true
			ops[i]()
		}
		if len(round) == 0 {
			continue
		}
		c.Emit("#xg run=%d round %d at height %d: %s", id, r, n.Height(), nameTok(strings.Join(round, "+")))
		observe("sent: the calls are in the pool, unconfirmed")
		withoutPhase := c.R.Intn(3) != 0
		if withoutPhase {
			if _, err := n.MomentumWithoutContractPhase(); err != nil {
				c.Hit("xg-manual-momentum-failed")
				withoutPhase = false
			} else {
				observe("confirmed: a momentum without contract phase confirmed the calls, the contracts have not answered")
			}
		}
		if _, err := n.Momentum(); err != nil {
			fail("cross-getter: setup: momentum production failed: %v", err)
			return
		}
		if withoutPhase {
			// Node.Momentum = momentum (confirms nothing new of this round) + contract phase (answers the calls)
			observe("pooled: the contracts' receive blocks are generated, in the pool, unconfirmed (calls confirmed one momentum earlier)")
		} else {
			observe("pooled: the calls are confirmed by the last momentum and the contracts' receive blocks are generated, in the pool, unconfirmed")
		}
		if _, err := n.Momentum(); err != nil {
			fail("cross-getter: setup: momentum production failed: %v", err)
			return
		}
		observe("settled: the contracts' receive blocks are confirmed")
		if c.R.Intn(4) == 0 {
			n.Momentum()
		}
	}
	c.HitN("xg-operations-used", len(opHit))
	c.HitN("xg-htlc-created", len(htlcs))
	c.Hit("xg-history")
}
