package main

// codec stream (C13), the TYPED RLP decoder: rlp.DecodeBytes into *nom.AccountBlock (go-ethereum reflection over the struct)
// against the Lean model `Codec.rlpDecodeBlock` (Model/CodecRLPTyped.lean):
//   ab-unrlp <hex> | ok <block tokens> | err | panic
// on the canonical encoding of every generated block and on typed-level mutations of it: one member of the block's list
// (chosen at random) re-encoded with a leading zero byte, without its last byte, as a 9-byte string, as an empty string, as an
// empty list, as a two-member list; the last member dropped; one member appended. Monitor (model-free): the canonical encoding
// decodes to a block with the same hash and the same Serialize() bytes.

import (
	"bytes"
	"strings"

	"github.com/ethereum/go-ethereum/rlp"

	"github.com/zenon-network/go-zenon/chain/nom"
)

func codecRlpTypedLine(c *Ctx, data []byte, kind string) *nom.AccountBlock {
	var back *nom.AccountBlock
	res := cdGuard(func() string {
		b := new(nom.AccountBlock)
		if err := rlp.DecodeBytes(data, b); err != nil {
			return "err"
		}
		back = b
		return "ok " + blockStr(b)
	})
	c.Emit("ab-unrlp %s | %s", hx(data), res)
	c.Hit("ab-unrlp-" + kind + "-" + strings.SplitN(res, " ", 2)[0])
	return back
}

func codecRlpTyped(c *Ctx, b *nom.AccountBlock, data []byte) {
	back := codecRlpTypedLine(c, data, "canonical")
	if back == nil {
		c.Fail("rlp.DecodeBytes refuses the canonical encoding of block %s", short(blockStr(b)))
		return
	}
	if x, y := cjSerialize(back), cjSerialize(b); !bytes.Equal(x, y) || safeABHash(back) != safeABHash(b) {
		c.Fail("block changes through rlp.EncodeToBytes / rlp.DecodeBytes: %s -> %s", short(blockStr(b)), short(blockStr(back)))
	}
	var items []rlp.RawValue
	if err := rlp.DecodeBytes(data, &items); err != nil || len(items) == 0 {
		return
	}
	mut := append([]rlp.RawValue{}, items...)
	k := c.R.Intn(len(mut))
	kindOf, content, _, err := rlp.Split(mut[k])
	if err != nil {
		return
	}
	enc := func(x interface{}) rlp.RawValue {
		r, _ := rlp.EncodeToBytes(x)
		return r
	}
	name := ""
	switch c.R.Intn(8) {
	case 0:
		if kindOf == rlp.List {
			return
		}
		mut[k], name = enc(append([]byte{0}, content...)), "leading-zero"
	case 1:
		if kindOf == rlp.List || len(content) == 0 {
			return
		}
		mut[k], name = enc(content[:len(content)-1]), "cut-last"
	case 2:
		mut[k], name = enc(bytes.Repeat([]byte{1}, 9)), "nine-bytes"
	case 3:
		mut[k], name = enc([]byte{}), "empty-string"
	case 4:
		mut[k], name = rlp.RawValue{0xc0}, "empty-list"
	case 5:
		mut[k], name = enc([][]byte{bytes.Repeat([]byte{2}, 8), {}}), "two-member-list"
	case 6:
		mut, name = mut[:len(mut)-1], "member-dropped"
	default:
		mut, name = append(mut, rlp.RawValue{0x80}), "member-appended"
	}
	if v, err := rlp.EncodeToBytes(mut); err == nil {
		codecRlpTypedLine(c, v, name)
	}
}
