package main

// sync-batches, abstract node trace WITH reorganisations (C02 / C06 / C16; lean/ZenonVerif/Model/NodeReorg.lean, driver
// lean/Driver/NodeReorg.lean, theorems lean/ZenonVerif/Props/C06Reorg.lean). Every follower of the stream writes down what is done
// to it — deliveries (extensions, side chains, refused batches, batches that fail half-way before or after a rollback), gossip,
// restarts — in the vocabulary of the node-level model, with what the REAL node answered: InsertChain's error class and index,
// the node's chain (height and hash of every momentum) and the identifiers in its pool of unconfirmed blocks after every
// operation. The driver replays the operations on `NodeReorg.deliverR` / `stepOp` (exec := an uninterpreted tagging of (ledger as
// of the acknowledged momentum, account chain up to the stated previous, block)) and compares all of it; when a follower is
// retired the model side also checks "stored history and ledger = those of a fresh model node that is given only the current
// chain in one batch" (`no_trace_of_abandoned_branch`), while reverify / noTrace are the model-free comparison on real nodes.
//
//   nr-reset <genesis id> <n> <acct>:<block id> × n                                  (no observation) the history's genesis
//   nr-blk <block id> <acct> <pos> <prev> <ack> <total> <base>                       (no observation) a block of the producer's history
//   nr-new <fid>                                                                     (no observation) a fresh follower
//   nr-deliver <fid> <k> <id>/<prev>/<height>/<v>/<content ids|->/<delivered ids|-> × k | <class> <index>
//   nr-gossip <fid> <block id>                                                        | accepted / refused
//   nr-restart <fid>                                                                 (no observation)
//   nr-chain <fid>                                                                   | <momentum ids from height 2, oldest first> / -
//   nr-pool <fid>                                                                    | <first 8 bytes of the pooled ids, sorted> / -
//   nr-fresh <fid>                                                                   | same        (model: fresh node fed `served` chain)
//   nr-drop <fid> <reason>                                                           (no observation) the follower leaves the trace
//
// Momentum identifiers (id, prev, ack, genesis id) are Identifier()/Previous(): 8 bytes of the hash followed by the 8 bytes of
// the height — the height is part of an identifier in the code and must be in the model (a head that names an own hash at the
// wrong height does not link). <v> = 1: the momentum's header is the producer's own bytes; 0: altered by the generator (signature,
// changes hash, hash, producer, timestamp, previous hash, a dropped block) — the model's instance refuses such a momentum at the
// changes-hash comparison, which like every momentum check of the code comes after the block loop and before any change.
//
// What the abstract model cannot decide from these lines — whether the REAL VM accepts a block in a context the producer never
// executed it in (blocks of a momentum that does not link, of fabricated momentums, unlisted extra blocks) or an altered block
// body — is not guessed: such a delivery ends the follower's trace (`nr-drop`, counted per reason); the model-free monitors of
// the stream go on judging it.

import (
	"fmt"
	"sort"
	"strings"

	"github.com/zenon-network/go-zenon/chain"
	"github.com/zenon-network/go-zenon/chain/genesis"
	g "github.com/zenon-network/go-zenon/chain/genesis/mock"
	"github.com/zenon-network/go-zenon/chain/nom"
	"github.com/zenon-network/go-zenon/common"
	"github.com/zenon-network/go-zenon/common/db"
	"github.com/zenon-network/go-zenon/common/types"
	"github.com/zenon-network/go-zenon/consensus"
	"github.com/zenon-network/go-zenon/protocol"
	"github.com/zenon-network/go-zenon/verifier"
	"github.com/zenon-network/go-zenon/vm"
)

type nrTrace struct {
	c       *Ctx
	isTx    map[types.Hash]bool // every block of the history: is it a pool transaction (not a ContractSend)
	tracked map[int]bool
	real    map[int]bool // followers that were also compared with a real fresh node (reverify)
}

func nrMid(id types.HashHeight) string { return fmt.Sprintf("%s%016x", nsHex(id.Hash[:8]), id.Height) }

// header corruptions of a momentum: refused by ApplyMomentum after the block loop, whatever the blocks are
var nrCleanNotes = map[string]bool{"sig": true, "changes": true, "hash": true, "producer": true, "timestamp": true, "prevhash": true, "dropblock": true}

func nrBegin(r *syncRun) *nrTrace {
	c, h := r.c, r.hist
	t := &nrTrace{c: c, isTx: map[types.Hash]bool{}, tracked: map[int]bool{}, real: map[int]bool{}}
	if len(h.paths) == 0 || len(h.paths[0]) == 0 {
		return nil
	}
	gen := h.dm(h.paths[0][0])
	base := map[types.Address]uint64{}
	var gs []string
	for _, b := range gen.AccountBlocks {
		t.isTx[b.Hash] = isTx(b)
		if !isTx(b) {
			continue
		}
		base[b.Address]++
		gs = append(gs, nsHex(b.Address[:])+":"+nsHex(b.Hash[:]))
	}
	c.Emit("nr-reset %s %d %s", nrMid(gen.Momentum.Identifier()), len(gs), strings.Join(gs, " "))
	// the genesis momentum's own blocks (a batch may carry the genesis momentum: it is always known, its blocks are never looked at)
	gcount := map[types.Address]uint64{}
	for _, b := range gen.AccountBlocks {
		if !isTx(b) {
			continue
		}
		gcount[b.Address]++
		prev := b.Previous()
		c.Emit("nr-blk %s %s %d %s %s %d %d", nsHex(b.Hash[:]), nsHex(b.Address[:]), gcount[b.Address], nsHex(prev.Hash[:]),
			nrMid(b.MomentumAcknowledged), b.TotalPlasma, b.BasePlasma)
	}
	done := map[types.Hash]bool{}
	for _, p := range h.paths {
		count := map[types.Address]uint64{}
		for a, n := range base {
			count[a] = n
		}
		for _, mh := range p[1:] {
			dm := h.dm(mh)
			for _, b := range dm.AccountBlocks {
				t.isTx[b.Hash] = isTx(b)
				if !isTx(b) {
					continue
				}
				count[b.Address]++
				if done[b.Hash] {
					continue
				}
				done[b.Hash] = true
				prev := b.Previous()
				c.Emit("nr-blk %s %s %d %s %s %d %d", nsHex(b.Hash[:]), nsHex(b.Address[:]), count[b.Address], nsHex(prev.Hash[:]),
					nrMid(b.MomentumAcknowledged), b.TotalPlasma, b.BasePlasma)
			}
		}
	}
	c.HitN("nr-blocks-described", len(done))
	return t
}

func (t *nrTrace) onNew(f *syncFollower) {
	if t == nil {
		return
	}
	t.tracked[f.id] = true
	t.c.Emit("nr-new %d", f.id)
	t.c.Hit("nr-followers")
}

func (t *nrTrace) drop(f *syncFollower, reason string) {
	t.tracked[f.id] = false
	t.c.Emit("nr-drop %d %s", f.id, reason)
	t.c.Hit("nr-drop-" + reason)
}

func (t *nrTrace) state(f *syncFollower) {
	hs := f.hashes()
	ids := make([]string, 0, len(hs))
	for i := 1; i < len(hs); i++ {
		ids = append(ids, nrMid(types.HashHeight{Hash: hs[i], Height: uint64(i + 1)}))
	}
	cs := "-"
	if len(ids) > 0 {
		cs = strings.Join(ids, ",")
	}
	t.c.Emit("nr-chain %d | %s", f.id, cs)
	var pool []string
	safely(func() {
		for _, b := range f.ch.GetAllUncommittedAccountBlocks() {
			if isTx(b) {
				pool = append(pool, nsHex(b.Hash[:]))
			}
		}
	})
	sort.Strings(pool)
	for i := range pool {
		pool[i] = pool[i][:16]
	}
	ps := "-"
	if len(pool) > 0 {
		ps = strings.Join(pool, ",")
		t.c.Hit("nr-pool-nonempty")
	}
	t.c.Emit("nr-pool %d | %s", f.id, ps)
}

func nrBaseNote(note string) string {
	if i := strings.IndexByte(note, '@'); i > 0 {
		note = note[:i]
	}
	return note
}

// onDeliver: one InsertChain call on a traced follower, with the chain it met (`before`) and what it returned.
func (t *nrTrace) onDeliver(f *syncFollower, batch []elem, concurrent bool, before []types.Hash, idx int, class string, pn interface{}) {
	if t == nil || !t.tracked[f.id] {
		return
	}
	c := t.c
	reason := ""
	switch {
	case concurrent:
		reason = "concurrent-delivery"
	case pn != nil:
		reason = "panic"
	}
	first := 0 // the first element the node does not hold
	for first < len(batch) {
		m := batch[first].dm.Momentum
		if m.Height < 1 || int(m.Height) > len(before) || before[m.Height-1] != m.Hash {
			break
		}
		first++
	}
	for _, e := range batch {
		note := nrBaseNote(e.note)
		if reason == "" && (e.lenient || (note != "" && !nrCleanNotes[note] && note != "fabricated")) {
			reason = "altered-block-or-extra-block"
		}
		for _, b := range e.dm.AccountBlocks {
			if _, ok := t.isTx[b.Hash]; !ok && reason == "" {
				reason = "unknown-block"
			}
		}
	}
	if reason == "" && class == "verify" {
		// which element the insert loop must stop at is read off the BATCH (not off the index the call reported — that is compared):
		// the first unknown element that is altered, or that does not link to its predecessor in the batch
		exp := -1
		for i := first; i < len(batch) && exp < 0; i++ {
			if !batch[i].valid {
				exp = i
			} else if i > first {
				p, m := batch[i-1].dm.Momentum, batch[i].dm.Momentum
				if m.PreviousHash != p.Hash || m.Height != p.Height+1 {
					exp = i
				}
			}
		}
		switch {
		case exp < 0:
			reason = "refusal-not-explained-by-the-batch" // every element genuine and linking: M5 of the stream judges it
		case batch[exp].valid:
			reason = "genuine-momentum-out-of-place" // does not link: whether the VM accepts its blocks there is not the model's to say
		case !nrCleanNotes[nrBaseNote(batch[exp].note)]:
			reason = "fabricated-momentum-executed"
		case exp > first && batch[exp].dm.Momentum.Height != batch[exp-1].dm.Momentum.Height+1:
			reason = "altered-momentum-out-of-place"
		}
	}
	if reason != "" {
		t.drop(f, reason)
		return
	}
	toks := make([]string, len(batch))
	for i, e := range batch {
		m := e.dm.Momentum
		var content, blocks []string
		for _, hd := range m.Content {
			if t.isTx[hd.Hash] {
				content = append(content, nsHex(hd.Hash[:]))
			}
		}
		for _, b := range e.dm.AccountBlocks {
			if t.isTx[b.Hash] {
				blocks = append(blocks, nsHex(b.Hash[:]))
			}
		}
		v := 0
		if e.valid {
			v = 1
		}
		cs, bs := "-", "-"
		if len(content) > 0 {
			cs = strings.Join(content, ",")
		}
		if len(blocks) > 0 {
			bs = strings.Join(blocks, ",")
		}
		toks[i] = fmt.Sprintf("%s/%s/%d/%d/%s/%s", nrMid(m.Identifier()), nrMid(m.Previous()), m.Height, v, cs, bs)
	}
	if class == "ok" {
		idx = 0
	}
	c.Emit("nr-deliver %d %d %s | %s %d", f.id, len(batch), strings.Join(toks, " "), class, idx)
	c.Hit("nr-deliver")
	c.Hit("nr-deliver-" + class)
	if !isPrefix(before, f.hashes()) {
		c.Hit("nr-deliver-left-own-chain")
		if class == "verify" {
			c.Hit("nr-deliver-failed-after-rollback")
		}
	}
	t.state(f)
}

func (t *nrTrace) onGossip(f *syncFollower, b *nom.AccountBlock, err error) {
	if t == nil || !t.tracked[f.id] || !isTx(b) {
		return
	}
	if _, ok := t.isTx[b.Hash]; !ok {
		t.drop(f, "unknown-block-gossiped")
		return
	}
	v := "accepted"
	if err != nil {
		v = "refused"
	}
	t.c.Emit("nr-gossip %d %s | %s", f.id, nsHex(b.Hash[:]), v)
	t.c.Hit("nr-gossip-" + v)
	t.state(f)
}

func (t *nrTrace) onRestart(f *syncFollower) {
	if t == nil || !t.tracked[f.id] {
		return
	}
	t.c.Emit("nr-restart %d", f.id)
	t.c.Hit("nr-restart")
	t.state(f)
}

// onStop: the follower is retired. Model side: its stored history and ledger equal those of a fresh model node fed only its current
// chain. (Real side: reverify + noTrace, on the followers the stream selects; counted.)
func (t *nrTrace) onStop(f *syncFollower) {
	if t == nil || !t.tracked[f.id] {
		return
	}
	t.tracked[f.id] = false
	t.c.Emit("nr-fresh %d | same", f.id)
	t.c.Hit("nr-fresh")
	if f.switches > 0 {
		t.c.Hit("nr-fresh-after-switch")
	}
	if t.real[f.id] {
		t.c.Hit("nr-fresh-also-compared-on-real-fresh-node")
	}
}

// reopen: the node is closed and started again on the same database directory (the pool of unconfirmed blocks lives in memory)
func (f *follower) reopen() {
	func() {
		defer func() { recover() }()
		f.cons.Stop()
		f.ch.Stop()
	}()
	mgr := db.NewLevelDBManager(f.dir)
	ch := chain.NewChain(mgr, genesis.NewGenesis(g.EmbeddedGenesis))
	cons := consensus.NewConsensus(db.NewMemDB(), ch, true)
	common.DealWithErr(ch.Init())
	common.DealWithErr(cons.Init())
	common.DealWithErr(ch.Start())
	common.DealWithErr(cons.Start())
	sup := vm.NewSupervisor(ch, cons)
	f.mgr, f.ch, f.cons, f.sup = mgr, ch, cons, sup
	f.bridge = protocol.NewChainBridge(ch, cons, verifier.NewVerifier(ch, cons), sup)
	silenceLoggers()
}

func (r *syncRun) nrGossip(f *syncFollower, b *nom.AccountBlock) error {
	var err error
	if p := safely(func() { err = f.bridge.AddAccountBlocks([]*nom.AccountBlock{b}) }); p != "" {
		err = fmt.Errorf("panic: %s", firstLine(p))
		r.c.Fail("C02/C06 AddAccountBlocks panics on follower %d: %s", f.id, firstLine(p))
	}
	r.nr.onGossip(f, b, err)
	return err
}

// userSends: the user send blocks of the momentum (the blocks whose validity needs nothing but the account's own chain and funds)
func userSends(dm *nom.DetailedMomentum) []*nom.AccountBlock {
	var out []*nom.AccountBlock
	for _, b := range dm.AccountBlocks {
		if b.BlockType == nom.BlockTypeUserSend {
			out = append(out, b)
		}
	}
	return out
}

// directedReorg (part 4): followers that go through gossip — reorganisation — restart — gossip of abandoned blocks — delivery of
// the abandoned branch — reorganisation back, every step traced. Model-free monitors here: a rollback leaves the pool of
// unconfirmed blocks EMPTY (C06: "pool dropped on delete"), a restart too; a block that acknowledges an abandoned momentum is
// refused; the abandoned branch delivered again is refused unless it is longer; a known batch changes nothing (deliver's M6).
func (r *syncRun) directedReorg() {
	c, hist := r.c, r.hist
	trunk := hist.paths[0]
	L := len(trunk)
	for _, br := range []int{4, 5, 6, 9, 11} {
		if br >= len(hist.paths) {
			continue
		}
		path := hist.paths[br]
		fork := int(hist.forkAt[br])
		if fork < 2 || len(path) <= fork {
			continue
		}
		// the follower stands on the trunk `d` above the fork point such that the branch is longer by at least one
		d := imin(imin(L-fork, len(path)-fork-1), 1+c.R.Intn(4))
		if d < 1 {
			// the branch is not longer than any trunk position above the fork: it can only be refused
			d = 1
		}
		f := r.newFollower()
		ok := r.syncTo(f, 0, fork+d)
		poolLen := func() int {
			n := 0
			safely(func() {
				for _, b := range f.ch.GetAllUncommittedAccountBlocks() {
					if isTx(b) {
						n++
					}
				}
			})
			return n
		}
		if ok {
			// gossip: sends of the next trunk momentums (they acknowledge momentums the node holds when the producer made them early
			// enough), then sends of the branch's first momentums (they compete with the trunk's blocks of the same account or extend it)
			for h := fork + d + 1; h <= imin(L, fork+d+2); h++ {
				for _, b := range userSends(hist.dm(trunk[h-1])) {
					r.nrGossip(f, b)
				}
			}
			for h := fork + 1; h <= imin(len(path), fork+2); h++ {
				for _, b := range userSends(hist.dm(path[h-1])) {
					r.nrGossip(f, b)
				}
			}
			c.HitN("reorg-directed-pooled-before-switch", poolLen())
			before := f.hashes()
			ok = r.deliver(f, "reorg-directed-switch", r.seg(path, fork+1, len(path)))
			if ok && !isPrefix(before, f.hashes()) {
				c.Hit("reorg-directed-switched")
				if n := poolLen(); n != 0 && f.lastOK {
					// everything the branch confirmed is out of the pool, everything else was dropped by the rollback
					c.Fail("C06: follower %d switched from the trunk at height %d to branch %d (fork point %d): its pool of unconfirmed blocks holds %d blocks after the "+
						"reorganisation — RollbackTo drops the pool and the insert loop leaves nothing unconfirmed behind", f.id, len(before), br, fork, n)
					ok = false
				}
			}
		}
		if ok {
			// blocks of the abandoned trunk momentums, from a peer that is still there
			for h := fork + 1; h <= fork+d; h++ {
				for _, b := range userSends(hist.dm(trunk[h-1])) {
					ah := int(b.MomentumAcknowledged.Height)
					err := r.nrGossip(f, b)
					if ah > fork && ah <= L && trunk[ah-1] == b.MomentumAcknowledged.Hash && err == nil {
						c.Fail("C06: follower %d (switched to branch %d at fork point %d) accepts the gossiped block %s#%d that acknowledges the ABANDONED momentum at height %d",
							f.id, br, fork, addrName(b.Address), b.Height, ah)
						ok = false
					}
				}
			}
		}
		if ok {
			f.reopen()
			r.nr.onRestart(f)
			c.Hit("reorg-directed-restart")
			if n := poolLen(); n != 0 {
				c.Fail("C02: follower %d holds %d unconfirmed blocks right after a restart", f.id, n)
				ok = false
			}
		}
		if ok {
			cur := f.hashes()
			// the abandoned branch again: it is not longer than the chain the node has now
			ok = r.deliver(f, "reorg-directed-abandoned-again", r.seg(trunk, fork+1, fork+d))
			if ok && !sameHashes(cur, f.hashes()) {
				c.Fail("C16 class=abandoned-branch-readopted follower %d took back the branch it had abandoned although it is not longer (%d momentums above the fork point %d, the node's chain has %d)",
					f.id, d, fork, len(cur)-fork)
				ok = false
			}
		}
		if ok {
			// a known batch out of the middle of the adopted branch, then — if the trunk is longer — the way back
			lo := fork + 1
			ok = r.deliver(f, "reorg-directed-known", r.seg(path, lo, imin(len(path), lo+3)))
			if ok && L > len(path) && len(path)-fork <= 30 {
				ok = r.deliver(f, "reorg-directed-back", r.seg(trunk, fork+1, L))
				if ok && f.lastOK {
					c.Hit("reorg-directed-switched-back")
				}
			}
		}
		if ok {
			r.reverify(f)
		}
		f.stop()
	}
}
