package main

// sync-batches, "stale state across a reorganisation" (C06; shared with C02 / C16 through the stream): whatever a node remembers
// about the branch it was on — elections by tick number, statistics by tick, views by identifier — must not answer for the branch it
// adopts. A running node asks its consensus module and its ledger ALL THE TIME (consensus.work and GetMomentumProducer as soon as the
// clock enters a tick, the RPC's statistics cache, verifier and VM looking at the momentum a block acknowledges), so
//
//   - preQueries: BEFORE every test delivery the follower is asked what a running node asks: the producer of the first slot of the
//     frontier's tick and of the next two ticks (the election of a tick whose proof block already has a successor is final on this
//     branch — and belongs to this branch only), the statistics of the running and the previous epoch, the pillar weights, the
//     delegations, and the ledger as of the frontier and of the momentums right below it;
//   - postSwitch: AFTER every delivery that made the node leave its chain (model-free, on the node itself):
//     (a) for EVERY momentum of the abandoned branch: chain.GetMomentumStore(id) and ldbManager.Get(id) answer nil ("not on my chain":
//     the verifier's only test that an acknowledged momentum is on the chain is that answer);
//     (b) account blocks the producer's history confirmed ON the abandoned branch that acknowledge an abandoned momentum, gossiped to
//     the node (a peer that is still on the abandoned branch), are refused and are not in the pool of unconfirmed blocks afterwards;
//     (c) the consensus module answers like a consensus instance with an empty database that never listened to anything, on the
//     same chain: the producer of every slot from the tick of the fork point to two ticks past the frontier, the statistics of every
//     started epoch and of the next one, pillar weights, delegations by epoch.

import (
	"encoding/json"
	"fmt"
	"time"

	"github.com/zenon-network/go-zenon/chain/nom"
	"github.com/zenon-network/go-zenon/chain/store"
	"github.com/zenon-network/go-zenon/common/db"
	"github.com/zenon-network/go-zenon/common/types"
	"github.com/zenon-network/go-zenon/consensus"
	"github.com/zenon-network/go-zenon/vm/constants"
)

func tickSeconds() int64 {
	return constants.ConsensusConfig.BlockTime * int64(constants.ConsensusConfig.NodeCount)
}

// preQueries: what a running node asks between two deliveries. Answers are not judged here (the comparisons are postSwitch's and
// noTrace's); a panic is.
func (r *syncRun) preQueries(f *syncFollower) {
	c := r.c
	if p := safely(func() {
		gen := f.ch.GetGenesisMomentum().Timestamp.Unix()
		fr := f.frontier()
		ts := tickSeconds()
		tick := (fr.Timestamp.Unix() - gen) / ts
		for t := tick; t <= tick+2; t++ {
			f.cons.GetMomentumProducer(time.Unix(gen+t*ts, 0))
		}
		// one slot in the middle of the next tick, as a pillar that checks its own turn does
		f.cons.GetMomentumProducer(time.Unix(gen+(tick+1)*ts+constants.ConsensusConfig.BlockTime*int64(c.R.Intn(int(constants.ConsensusConfig.NodeCount))), 0))
		pr := f.cons.FrontierPillarReader()
		es := int64(consensus.EpochDuration / time.Second)
		epoch := (fr.Timestamp.Unix() - gen) / es
		if epoch > 0 {
			pr.EpochStats(uint64(epoch - 1))
		}
		pr.EpochStats(uint64(epoch))
		pr.GetPillarWeights()
		pr.GetPillarDelegationsByEpoch(uint64(epoch))
		// the ledger as of the frontier and of the momentums right below it (what every block made on them acknowledges)
		st := f.ch.GetFrontierMomentumStore()
		for back := uint64(0); back < 3 && back < fr.Height; back++ {
			if m, _ := st.GetMomentumByHeight(fr.Height - back); m != nil {
				if v := f.ch.GetMomentumStore(m.Identifier()); v != nil {
					v.Identifier()
				}
			}
		}
	}); p != "" {
		c.Fail("C06: follower %d: the questions a running node asks between deliveries (slot producers of the next ticks, epoch statistics, weights, recent views) panic: %s", f.id, firstLine(p))
		return
	}
	c.Hit("stale-pre-queries")
}

// postSwitch: see the file comment. Returns false when the follower must be retired.
func (r *syncRun) postSwitch(f *syncFollower, before, after []types.Hash, desc string) bool {
	c := r.c
	cp := commonPrefix(before, after)
	ok := true
	c.Hit("stale-post-switch")
	// (a) no view of an abandoned momentum
	for i := cp; i < len(before) && ok; i++ {
		id := types.HashHeight{Hash: before[i], Height: uint64(i + 1)}
		var st store.Momentum
		var raw db.DB
		if p := safely(func() {
			st = f.ch.GetMomentumStore(id)
			raw = f.mgr.Get(id)
		}); p != "" {
			c.Fail("C06: follower %d: asking for the ledger as of the abandoned momentum %d:%s panics: %s; %.300s", f.id, id.Height, h8e(id.Hash), firstLine(p), desc)
			ok = false
			break
		}
		if st != nil || raw != nil {
			c.Fail("C06: follower %d left its chain at height %d (was at %d:%s, now at %d:%s) and still serves the ledger as of the ABANDONED momentum %d:%s "+
				"(chain.GetMomentumStore non-nil=%v, ldbManager.Get non-nil=%v) — a node that only saw the adopted chain answers nil, and that answer is the verifier's only "+
				"test that an acknowledged momentum is on the chain; %.300s", f.id, cp, len(before), h8e(before[len(before)-1]), len(after), h8e(after[len(after)-1]),
				id.Height, h8e(id.Hash), st != nil, raw != nil, desc)
			ok = false
		}
		c.Hit("stale-abandoned-view-asked")
	}
	// (b) blocks of the abandoned branch that acknowledge an abandoned momentum, gossiped by a peer that is still there
	gossiped := 0
	for i := cp + 1; i < len(before) && gossiped < 4 && ok; i++ {
		n := r.hist.byHash[before[i]]
		if n == nil {
			continue
		}
		for _, bb := range n.blocks {
			b, err := nom.DeserializeAccountBlock(bb)
			if err != nil || !isUserBlock(b) {
				continue
			}
			ah := int(b.MomentumAcknowledged.Height)
			if ah <= cp || ah > len(before) || before[ah-1] != b.MomentumAcknowledged.Hash {
				continue
			}
			if f.ch.GetPatch(b.Address, b.Identifier()) != nil {
				// left over from a refused delivery (the pool side of known finding F9): not this monitor's question
				c.Hit("stale-gossip-block-already-pooled")
				continue
			}
			var gerr error
			if p := safely(func() { gerr = f.bridge.AddAccountBlocks([]*nom.AccountBlock{b}) }); p != "" {
				gerr = fmt.Errorf("panic: %s", firstLine(p))
			}
			pooled := f.ch.GetPatch(b.Address, b.Identifier()) != nil
			r.nr.onGossip(f, b, gerr)
			gossiped++
			c.Hit("stale-gossip-of-abandoned-block")
			if gerr == nil || pooled {
				c.Fail("C06: follower %d left its chain at height %d (was at %d:%s, now at %d:%s); the account block %s#%d:%s that the abandoned momentum %d:%s had confirmed and that "+
					"acknowledges the ABANDONED momentum %d:%s is gossiped to it: AddAccountBlocks returned %v, block in the pool of unconfirmed blocks: %v — a node that only saw the "+
					"adopted chain refuses it (the acknowledged momentum is not on its chain); %.300s", f.id, cp, len(before), h8e(before[len(before)-1]), len(after), h8e(after[len(after)-1]),
					addrName(b.Address), b.Height, h8e(b.Hash), i+1, h8e(before[i]), ah, h8e(b.MomentumAcknowledged.Hash), gerr, pooled, desc)
				ok = false
				break
			}
		}
	}
	// (c) the consensus module against an instance without history on the same chain
	if ok && !r.consNoTrace(f, cp, fmt.Sprintf("left its chain at height %d (was at %d:%s, now at %d:%s); %.300s", cp, len(before), h8e(before[len(before)-1]), len(after), h8e(after[len(after)-1]), desc)) {
		ok = false
	}
	return ok
}

// consNoTrace compares the follower's consensus module with a cold instance (empty database, never listened) on the same chain.
func (r *syncRun) consNoTrace(f *syncFollower, forkHeight int, what string) bool {
	c := r.c
	cold := consensus.NewConsensus(db.NewMemDB(), f.ch, true)
	js := func(v interface{}, err error) string {
		if err != nil {
			return "error: " + firstLine(err.Error())
		}
		b, _ := json.Marshal(v)
		return string(b)
	}
	res := true
	if p := safely(func() {
		gen := f.ch.GetGenesisMomentum().Timestamp.Unix()
		fr := f.frontier()
		ts := tickSeconds()
		bt := constants.ConsensusConfig.BlockTime
		forkTs := gen
		if m, _ := f.ch.GetFrontierMomentumStore().GetMomentumByHeight(uint64(imax(forkHeight, 1))); m != nil {
			forkTs = m.Timestamp.Unix()
		}
		fromTick := (forkTs - gen) / ts
		toTick := (fr.Timestamp.Unix()-gen)/ts + 2
		for t := gen + fromTick*ts; t < gen+(toTick+1)*ts; t += bt {
			a, ea := f.cons.GetMomentumProducer(time.Unix(t, 0))
			b, eb := cold.GetMomentumProducer(time.Unix(t, 0))
			sa, sb := "none", "none"
			if ea == nil && a != nil {
				sa = addrName(*a)
			}
			if eb == nil && b != nil {
				sb = addrName(*b)
			}
			if sa != sb {
				c.Fail("C06: follower %d: slot %d of tick %d (genesis+%ds): the node elects %s, a consensus instance without history on the same chain elects %s — the node %s",
					f.id, ((t-gen)%ts)/bt, (t-gen)/ts, t-gen, sa, sb, what)
				res = false
				return
			}
		}
		es := int64(consensus.EpochDuration / time.Second)
		ra, rb := f.cons.FrontierPillarReader(), cold.FrontierPillarReader()
		for e := uint64(0); e <= uint64((fr.Timestamp.Unix()-gen)/es)+1; e++ {
			if a, b := js(ra.EpochStats(e)), js(rb.EpochStats(e)); a != b {
				c.Fail("C06: follower %d: consensus statistics of epoch %d with the frontier at height %d: %.300s — a consensus instance without history on the same chain: %.300s — the node %s",
					f.id, e, fr.Height, a, b, what)
				res = false
				return
			}
			if a, b := js(ra.GetPillarDelegationsByEpoch(e)), js(rb.GetPillarDelegationsByEpoch(e)); a != b {
				c.Fail("C06: follower %d: pillar delegations of epoch %d: %.300s — a consensus instance without history on the same chain: %.300s — the node %s", f.id, e, a, b, what)
				res = false
				return
			}
		}
		if a, b := js(ra.GetPillarWeights()), js(rb.GetPillarWeights()); a != b {
			c.Fail("C06: follower %d: pillar weights: %.300s — a consensus instance without history on the same chain: %.300s — the node %s", f.id, a, b, what)
			res = false
			return
		}
	}); p != "" {
		c.Fail("C06: follower %d: consensus queries panic: %s — the node %s", f.id, firstLine(p), what)
		return false
	}
	if res {
		c.Hit("stale-consensus-compared-with-cold-instance")
	}
	return res
}
