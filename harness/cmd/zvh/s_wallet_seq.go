package main

import (
	"bytes"
	"encoding/json"
	"fmt"
	"os"
	"path/filepath"
	"strings"
	"unicode"

	"github.com/zenon-network/go-zenon/common/types"
	"github.com/zenon-network/go-zenon/wallet"
)

// ---------------------------------------------------------------------------------------------------
// wallet stream, part 6 and 7 (C19).
//
// Part 6 — password alphabets. "A key file decrypts with its password … and fails to decrypt with any other
// password" is quantified over ALL passwords: the password is a byte string, and two passwords are the same
// password only if they are the same byte string. For every created file its own password must open it, and
// every near miss (a password that differs only in leading / trailing / inner white space, case, Unicode
// normalisation form, a NUL, an invalid UTF-8 byte, a truncation) must be refused.
//
// Part 7 — operation sequences on ONE key-file object. Decrypting is a read-only operation: whatever was done
// before with the object (decrypted with the right or a wrong password, unlocked and locked through the
// Manager, written, read back, the returned entropy wiped by the caller), the object still holds the same
// bytes, the file it writes is the file it was read from, and its password still opens it to the entropy
// it was created from. The Lean model (kfStep / kfRun) replays every sequence and is compared line by line.
// ---------------------------------------------------------------------------------------------------

// white space a password may begin or end with (ASCII, Latin-1 and Unicode spaces, line and paragraph separators)
var pwSpaces = []string{" ", "\t", "\n", "\r", "\r\n", "\v", "\f", "\u0085", "\u00a0", "\u1680", "\u2002", "\u2003", "\u2009", "\u200a",
	"\u2028", "\u2029", "\u202f", "\u205f", "\u3000", "  ", " \t\n"}

// characters that are NOT white space for Go but are often dropped by "cleaning" code
var pwInvisible = []string{"\x00", "\ufeff", "\u200b", "\u200d", "\x7f", "\x1b"}

// canonically equivalent spellings (NFC, NFD / compatibility variant)
var pwNormPairs = [][2]string{{"\u00e9", "e\u0301"}, {"\u00e4", "a\u0308"}, {"\u00f6", "o\u0308"}, {"\u00c5", "A\u030a"}, {"\u00c5", "\u212b"},
	{"\u00f1", "n\u0303"}, {"\ufb01", "fi"}, {"\u03a9", "\u2126"}, {"\uac00", "\u1100\u1161"}}

var pwBases = []string{"", "a", "A", "pw", "hunter2", "Hunter2", "HUNTER2", "correct horse battery staple", "p\u00e4ssw\u00f6rd", "pa\u0308sswo\u0308rd",
	"caf\u00e9", "cafe\u0301", "\u5bc6\u7801\U0001f511", "stra\u00dfe", "STRASSE", "\u01c5x", "\u0130stanbul", "\xff\xfebin\x80", "nul\x00inside", "tab\tinside",
	"two  blanks", "line\nbreak", "0", "0x00", "null", "\\n", "%20", "\"quoted\""}

func pwOwnRandom(c *Ctx) string {
	switch c.R.Intn(10) {
	case 0: // white space only
		n := 1 + c.R.Intn(4)
		s := ""
		for i := 0; i < n; i++ {
			s += pwSpaces[c.R.Intn(len(pwSpaces))]
		}
		return s
	case 1: // very long
		return strings.Repeat(pwBases[1+c.R.Intn(len(pwBases)-1)]+" ", 1+c.R.Intn(400))
	case 2: // raw bytes
		b := make([]byte, 1+c.R.Intn(40))
		c.R.Read(b)
		return string(b)
	}
	s := pwBases[c.R.Intn(len(pwBases))]
	if c.R.Intn(3) != 0 {
		s = pwSpaces[c.R.Intn(len(pwSpaces))] + s
	}
	if c.R.Intn(3) != 0 {
		s += pwSpaces[c.R.Intn(len(pwSpaces))]
	}
	if c.R.Intn(8) == 0 {
		s += pwInvisible[c.R.Intn(len(pwInvisible))]
	}
	return s
}

func swapCaseFirst(s string) string {
	for i, r := range s {
		if unicode.IsLower(r) {
			return s[:i] + string(unicode.ToUpper(r)) + s[i+len(string(r)):]
		}
		if unicode.IsUpper(r) {
			return s[:i] + string(unicode.ToLower(r)) + s[i+len(string(r)):]
		}
	}
	return s
}

// pwNeighbours: passwords that a sloppy implementation might identify with pw. `trim` = the ones that differ from pw
// only in leading / trailing white space, `other` = the rest. None of them equals pw.
func pwNeighbours(c *Ctx, pw string) (trim, other []string) {
	seen := map[string]bool{pw: true}
	add := func(l *[]string, s string) {
		if !seen[s] {
			seen[s] = true
			*l = append(*l, s)
		}
	}
	isAsciiSp := func(r rune) bool { return r == ' ' || r == '\t' || r == '\n' || r == '\r' }
	add(&trim, strings.TrimSpace(pw))
	add(&trim, strings.TrimLeftFunc(pw, unicode.IsSpace))
	add(&trim, strings.TrimRightFunc(pw, unicode.IsSpace))
	add(&trim, strings.TrimFunc(pw, isAsciiSp))
	add(&trim, strings.TrimRight(pw, "\r\n"))
	add(&trim, strings.TrimSuffix(pw, "\n"))
	for _, sp := range pwSpaces {
		add(&trim, pw+sp)
		add(&trim, sp+pw)
	}
	add(&trim, " "+pw+" ")
	add(&trim, "\t"+pw+"\r\n")
	c.R.Shuffle(len(trim), func(i, j int) { trim[i], trim[j] = trim[j], trim[i] })
	// put the plain trimmed form and one extended form first: both directions of the confusion are tried on every file
	for i, s := range trim {
		if s == strings.TrimSpace(pw) {
			trim[0], trim[i] = trim[i], trim[0]
		}
	}
	for i := 1; i < len(trim); i++ {
		if strings.TrimSpace(trim[i]) == strings.TrimSpace(pw) && len(trim[i]) > len(pw) {
			trim[1], trim[i] = trim[i], trim[1]
			break
		}
	}
	add(&other, strings.ToUpper(pw))
	add(&other, strings.ToLower(pw))
	add(&other, strings.ToTitle(pw))
	add(&other, swapCaseFirst(pw))
	for _, p := range pwNormPairs {
		add(&other, strings.ReplaceAll(pw, p[0], p[1]))
		add(&other, strings.ReplaceAll(pw, p[1], p[0]))
	}
	add(&other, strings.Join(strings.Fields(pw), " "))
	add(&other, strings.Join(strings.Fields(pw), ""))
	add(&other, strings.ToValidUTF8(pw, "\ufffd"))
	add(&other, strings.ToValidUTF8(pw, ""))
	add(&other, string([]rune(pw)))
	for _, inv := range pwInvisible {
		add(&other, pw+inv)
		add(&other, inv+pw)
		add(&other, strings.ReplaceAll(pw, inv, ""))
	}
	if i := strings.IndexByte(pw, 0); i >= 0 {
		add(&other, pw[:i])
	}
	if len(pw) > 0 {
		add(&other, pw[:len(pw)-1])
		add(&other, pw[1:])
		add(&other, pw+pw)
	}
	for _, n := range []int{8, 32, 64, 72, 128, 255, 256, 1024} {
		if len(pw) > n {
			add(&other, pw[:n])
		}
	}
	add(&other, pw+"x")
	add(&other, "")
	c.R.Shuffle(len(other), func(i, j int) { other[i], other[j] = other[j], other[i] })
	return trim, other
}

// kfOrigin: what a key file was created from and the bytes it had on disk right after creation
type kfOrigin struct {
	entropy         []byte
	pw              string
	ct, nonce, salt []byte
	addr            types.Address
	raw             []byte // the file as first written
	seed            []byte
	mnemonic        string
}

// kfCreate: keyStoreFromEntropy -> Encrypt -> Write -> the fields as stored; emits the wl-encrypt line (model comparison
// of Encrypt with this password) and returns the in-memory object Encrypt returned.
func kfCreate(c *Ctx, path string, entropy []byte, pw string) (*wallet.KeyFile, *kfOrigin) {
	ks, err := wallet.KeyStoreFromEntropyVerif(append([]byte{}, entropy...))
	if err != nil {
		c.Fail("keyStoreFromEntropy(len %d) failed: %v", len(entropy), err)
		return nil, nil
	}
	kf, err := ks.Encrypt(pw)
	if err != nil {
		c.Fail("Encrypt failed: %v", err)
		return nil, nil
	}
	kf.Path = path
	if err := kf.Write(); err != nil {
		c.Fail("KeyFile.Write failed: %v", err)
		return nil, nil
	}
	raw, _ := os.ReadFile(path)
	var j kfJSON
	if err := json.Unmarshal(raw, &j); err != nil {
		c.Fail("key file is not JSON: %v", err)
		return nil, nil
	}
	ct, ok1 := un0x(j.Crypto.CipherData)
	nonce, ok2 := un0x(j.Crypto.Nonce)
	salt, ok3 := un0x(j.Crypto.Argon2Params.Salt)
	addr, aerr := types.ParseAddress(j.BaseAddress)
	if !ok1 || !ok2 || !ok3 || aerr != nil {
		c.Fail("key file fields are not 0x-hex / bech32: %s", raw)
		return nil, nil
	}
	dk := refKdf(pw, salt)
	sealed := refSeal(dk, nonce, entropy)
	c.Emit("wl-encrypt %s %s %s %s %s %s %s | baseAddress=%s cipherName=%s kdf=%s cipherData=%s nonce=%s salt=%s version=%d",
		hx(entropy), hx(ks.BaseAddress.Bytes()), hx([]byte(pw)), hx(salt), hx(nonce), hx(dk), hx(sealed),
		hx(addr.Bytes()), j.Crypto.CipherName, j.Crypto.KDF, j.Crypto.CipherData, j.Crypto.Nonce, j.Crypto.Argon2Params.Salt, j.Version)
	if !bytes.Equal(ct, sealed) {
		c.Fail("key file cipherData is not AES-256-GCM(argon2id(pw,salt), nonce, entropy, ad=zenon) (pw %q)", pw)
	}
	return kf, &kfOrigin{entropy: append([]byte{}, entropy...), pw: pw, ct: ct, nonce: nonce, salt: salt, addr: addr, raw: raw,
		seed: append([]byte{}, ks.Seed...), mnemonic: ks.Mnemonic}
}

// oracle tokens for one decryption attempt on the PRISTINE fields of the file (Go standard library only)
func (o *kfOrigin) oracle(pw string) (dk []byte, otok string) {
	dk = refKdf(pw, o.salt)
	pt, ok := refOpen(dk, o.nonce, o.ct)
	if ok {
		return dk, "some:" + hx(pt)
	}
	return dk, "none"
}

// kfTryDecrypt calls the real KeyFile.Decrypt; the entropy is returned as a private copy
func kfTryDecrypt(kf *wallet.KeyFile, pw string) (ks *wallet.KeyStore, kind string) {
	var err error
	panicked := safely(func() { ks, err = kf.Decrypt(pw) })
	if panicked != "" {
		return nil, "panic"
	}
	if err != nil {
		return nil, walletErrKind(err)
	}
	return ks, "ok"
}

func pwFamilyCase(c *Ctx, dir string, idx int, entropy []byte, pw string, nTrim, nOther int) {
	defer func() {
		if r := recover(); r != nil {
			c.Emit("wl-keyfile-panic %s | panic", hx(entropy))
			c.Fail("password family case panicked (entropy %x, pw %q): %v", entropy, pw, r)
		}
	}()
	path := filepath.Join(dir, fmt.Sprintf("pw-%d", idx))
	_, o := kfCreate(c, path, entropy, pw)
	if o == nil {
		return
	}
	defer os.Remove(path)
	attempt := func(tag, try string) {
		kf, err := wallet.ReadKeyFile(path)
		if err != nil {
			c.Fail("ReadKeyFile failed on a freshly written file: %v", err)
			return
		}
		dk, otok := o.oracle(try)
		ks, kind := kfTryDecrypt(kf, try)
		obs := "err " + kind
		if kind == "ok" {
			obs = "ok " + hx(ks.Entropy)
		}
		c.Emit("wl-decrypt %s %s %s %s %s %s | %s", hx(o.ct), hx(o.nonce), hx(o.salt), hx([]byte(try)), hx(dk), otok, obs)
		c.Hit("pwfam:" + tag + ":" + kind)
		if try == pw {
			if kind != "ok" || !bytes.Equal(ks.Entropy, entropy) {
				c.Fail("C19 password: the key file created with password %q (hex %x) for entropy %x does not decrypt with that password: %s", pw, pw, entropy, obs)
			}
		} else if kind == "ok" {
			c.Fail("C19 password: the key file created with password %q (hex %x) decrypts with the DIFFERENT password %q (hex %x) (%s, entropy %x)", pw, pw, try, try, tag, entropy)
		}
	}
	attempt("own", pw)
	trim, other := pwNeighbours(c, pw)
	for i := 0; i < nTrim && i < len(trim); i++ {
		attempt("space-near-miss", trim[i])
	}
	for i := 0; i < nOther && i < len(other); i++ {
		attempt("other-near-miss", other[i])
	}
}

// directed head of part 6: one of every shape on every seed
var pwDirected = []string{"hunter2", "trailing blank ", " leading blank", "", "   ", "line end\n", "\u00a0nbsp", "em space\u2003", "crlf\r\n", "\tboth\t",
	"caf\u00e9", "Hunter2", "\xff\xfebin\x80 "}

func walletPasswordFamily(c *Ctx, dir string) {
	n := c.N / 40
	if v, ok := c.Args["pwfiles"]; ok {
		fmt.Sscan(v, &n)
	}
	sizes := []int{16, 32, 24, 20, 28}
	for i := 0; i < n; i++ {
		e := make([]byte, sizes[i%len(sizes)])
		c.R.Read(e)
		pw := ""
		if i < len(pwDirected) {
			pw = pwDirected[i]
		} else {
			pw = pwOwnRandom(c)
		}
		pwFamilyCase(c, dir, i, e, pw, 2, 2)
	}
}

// ---- part 7: sequences ---------------------------------------------------------------------------------

func kfFieldsTok(kf *wallet.KeyFile) string {
	if kf == nil {
		return "nil nil nil"
	}
	return hx(kf.Crypto.CipherData) + " " + hx(kf.Crypto.AesNonce) + " " + hx(kf.Crypto.Argon2Params.Salt)
}

func kfSerial(kf *wallet.KeyFile) string {
	b, _ := json.Marshal(kf)
	return string(b)
}

type kfSeq struct {
	c      *Ctx
	o      *kfOrigin
	id     int
	trace  []string // the operations so far, for the failure message
	serial string   // serialised form of the object under test before the sequence
	wrong  []string // the wrong passwords of this sequence (a small set: the reference KDF is cached per password)
	state  string   // manager sequences: the state the manager was driven into before the current operation
}

func (s *kfSeq) fail(format string, a ...interface{}) {
	st := ""
	if s.state != "" {
		st = ", manager state before the last operation: " + s.state
	}
	s.c.Fail("C19 sequence %d [%s] (entropy %x, password %q%s): %s", s.id, strings.Join(s.trace, " "), s.o.entropy, s.o.pw, st, fmt.Sprintf(format, a...))
}

// checkObject: the object still is the key file it was
func (s *kfSeq) checkObject(kf *wallet.KeyFile) {
	if kf == nil {
		s.fail("the key file object is gone")
		return
	}
	if !bytes.Equal(kf.Crypto.CipherData, s.o.ct) || !bytes.Equal(kf.Crypto.AesNonce, s.o.nonce) || !bytes.Equal(kf.Crypto.Argon2Params.Salt, s.o.salt) {
		s.fail("a read-only operation changed the key file object: cipherData/nonce/salt were %x/%x/%x, are %x/%x/%x", s.o.ct, s.o.nonce, s.o.salt,
			[]byte(kf.Crypto.CipherData), []byte(kf.Crypto.AesNonce), []byte(kf.Crypto.Argon2Params.Salt))
	} else if got := kfSerial(kf); got != s.serial {
		s.fail("a read-only operation changed the serialised form of the key file object: was %s, is %s", s.serial, got)
	}
	if bytes.Contains(kf.Crypto.CipherData, s.o.entropy) {
		s.fail("the key file object holds the PLAINTEXT entropy in its cipherData field: %x", []byte(kf.Crypto.CipherData))
	}
}

func (s *kfSeq) checkOutcome(op, pw string, ent []byte, kind string) {
	if pw == s.o.pw {
		if kind != "ok" || !bytes.Equal(ent, s.o.entropy) {
			got := kind
			if kind == "ok" {
				got = fmt.Sprintf("entropy %x", ent)
			}
			s.fail("%s with the key file's own password: %s — a key file must decrypt with its password to the entropy it was created from, every time", op, got)
		}
	} else if kind == "ok" {
		s.fail("%s with the different password %q succeeded", op, pw)
	}
}

func (s *kfSeq) pickWrong() string {
	return s.wrong[s.c.R.Intn(len(s.wrong))]
}

// walletSequence runs `ops` (nil = random) on one key file object; mode "object" = the *KeyFile itself, held by the caller;
// mode "manager" = through wallet.Manager, which keeps one *KeyFile per path for its lifetime.
func walletSequence(c *Ctx, dir string, id int, entropy []byte, pw string, mode string, ops []string) {
	defer func() {
		if r := recover(); r != nil {
			c.Emit("wl-keyfile-panic %s | panic", hx(entropy))
			c.Fail("C19 sequence %d panicked (entropy %x): %v", id, entropy, r)
		}
	}()
	sub := filepath.Join(dir, fmt.Sprintf("seq-%d", id))
	if err := os.MkdirAll(sub, 0o700); err != nil {
		c.Fail("mkdir: %v", err)
		return
	}
	defer os.RemoveAll(sub)
	name := "keyfile.json"
	path := filepath.Join(sub, name)
	kfMem, o := kfCreate(c, path, entropy, pw)
	if o == nil {
		return
	}
	s := &kfSeq{c: c, o: o, id: id}
	trim, other := pwNeighbours(c, pw)
	s.wrong = []string{trim[0], other[0], "not the password"}
	if s.wrong[2] == pw {
		s.wrong = s.wrong[:2]
	}

	var kf *wallet.KeyFile // the object under test
	var m *wallet.Manager
	switch mode {
	case "manager":
		m = wallet.New(&wallet.Config{WalletDir: sub})
		if err := m.Start(); err != nil {
			c.Fail("Manager.Start: %v", err)
			return
		}
		defer safely(func() { m.Stop() })
		var err error
		if kf, err = m.GetKeyFile(name); err != nil {
			c.Fail("Manager.GetKeyFile on a freshly written file: %v", err)
			return
		}
	case "object-read":
		var err error
		if kf, err = wallet.ReadKeyFile(path); err != nil {
			c.Fail("ReadKeyFile failed on a freshly written file: %v", err)
			return
		}
	default: // the object Encrypt returned, never serialised
		kf = kfMem
	}
	s.serial = kfSerial(kf)
	c.Emit("wl-seq-new %s %s %s", hx(o.ct), hx(o.nonce), hx(o.salt))
	c.Hit("seq:" + mode)

	objOps := []string{"D+", "D+", "D-", "D-", "W", "S", "R"}
	mgrOps := []string{"U+", "U+", "U-", "L", "L", "G+", "G-", "S", "W"}
	n := len(ops)
	if ops == nil {
		n = 4 + c.R.Intn(5)
	}
	var lastKs *wallet.KeyStore // the last key store handed out to the caller (not the one the manager keeps)
	mgrState := "locked"        // coverage: locked / unlocked / unlocked-then-locked / restarted, "+wrong-attempt"
	for i := 0; i < n; i++ {
		var op string
		if ops != nil {
			op = ops[i]
		} else if mode == "manager" {
			op = mgrOps[c.R.Intn(len(mgrOps))]
		} else {
			op = objOps[c.R.Intn(len(objOps))]
		}
		if i == n-1 && ops == nil {
			// every random sequence ends with the question the property asks
			op = map[bool]string{true: "U+", false: "D+"}[mode == "manager"]
		}
		s.trace = append(s.trace, op)
		c.Hit("seq-op:" + op)
		switch op {
		case "D+", "D-", "D0", "G+", "G-", "G0", "U+", "U-", "U0":
			try := pw
			if op[1] == '-' {
				try = s.pickWrong()
			} else if op[1] == '0' {
				try = "" // the empty password (the right one only for a file created with it)
			}
			if m != nil {
				c.Hit("seq-state:" + mgrState + ":" + op)
				s.state = mgrState
			}
			dk, otok := o.oracle(try)
			var ent []byte
			kind := ""
			opName := ""
			switch op[0] {
			case 'D':
				opName = "KeyFile.Decrypt"
				var ks *wallet.KeyStore
				ks, kind = kfTryDecrypt(kf, try)
				if kind == "ok" {
					ent = append([]byte{}, ks.Entropy...)
					lastKs = ks
					if ks.BaseAddress != o.addr || ks.Mnemonic != o.mnemonic || !bytes.Equal(ks.Seed, o.seed) {
						s.fail("the decrypted key store differs from the one the file was made from")
					}
				}
			case 'G':
				opName = "Manager.GetKeyFileAndDecrypt"
				var ks *wallet.KeyStore
				var err error
				if p := safely(func() { ks, err = m.GetKeyFileAndDecrypt(name, try) }); p != "" {
					kind = "panic"
				} else if err != nil {
					kind = walletErrKind(err)
				} else {
					kind = "ok"
					ent = append([]byte{}, ks.Entropy...)
					lastKs = ks
				}
			case 'U':
				opName = "Manager.Unlock"
				var err error
				if p := safely(func() { err = m.Unlock(name, try) }); p != "" {
					kind = "panic"
				} else if err != nil {
					kind = walletErrKind(err)
				} else {
					kind = "ok"
					ks, gerr := m.GetKeyStore(name)
					if gerr != nil || ks == nil {
						s.fail("Manager.GetKeyStore after a successful Unlock: %v", gerr)
					} else {
						ent = append([]byte{}, ks.Entropy...)
						if ks.BaseAddress != o.addr {
							s.fail("the unlocked key store has base address %v, the key file says %v", ks.BaseAddress, o.addr)
						}
					}
				}
			}
			obs := "err " + kind
			if kind == "ok" {
				obs = "ok " + hx(ent)
			}
			if m != nil {
				kf, _ = m.GetKeyFile(name)
			}
			c.Emit("wl-seq-op %c %s %s %s | %s %s", op[0], hx([]byte(try)), hx(dk), otok, obs, kfFieldsTok(kf))
			s.checkOutcome(opName, try, ent, kind)
			if m != nil {
				// the state of the manager as the harness drove it (coverage only)
				switch {
				case op[0] == 'U' && try == pw:
					mgrState = "unlocked"
				case try != pw && !strings.HasSuffix(mgrState, "+wrong-attempt"):
					mgrState += "+wrong-attempt"
				}
			}
		case "L":
			safely(func() { m.Lock(name) })
			kf, _ = m.GetKeyFile(name)
			c.Emit("wl-seq-op L | %s", kfFieldsTok(kf))
			if strings.HasPrefix(mgrState, "unlocked") {
				mgrState = "unlocked-then-locked"
			}
		case "X":
			// the node restarts: a new Manager over the same directory (everything is locked again)
			safely(func() { m.Stop() })
			m = wallet.New(&wallet.Config{WalletDir: sub})
			if err := m.Start(); err != nil {
				s.fail("Manager.Start after a restart: %v", err)
				return
			}
			var gerr error
			if kf, gerr = m.GetKeyFile(name); gerr != nil {
				s.fail("Manager.GetKeyFile after a restart: %v", gerr)
				return
			}
			c.Emit("wl-seq-op L | %s", kfFieldsTok(kf))
			mgrState = "restarted"
		case "S":
			// the caller wipes the secret it was handed (good practice); this must not reach into the key file
			if lastKs != nil {
				for k := range lastKs.Entropy {
					lastKs.Entropy[k] = 0
				}
				for k := range lastKs.Seed {
					lastKs.Seed[k] = 0
				}
				lastKs = nil
			}
			c.Emit("wl-seq-op S | %s", kfFieldsTok(kf))
		case "W", "R":
			// the object writes itself; the file must be the file it came from and must read back to the same fields.
			// "R": the sequence continues on the object read back (not for the manager, which keeps its own object).
			if err := kf.Write(); err != nil {
				s.fail("KeyFile.Write: %v", err)
				break
			}
			now, _ := os.ReadFile(path)
			if !bytes.Equal(now, o.raw) {
				s.fail("KeyFile.Write after read-only operations stores a different file: first written %s, now %s", o.raw, now)
			}
			if bytes.Contains(bytes.ToLower(now), []byte(fmt.Sprintf("%x", o.entropy))) {
				s.fail("the written key file contains the PLAINTEXT entropy: %s", now)
			}
			kf2, err := wallet.ReadKeyFile(path)
			obs := "err json"
			if err == nil {
				obs = "ok " + kfFieldsTok(kf2)
			}
			c.Emit("wl-seq-op W | %s", obs)
			if err != nil {
				s.fail("ReadKeyFile of the file the object wrote: %v", err)
			} else if op == "R" && m == nil {
				kf = kf2
				s.serial = kfSerial(kf)
			}
			// restore the pristine file for the rest of the sequence (the monitor above has reported any difference)
			os.WriteFile(path, o.raw, 0o700)
		}
		s.checkObject(kf)
	}
}

// seqStateMatrix: ONE manager, EVERY password-taking entry point (Manager.GetKeyFileAndDecrypt, KeyFile.Decrypt on the
// manager's object, Manager.Unlock) with a wrong, the empty and the right password in EVERY state of the manager:
// never unlocked, unlocked, unlocked then locked, locked / unlocked after a wrong attempt, unlocked twice, unlocked with a
// handed-out key store wiped by the caller, locked and unlocked again, after a restart of the manager. In each state the
// refusals are asked for first (they must not depend on the state, and must not change it), the right password last.
func seqStateMatrix() []string {
	probes := []string{"G-", "D-", "U-", "G0", "D0", "U0", "G+", "D+", "U+"}
	var ops []string
	for _, transition := range [][]string{
		{},           // never unlocked
		{},           // unlocked (by the U+ that ended the block before)
		{"L"},        // unlocked, then locked
		{"L", "U-"},  // locked, after a wrong attempt
		{"U-"},       // unlocked, after a wrong attempt
		{"L", "G-"},  // locked, after a wrong GetKeyFileAndDecrypt
		{"U+"},       // unlocked twice
		{"G+", "S"},  // unlocked; the caller wiped the key store it was handed
		{"L", "U+"},  // locked and unlocked again
		{"X"},        // manager restarted
		{"X", "U+", "X"}, // restarted while unlocked
	} {
		ops = append(ops, transition...)
		ops = append(ops, probes...)
	}
	return ops
}

var seqDirected = []struct {
	mode string
	ops  []string
}{
	{"manager", seqStateMatrix()},
	{"manager", []string{"U+", "G-", "G0", "G+", "S", "G+", "U+", "L", "G-", "G+"}},
	{"manager", []string{"U+", "L", "U+"}},
	{"object", []string{"D-", "D+"}},
	{"object", []string{"D+", "W", "D+"}},
	{"object-read", []string{"D+", "D+"}},
	{"manager", []string{"U-", "U+", "G+"}},
	{"object-read", []string{"D+", "S", "D+"}},
}

func walletSequences(c *Ctx, dir string) {
	n := c.N/50 + 2 // the two manager state sequences at the head of seqDirected come on top
	if v, ok := c.Args["sequences"]; ok {
		fmt.Sscan(v, &n)
	}
	sizes := []int{32, 16, 24, 20, 28}
	modes := []string{"object", "manager", "object-read"}
	for i := 0; i < n; i++ {
		e := make([]byte, sizes[i%len(sizes)])
		c.R.Read(e)
		pw := passwords[c.R.Intn(len(passwords))]
		if c.R.Intn(3) == 0 {
			pw = pwOwnRandom(c)
		}
		if i < len(seqDirected) {
			walletSequence(c, dir, i, e, pw, seqDirected[i].mode, seqDirected[i].ops)
		} else {
			walletSequence(c, dir, i, e, pw, modes[c.R.Intn(len(modes))], nil)
		}
	}
}
