package main

import (
	"fmt"
	"sort"
	"sync"

	"github.com/inconshreveable/log15"
	"github.com/zenon-network/go-zenon/chain"
	"github.com/zenon-network/go-zenon/chain/nom"
	"github.com/zenon-network/go-zenon/common"
	"github.com/zenon-network/go-zenon/common/db"
	"github.com/zenon-network/go-zenon/common/types"
)

// C14 stream `pool-batch` (monitors only, no model): the two situations the one-address / one-block state machine does
// not cover — contract receives carrying descendant blocks, and several addresses rebuilt by one momentum.
//
//	batch  <k> <confirm>  | <pooled before> <pooled after>    a receive with k descendant sends is pooled, a momentum
//	                                                          confirming <confirm> of its blocks (0 or all) arrives
//	multi  <n> <forked>   | <addresses whose pool no longer extends the confirmed chain>
//	                                                          n addresses with 2 pooled blocks each; the momentum confirms a
//	                                                          competitor of the first pooled block for <forked> of them and
//	                                                          the pooled first block for the others

type multiStable struct {
	poolStable
}

func setConfirmed(st *poolStable, addr types.Address, blocks ...*nom.AccountBlock) {
	cur := st.GetStableAccountDB(addr)
	for _, b := range blocks {
		next := cur.Snapshot()
		data, err := b.Serialize()
		common.DealWithErr(err)
		common.DealWithErr(db.SetFrontier(next, b.Identifier(), data))
		cur = next
	}
	st.dbs[addr] = cur
}

func stableIdOf(st *poolStable, addr types.Address) types.HashHeight {
	return db.GetFrontierIdentifier(st.GetStableAccountDB(addr))
}

// number of uncommitted blocks, and whether they form a chain on top of the stable identifier
func poolChainOK(p chain.AccountPool, st *poolStable, addr types.Address) (int, bool) {
	unc := p.GetUncommittedAccountBlocksByAddress(addr)
	prev := stableIdOf(st, addr)
	for _, b := range unc {
		if b == nil {
			return len(unc), false
		}
		// a descendant block's own previous is (PreviousHash, Height-1); the receive carrying descendants links through them
		own := types.HashHeight{Hash: b.PreviousHash, Height: b.Height - 1}
		if own != prev {
			return len(unc), false
		}
		prev = b.Identifier()
	}
	// the frontier store must show the confirmed block at the confirmed height
	if sid := stableIdOf(st, addr); sid.Height > 0 {
		got, err := p.GetFrontierAccountStore(addr).ByHeight(sid.Height)
		if err != nil || got == nil || got.Hash != sid.Hash {
			return len(unc), false
		}
	}
	return len(unc), true
}

func init() {
	register("pool-batch", func(c *Ctx) {
		log15.Root().SetHandler(log15.DiscardHandler())
		var lock sync.Mutex
		for q := 0; q < c.N; q++ {
			// ---- a contract receive with descendant blocks across a momentum
			{
				st := &poolStable{dbs: map[types.Address]db.DB{}}
				p := chain.NewAccountPool(st)
				addr := idxAddress(8, 1)
				k := c.R.Intn(4) // descendants; 0 = plain receive (control)
				base := uint64(1)
				prev := types.ZeroHash
				if c.R.Intn(2) == 0 { // some confirmed history first
					g := &nom.AccountBlock{Address: addr, Height: 1, Hash: h4(c), BlockType: nom.BlockTypeContractReceive}
					setConfirmed(st, addr, g)
					base, prev = 2, g.Hash
				}
				desc := make([]*nom.AccountBlock, k)
				for i := range desc {
					desc[i] = &nom.AccountBlock{Address: addr, Height: base + uint64(i), PreviousHash: prev, Hash: h4(c), BlockType: nom.BlockTypeContractSend}
					prev = desc[i].Hash
				}
				recv := &nom.AccountBlock{Address: addr, Height: base + uint64(k), PreviousHash: prev, Hash: h4(c),
					BlockType: nom.BlockTypeContractReceive, DescendantBlocks: desc}
				res := guard(func() string {
					return poolErr(p.AddAccountBlockTransaction(&lock, &nom.AccountBlockTransaction{Block: recv, Changes: db.NewPatch()}))
				})
				before, okBefore := poolChainOK(p, st, addr)
				confirmAll := c.R.Intn(3) == 0
				if confirmAll {
					setConfirmed(st, addr, append(append([]*nom.AccountBlock{}, desc...), recv)...)
				}
				ins := guard(func() string {
					p.(poolMomentumListener).InsertMomentum(&nom.DetailedMomentum{Momentum: &nom.Momentum{}})
					return "ok"
				})
				after, okAfter := poolChainOK(p, st, addr)
				conf := 0
				if confirmAll {
					conf = k + 1
				}
				c.Emit("batch %d %d | %s %d %d", k, conf, res, before, after)
				c.Hit(fmt.Sprintf("batch-k%d-confirm%v", k, confirmAll))
				want := k + 1 - conf
				if res != "ok" || before != k+1 || !okBefore || ins != "ok" {
					c.Fail("pool batch: adding a receive with %d descendants: result %s, %d pooled, chain ok %v, insert %s", k, res, before, okBefore, ins)
				} else if after != want || !okAfter {
					c.Fail("pool batch: a pooled contract receive with %d descendant blocks does not survive a momentum that confirms none of them: pool holds %d blocks after InsertMomentum, the previously pooled unconfirmed blocks that still link are %d",
						k, after, want)
				}
			}
			// ---- the momentum content offered when the pool is about as full as a momentum (s_poolcontent.go)
			poolContentScenario(c, &lock)
			poolBatchDisplaced(c, &lock)
			// ---- several addresses, some forked by the momentum
			{
				st := &poolStable{dbs: map[types.Address]db.DB{}}
				p := chain.NewAccountPool(st)
				n := 2 + c.R.Intn(5)
				forked := c.R.Intn(n + 1)
				type acct struct {
					addr   types.Address
					p1, p2 *nom.AccountBlock
				}
				accts := make([]acct, n)
				for i := range accts {
					a := idxAddress(9, i)
					p1 := &nom.AccountBlock{Address: a, Height: 1, Hash: h4(c), BlockType: nom.BlockTypeUserSend, TotalPlasma: 21000, BasePlasma: 21000}
					p2 := &nom.AccountBlock{Address: a, Height: 2, PreviousHash: p1.Hash, Hash: h4(c), BlockType: nom.BlockTypeUserSend, TotalPlasma: 21000, BasePlasma: 21000}
					accts[i] = acct{a, p1, p2}
					for _, b := range []*nom.AccountBlock{p1, p2} {
						if r := poolErr(p.AddAccountBlockTransaction(&lock, &nom.AccountBlockTransaction{Block: b, Changes: db.NewPatch()})); r != "ok" {
							c.Fail("pool multi: setup add failed: %s", r)
						}
					}
				}
				for i, a := range accts {
					if i < forked { // the momentum confirms a competitor of the pooled first block
						setConfirmed(st, a.addr, &nom.AccountBlock{Address: a.addr, Height: 1, Hash: h4(c), BlockType: nom.BlockTypeUserSend})
					} else { // the momentum confirms the pooled first block
						setConfirmed(st, a.addr, a.p1)
					}
				}
				guard(func() string {
					p.(poolMomentumListener).InsertMomentum(&nom.DetailedMomentum{Momentum: &nom.Momentum{}})
					return "ok"
				})
				bad := []int{}
				for i, a := range accts {
					if _, ok := poolChainOK(p, st, a.addr); !ok {
						bad = append(bad, i)
					}
				}
				sort.Ints(bad)
				c.Emit("multi %d %d | %d", n, forked, len(bad))
				c.Hit(fmt.Sprintf("multi-forked-%d", minInt(forked, 3)))
				if len(bad) > 0 {
					c.Fail("pool multi: after a momentum that confirms competing blocks for %d of %d addresses, %d addresses hold uncommitted blocks that do not extend their confirmed block (rebuild stopped at the first address that failed to re-apply)",
						forked, n, len(bad))
				}
			}
		}
	})
}
