package main

// Stream `rewards-reorg` (C11: "the credited amounts are a function of the chain alone, so every node computes the same ones"), the
// part that needs a REORGANISATION: the pillar contract's Update computes the rewards of epoch N from the node's consensus
// statistics of that epoch (momentums produced / expected per pillar, weights), and those statistics are kept per epoch number by
// the consensus module. A node that followed a branch A past the end of epoch N and then adopts a branch B that forks inside epoch N
// must compute the rewards of epoch N from B's statistics, like a node that only ever saw B.
//
// One scenario (model-free, three real nodes; epochs of ten minutes = two election ticks, RewardTimeLimit and UpdateMinNumMomentums of
// a few momentums — the real code's package variables, as its own tests set them):
//   - the mock producer (real pillars: they produce, auto-receive and send the contracts' Update calls on their own) builds a trunk
//     to a fork point inside epoch 0 and goes on, as branch B, past the end of epoch 0 until the pillar contract has credited epoch 0
//     (the cursor LastEpochUpdate passed it); B leaves sB slots empty inside epoch 0. The producer has seen nothing but B then.
//   - rolled back to the fork point, it builds branch A: other traffic, sA slots left empty inside epoch 0 (sA ≠ sB in three
//     scenarios out of four: the produced / expected counts of epoch 0 differ between the branches), up to 0-3 momentums into epoch 1
//     (one scenario in four: A stops right before the epoch end — nothing of epoch 0 is final on A).
//   - follower F1 receives trunk + A through the real InsertChain, is asked (or not) for the statistics of epoch 0 and 1 and the
//     pillar weights, and is then delivered B (one batch, or a first batch that just outgrows A and the rest in pieces);
//     follower F2 receives trunk + B only.
// Monitors: F1 adopts every momentum of B (a momentum whose Update receive the node computes differently is refused: the failure
// text then carries the epoch statistics of both nodes and — computed on F1 itself with the real GenerateAutoReceive — the amounts F1
// would credit next to the amounts the chain credits); afterwards the reward deposits and every reward-history entry of the
// pillar, stake, sentinel and liquidity contracts are equal on F1, F2 and the producer.

import (
	"fmt"
	"sort"
	"strings"
	"time"

	"github.com/zenon-network/go-zenon/chain/nom"
	"github.com/zenon-network/go-zenon/common/db"
	"github.com/zenon-network/go-zenon/common/types"
	"github.com/zenon-network/go-zenon/consensus"
	"github.com/zenon-network/go-zenon/vm/constants"
	"github.com/zenon-network/go-zenon/vm/embedded/definition"
)

func init() {
	register("rewards-reorg", func(c *Ctx) {
		for i := 0; i < c.N; i++ {
			rewardsReorgScenario(c, i)
		}
	})
}

func rrCursor(storage db.DB) int64 {
	cur := int64(-2)
	safely(func() {
		if le, err := definition.GetLastEpochUpdate(storage); err == nil && le != nil {
			cur = le.LastEpoch
		}
	})
	return cur
}

// rrCredits renders the reward-history entries of one epoch and the deposits, sorted (what C11 talks about).
func rrCredits(st *rnState, epoch uint64) string {
	var ss []string
	for k, v := range st.hist {
		if k.epoch == epoch {
			ss = append(ss, fmt.Sprintf("%s:%s/%s", addrName(k.addr), v.znn, v.qsr))
		}
	}
	sort.Strings(ss)
	return "[" + strings.Join(ss, " ") + "]"
}

func rrStateStr(st *rnState) string {
	var ss []string
	for k, v := range st.hist {
		ss = append(ss, fmt.Sprintf("e%d:%s:%s/%s", k.epoch, addrName(k.addr), v.znn, v.qsr))
	}
	for a, v := range st.dep {
		ss = append(ss, fmt.Sprintf("dep:%s:%s/%s", addrName(a), v.znn, v.qsr))
	}
	sort.Strings(ss)
	return fmt.Sprintf("cursor=%d %s", st.cursor, strings.Join(ss, " "))
}

func rrStats(cs consensus.Consensus, e uint64) string {
	var out string
	if p := safely(func() {
		s, err := cs.FrontierPillarReader().EpochStats(e)
		if err != nil {
			out = "error: " + firstLine(err.Error())
			return
		}
		if s == nil {
			out = "none"
			return
		}
		var ss []string
		for name, p := range s.Pillars {
			ss = append(ss, fmt.Sprintf("%s:%d/%d:w%s", name, p.BlockNum, p.ExceptedBlockNum, p.Weight))
		}
		sort.Strings(ss)
		out = strings.Join(ss, " ")
	}); p != "" {
		out = "panic: " + firstLine(p)
	}
	return out
}

func rewardsReorgScenario(c *Ctx, id int) {
	origEpoch := consensus.EpochDuration
	consensus.EpochDuration = 10 * time.Minute
	defer func() { consensus.EpochDuration = origEpoch }()
	gl := rnSaveGlobals()
	defer gl.restore()
	constants.RewardTimeLimit = int64(20 + 10*c.R.Intn(5))
	constants.UpdateMinNumMomentums = uint64(4 + c.R.Intn(6))
	es := int64(consensus.EpochDuration / time.Second)

	a := newProducer()
	defer a.stop()
	h := &history{byHash: map[types.Hash]*histNode{}, blk: map[types.Hash][]byte{}}
	gen := a.bridge.GetBlock(a.z.Chain().GetGenesisMomentum().Hash)
	h.record(gen)
	genTs := gen.Momentum.Timestamp.Unix()
	pillarStorage := func() db.DB {
		return a.z.Chain().GetFrontierMomentumStore().GetAccountStore(types.PillarContract).Storage()
	}

	// slots left empty inside epoch 0: B and A differ in three scenarios out of four
	sB := id % 3
	sA := (sB + 1 + c.R.Intn(2)) % 3
	if id%4 == 2 {
		sA = sB
		c.Hit("rr-control-same-gaps")
	}
	aStopsBeforeEpochEnd := id%4 == 3
	fp := 36 + c.R.Intn(20) // fork point: height 36..55 (epoch 0 = heights 1..60 on a dense chain)
	var pending []*nom.AccountBlock
	var failed string
	if p := safely(func() {
		var trunk []types.Hash
		for a.frontier().Height < uint64(fp) {
			traffic(c, a, &pending, 40, 30)
			contractTraffic(c, a, 40)
			trunk = append(trunk, h.record(a.momentum()).hash)
		}
		fpm := a.frontier()
		// ---- branch B: until the pillar contract credited epoch 0 (and two momentums more)
		var B []types.Hash
		pending = nil
		extra := 2
		for i := 0; i < 90 && extra > 0; i++ {
			traffic(c, a, &pending, 35, 25)
			contractTraffic(c, a, 35)
			var dm *nom.DetailedMomentum
			if i == 1 && sB > 0 {
				dm = a.momentumSkipping(int64(1 + sB))
			} else {
				dm = a.momentum()
			}
			B = append(B, h.record(dm).hash)
			if rrCursor(pillarStorage()) >= 0 {
				extra--
			}
		}
		if rrCursor(pillarStorage()) < 0 {
			failed = "the pillar contract never credited epoch 0 on branch B"
			return
		}
		bState, err := rnReadState(pillarStorage())
		if err != nil {
			failed = "cannot read the producer's pillar contract: " + err.Error()
			return
		}
		bAll := map[types.Address]string{}
		for _, ca := range rnContracts {
			if st, err := rnReadState(a.z.Chain().GetFrontierMomentumStore().GetAccountStore(ca).Storage()); err == nil {
				bAll[ca] = rrStateStr(st)
			}
		}
		c.HitN("rr-branch-b-momentums", len(B))
		// ---- branch A
		if err := a.rollbackTo(fpm.Identifier()); err != nil {
			failed = "producer rollback: " + err.Error()
			return
		}
		var A []types.Hash
		pending = nil
		into := c.R.Intn(4) // momentums of epoch 1 on A
		for i := 0; i < 30 && len(A) < len(B)-1; i++ {
			if i == 0 {
				for try := 0; try < 10; try++ {
					if b, err := a.send(c.R.Intn(3), 3+c.R.Intn(2), int64(100000+c.R.Intn(100000))); err == nil && b != nil {
						break
					}
				}
			} else {
				traffic(c, a, &pending, 35, 25)
				contractTraffic(c, a, 35)
			}
			// the next slot on a dense continuation
			nextTs := a.frontier().Timestamp.Unix() + constants.ConsensusConfig.BlockTime
			if i == 1 && sA > 0 {
				nextTs += constants.ConsensusConfig.BlockTime * int64(sA)
			}
			if aStopsBeforeEpochEnd && nextTs >= genTs+es {
				break
			}
			if nextTs >= genTs+es+constants.ConsensusConfig.BlockTime*int64(into+1) {
				break
			}
			var dm *nom.DetailedMomentum
			if i == 1 && sA > 0 {
				dm = a.momentumSkipping(int64(1 + sA))
			} else {
				dm = a.momentum()
			}
			A = append(A, h.record(dm).hash)
		}
		if len(A) == 0 || A[0] == B[0] {
			failed = "branch A does not differ from B"
			return
		}
		aTip := h.byHash[A[len(A)-1]]
		aTipTs := h.dm(aTip.hash).Momentum.Timestamp.Unix()
		if aTipTs >= genTs+es {
			c.Hit("rr-a-past-epoch-end")
		} else {
			c.Hit("rr-a-stops-before-epoch-end")
		}
		c.HitN("rr-branch-a-momentums", len(A))

		segOf := func(hs []types.Hash) []*nom.DetailedMomentum {
			out := make([]*nom.DetailedMomentum, len(hs))
			for i, x := range hs {
				out[i] = h.dm(x)
			}
			return wire(out)
		}
		// ---- F1: trunk + A, questions, then B
		f1 := newFollower()
		defer f1.stop()
		f2 := newFollower()
		defer f2.stop()
		if _, err, pn := f1.insertChain(segOf(trunk)); err != nil || pn != nil {
			failed = fmt.Sprintf("F1 refuses the trunk: %v %v", err, pn)
			return
		}
		if _, err, pn := f1.insertChain(segOf(A)); err != nil || pn != nil {
			failed = fmt.Sprintf("F1 refuses branch A: %v %v", err, pn)
			return
		}
		asked := c.R.Intn(3) != 0
		if asked {
			rrStats(f1.cons, 0)
			rrStats(f1.cons, 1)
			safely(func() { f1.cons.FrontierPillarReader().GetPillarWeights() })
			c.Hit("rr-asked-on-a")
		}
		if _, err, pn := f2.insertChain(segOf(trunk)); err != nil || pn != nil {
			failed = fmt.Sprintf("F2 refuses the trunk: %v %v", err, pn)
			return
		}
		if idx, err, pn := f2.insertChain(segOf(B)); err != nil || pn != nil {
			c.Fail("C11 rewards-reorg run=%d: a node that only saw the producer's chain refuses its momentum %d: %v %v", id, fp+1+idx, err, pn)
			return
		}
		what := fmt.Sprintf("fork point %d, branch A %d momentums (%d slots left empty in epoch 0, tip at genesis+%ds, epoch 0 ends at +%ds, statistics asked on A: %v), branch B %d momentums (%d slots left empty in epoch 0), RewardTimeLimit=%ds UpdateMinNumMomentums=%d",
			fp, len(A), sA, aTipTs-genTs, es, asked, len(B), sB, constants.RewardTimeLimit, constants.UpdateMinNumMomentums)
		// B: one batch, or a first batch that just outgrows A and the rest in pieces
		pos := 0
		first := len(B)
		if c.R.Intn(2) == 0 {
			first = imin(len(B), len(A)+1+c.R.Intn(3))
		}
		for pos < len(B) {
			k := first
			if pos > 0 {
				k = imin(len(B)-pos, 1+c.R.Intn(12))
			}
			batch := segOf(B[pos : pos+k])
			idx, err, pn := f1.insertChain(batch)
			if err != nil || pn != nil {
				rrRefused(c, id, h, f1, f2, batch, idx, err, pn, bState, what)
				return
			}
			pos += k
		}
		if f1.frontier().Hash != f2.frontier().Hash {
			c.Fail("C11 rewards-reorg run=%d: F1 is at %d:%s after the delivery of B, F2 at %d:%s; %s", id, f1.frontier().Height, h8e(f1.frontier().Hash), f2.frontier().Height, h8e(f2.frontier().Hash), what)
			return
		}
		c.Hit("rr-switched-across-epoch-end")
		// ---- credited amounts on the three nodes
		for _, ca := range rnContracts {
			s1, e1 := rnReadState(f1.ch.GetFrontierMomentumStore().GetAccountStore(ca).Storage())
			s2, e2 := rnReadState(f2.ch.GetFrontierMomentumStore().GetAccountStore(ca).Storage())
			if e1 != nil || e2 != nil {
				c.Fail("C11 rewards-reorg run=%d: cannot read the %s contract of the followers: %v %v", id, rnCName(ca), e1, e2)
				return
			}
			x, y := rrStateStr(s1), rrStateStr(s2)
			if x != y || x != bAll[ca] {
				c.Fail("C11 rewards-reorg run=%d: reward deposits / history of the %s contract after the same chain: node that reorganised from A to B: %.400s — node that only saw B: %.400s — producer: %.400s; %s",
					id, rnCName(ca), x, y, bAll[ca], what)
				return
			}
			c.HitN("rr-reward-entries-compared", len(s1.hist)+len(s1.dep))
		}
		// and the statistics themselves (what the next Update will read)
		for e := uint64(0); e < 2; e++ {
			if x, y := rrStats(f1.cons, e), rrStats(f2.cons, e); x != y {
				c.Fail("C11 rewards-reorg run=%d: the statistics of epoch %d the pillar contract's Update reads (produced/expected:weight per pillar): node that reorganised from A to B: %.300s — node that only saw B: %.300s; %s",
					id, e, x, y, what)
				return
			}
		}
		c.Hit("rr-scenario")
	}); p != "" {
		failed = "panic: " + firstLine(p)
	}
	if failed != "" {
		c.Fail("rewards-reorg run=%d: scenario could not be built: %s", id, failed)
	}
}

// rrRefused: F1 refused a momentum of the honest chain B. The failure text carries what F1 computes for itself.
func rrRefused(c *Ctx, id int, h *history, f1, f2 *follower, batch []*nom.DetailedMomentum, idx int, err error, pn interface{}, bState *rnState, what string) {
	if pn != nil || idx < 0 || idx >= len(batch) {
		c.Fail("C11 rewards-reorg run=%d: the node that reorganised from A to B fails on the producer's chain: index=%d err=%v panic=%v; %s", id, idx, err, pn, what)
		return
	}
	m := batch[idx]
	// the Update receive of the pillar contract in the refused momentum, if that is what it carries
	own := ""
	for _, b := range m.AccountBlocks {
		if b.Address != types.PillarContract || b.BlockType != nom.BlockTypeContractReceive {
			continue
		}
		send, _ := f2.ch.GetFrontierMomentumStore().GetAccountBlockByHash(b.FromBlockHash)
		if send == nil {
			continue
		}
		if meth, e := definition.ABIPillars.MethodById(send.Data); e != nil || meth.Name != definition.UpdateMethodName {
			continue
		}
		// what F1 computes for the same send, with the real producer path, on the state it holds (the momentum before)
		if p := safely(func() {
			pre, e0 := rnReadState(f1.ch.GetFrontierAccountStore(types.PillarContract).Storage())
			ins := f1.ch.AcquireInsert("zvh rewards-reorg own update")
			defer ins.Unlock()
			res, e1 := f1.sup.GenerateAutoReceive(send)
			if e0 != nil || e1 != nil || res == nil || res.Transaction == nil {
				own = fmt.Sprintf("(own computation not available: %v %v)", e0, e1)
				return
			}
			if e2 := f1.ch.AddAccountBlockTransaction(ins, res.Transaction); e2 != nil {
				own = fmt.Sprintf("(own receive not pooled: %v)", e2)
				return
			}
			post, e3 := rnReadState(f1.ch.GetFrontierAccountStore(types.PillarContract).Storage())
			if e3 != nil {
				own = fmt.Sprintf("(own state unreadable: %v)", e3)
				return
			}
			var es []uint64
			seen := map[uint64]bool{}
			for k := range post.hist {
				if _, had := pre.hist[k]; !had && !seen[k.epoch] {
					seen[k.epoch] = true
					es = append(es, k.epoch)
				}
			}
			sort.Slice(es, func(i, j int) bool { return es[i] < es[j] })
			for _, e := range es {
				own += fmt.Sprintf(" epoch %d: this node credits %s, the chain (every node that only saw it) credits %s;", e, rrCredits(post, e), rrCredits(bState, e))
			}
		}); p != "" {
			own = "(own computation panics: " + firstLine(p) + ")"
		}
		break
	}
	c.Fail("C11 rewards-reorg run=%d: the node that reorganised from A to B REFUSES momentum %d:%s of the producer's chain (index %d: %v), a node that only saw B holds it.%s "+
		"statistics of epoch 0 (produced/expected:weight) on this node: %.300s — on the node that only saw B: %.300s; %s",
		id, m.Momentum.Height, h8e(m.Momentum.Hash), idx, err, own, rrStats(f1.cons, 0), rrStats(f2.cons, 0), what)
}
