package main

import (
	"crypto/sha256"
	"encoding/hex"
	"fmt"
	"os"

	"github.com/zenon-network/go-zenon/chain"
	"github.com/zenon-network/go-zenon/chain/genesis"
	g "github.com/zenon-network/go-zenon/chain/genesis/mock"
	"github.com/zenon-network/go-zenon/chain/nom"
	"github.com/zenon-network/go-zenon/common/db"
	"github.com/zenon-network/go-zenon/consensus"
	"github.com/zenon-network/go-zenon/protocol"
	"github.com/zenon-network/go-zenon/verifier"
	"github.com/zenon-network/go-zenon/vm"
)

// zFollower is a second real node (chain over its own leveldb directory, consensus, supervisor, chain bridge) that
// only receives data the way a syncing peer does: ChainBridge.InsertChain / AddAccountBlocks.
type zFollower struct {
	dir    string
	mgr    db.Manager
	ch     chain.Chain
	cons   consensus.Consensus
	sup    *vm.Supervisor
	bridge protocol.ChainBridge
	obs    followerObserver // optional: told about every gossip / delivery / restart and its outcome (s_sync_ns.go)
}

type followerObserver interface {
	onGossip(b *nom.AccountBlock, err error)
	onInsert(batch []*nom.DetailedMomentum, idx int, err error)
	onRestart()
}

func newZFollower(dir string) (f *zFollower, err error) {
	if dir == "" {
		dir, err = os.MkdirTemp("", "zvfol")
		if err != nil {
			return nil, err
		}
	}
	f = &zFollower{dir: dir}
	if p := safely(func() { err = f.open() }); p != "" {
		return nil, fmt.Errorf("panic opening follower: %s", p)
	}
	return f, err
}

func (f *zFollower) open() error {
	f.mgr = db.NewLevelDBManager(f.dir)
	ch := chain.NewChain(f.mgr, genesis.NewGenesis(g.EmbeddedGenesis))
	f.ch = ch
	if err := ch.Init(); err != nil {
		return err
	}
	if err := ch.Start(); err != nil {
		return err
	}
	f.cons = consensus.NewConsensus(db.NewMemDB(), ch, true)
	if err := f.cons.Init(); err != nil {
		return err
	}
	if err := f.cons.Start(); err != nil {
		return err
	}
	f.sup = vm.NewSupervisor(ch, f.cons)
	f.bridge = protocol.NewChainBridge(ch, f.cons, verifier.NewVerifier(ch, f.cons), f.sup)
	silenceLoggers()
	return nil
}

// Restart closes the node and reopens it on the same directory (a new process as far as the ledger is concerned).
func (f *zFollower) Restart() error {
	f.close()
	if f.obs != nil {
		f.obs.onRestart()
	}
	var err error
	if p := safely(func() { err = f.open() }); p != "" {
		return fmt.Errorf("panic reopening follower: %s", p)
	}
	return err
}

func (f *zFollower) close() {
	safely(func() { f.cons.Stop() })
	safely(func() { f.ch.Stop() })
}

func (f *zFollower) Destroy() {
	f.close()
	os.RemoveAll(f.dir)
}

func (f *zFollower) Chain() chain.Chain { return f.ch }

func (f *zFollower) Height() uint64 { return f.ch.GetFrontierMomentumStore().Identifier().Height }

// StateDigest is a digest of the byte-exact frontier key space (every key and value of the ledger database).
func (f *zFollower) StateDigest() string { return digestDB(f.mgr.Frontier()) }

func digestDB(d db.DB) string {
	h := sha256.New()
	it := d.NewIterator(nil)
	defer it.Release()
	n := 0
	for it.Next() {
		// every entry the iterator delivers counts (deleted entries are skipped by the store's own iterator, 522bff7)
		var l [8]byte
		k, v := it.Key(), it.Value()
		l[0], l[1], l[2], l[3] = byte(len(k)>>24), byte(len(k)>>16), byte(len(k)>>8), byte(len(k))
		l[4], l[5], l[6], l[7] = byte(len(v)>>24), byte(len(v)>>16), byte(len(v)>>8), byte(len(v))
		h.Write(l[:])
		h.Write(k)
		h.Write(v)
		n++
	}
	return fmt.Sprintf("%d:%s", n, hex.EncodeToString(h.Sum(nil)[:12]))
}

// InsertChain delivers a batch; panics of the real code are reported as errors.
func (f *zFollower) InsertChain(batch []*nom.DetailedMomentum) (idx int, err error) {
	if p := safely(func() { idx, err = f.bridge.InsertChain(batch) }); p != "" {
		idx, err = -1, fmt.Errorf("panic: %s", p)
	}
	if f.obs != nil {
		f.obs.onInsert(batch, idx, err)
	}
	return idx, err
}

func (f *zFollower) Gossip(blocks []*nom.AccountBlock) (err error) {
	if p := safely(func() { err = f.bridge.AddAccountBlocks(blocks) }); p != "" {
		err = fmt.Errorf("panic: %s", p)
	}
	if f.obs != nil && len(blocks) == 1 {
		f.obs.onGossip(blocks[0], err)
	}
	return err
}
