package main

// Part B of the `p2p-net` stream (C15): the downloader / fetcher state machine of a real node under scripted remote peers.
//
// Every scenario has a node of its own (a follower: real chain, consensus, verifier, supervisor, chain bridge) at height K behind
// a real ProtocolManager and a real p2p.Server on loopback, and remote peers that speak raw devp2p/eth over RLPx connections:
//
//	H   an honest peer: answers every request as a node does (from the producer's genuine chain of T momentums);
//	A   the peer the node chooses to synchronise from (it advertises the highest total difficulty) and that misbehaves: goes
//	    SILENT at a chosen stage (after the status exchange, inside the common-ancestor search, before the first hash pack, before
//	    the terminating hash pack, before the first / third block pack), or ANSWERS with empty / short / repeated / out-of-order /
//	    unrequested / mis-numbered packs, or delivers ONE forged momentum among genuine ones delivered by H;
//	B   a bystander at the node's own height that sends UNSOLICITED BlockHashes / Blocks / NewBlockHashes / NewBlock messages
//	    at every moment of A's synchronisation (each time A receives a request), or a helper that answers the node's block
//	    requests with hostile packs while the node synchronises from H.
//
// Monitors, with deadlines derived from the real time-outs (hash request 5 s, block request 9 s, forced cycle 4 s) plus margin:
//
//	liveness   the node reaches the honest peer's height (scenario fails as class=sync-stalled otherwise, naming who is still connected);
//	           a peer that stays silent on a hash request is disconnected;
//	blame      an honest peer is NEVER disconnected by the node and is still served (ping, hash request) at the end; a peer that
//	           delivered a momentum the node refused IS disconnected;
//	crash      the process survives (parent).
//
// The scenarios are independent nodes and run concurrently.

import (
	"bytes"
	"fmt"
	"math/rand"
	"os"
	"sort"
	"strings"
	"sync"
	"time"

	"github.com/ethereum/go-ethereum/rlp"

	g "github.com/zenon-network/go-zenon/chain/genesis/mock"
	"github.com/zenon-network/go-zenon/chain/nom"
	"github.com/zenon-network/go-zenon/common/types"
	"github.com/zenon-network/go-zenon/protocol"
)

const (
	syncDeadline     = 40 * time.Second // the node must have reached the honest peer's height by then
	syncDropDeadline = 20 * time.Second // a peer silent on a hash request (5 s time-out) is disconnected by then
)

// ethPeer is a scripted remote peer on the eth sub-protocol.
type ethPeer struct {
	*rawPeer
	s     *syncScn
	role  string
	chain []types.Hash                         // the chain it claims: chain[i] is the hash at height i+1
	view  map[types.Hash]*nom.DetailedMomentum // what it delivers under a hash

	mu        sync.Mutex
	hashReqs  int
	blockReqs int
	delivered map[types.Hash]bool
	asked     map[types.Hash]bool
	// the number of block requests received when the last terminating (empty) hash pack was sent; -1 = none sent
	blockReqsAtTerminator int
	left                  bool // the peer went away by itself (s_p2p_leave.go)

	// onHashReq / onBlockReq: nil = answer like a node. Return answer=false to stay silent.
	onHashReq  func(nth int, number, amount uint64) (reply []types.Hash, answer bool)
	onBlockReq func(nth int, hashes []types.Hash) (reply []*nom.DetailedMomentum, answer bool)
	// after: called (on the peer's reader goroutine) after a request was handled
	after func(kind string, nth int)
}

// honestHashes answers GetBlockHashesFromNumber(number, amount) as the node's own handler does: the hashes at the heights
// max(number,1) … number+amount-1 that the chain has, at most 512, from the HIGHEST height down.
func honestHashes(chain []types.Hash, number, amount uint64) []types.Hash {
	if amount > 512 {
		amount = 512
	}
	H := uint64(len(chain))
	from := number
	if from == 0 {
		from = 1
		if amount > 0 {
			amount--
		}
	}
	var out []types.Hash
	for h := from; h < from+amount && h <= H; h++ {
		out = append([]types.Hash{chain[h-1]}, out...)
	}
	return out
}

func (p *ethPeer) honestBlocks(hashes []types.Hash) []*nom.DetailedMomentum {
	var out []*nom.DetailedMomentum
	for _, h := range hashes {
		if d := p.view[h]; d != nil && len(out) < 128 {
			out = append(out, d)
		}
	}
	return out
}

func (p *ethPeer) note(format string, a ...interface{}) {
	p.s.note(p.role+": "+format, a...)
}

func (p *ethPeer) sendHashes(hs []types.Hash) {
	p.s.dlHashes(p, hs) // (trace for the downloader model, s_p2p_dl.go)
	p.sendEth(protocol.BlockHashesMsg, mustRlp(hs))
}
func (p *ethPeer) sendBlocks(bs []*nom.DetailedMomentum) {
	if bs == nil {
		bs = []*nom.DetailedMomentum{}
	}
	p.mu.Lock()
	for _, b := range bs {
		p.delivered[b.Momentum.Hash] = true
	}
	p.mu.Unlock()
	p.s.dlBlocks(p, bs)
	p.sendEth(protocol.BlocksMsg, mustRlp(bs))
}

func (p *ethPeer) handle(code uint64, pay []byte) {
	switch code {
	case protocol.GetBlockHashesFromNumberMsg:
		var q reqHashesFromNumber
		if rlp.DecodeBytes(pay, &q) != nil {
			return
		}
		p.mu.Lock()
		p.hashReqs++
		nth := p.hashReqs
		p.mu.Unlock()
		p.s.dlHashReq(p, q.Number, q.Amount)
		reply, answer := honestHashes(p.chain, q.Number, q.Amount), true
		if p.onHashReq != nil {
			reply, answer = p.onHashReq(nth, q.Number, q.Amount)
		}
		if answer {
			if len(reply) == 0 && q.Amount > 1 {
				p.mu.Lock()
				p.blockReqsAtTerminator = p.blockReqs
				p.mu.Unlock()
			}
			p.note("hash request #%d (from %d, %d) answered with %d hashes", nth, q.Number, q.Amount, len(reply))
			if reply == nil {
				reply = []types.Hash{}
			}
			p.sendHashes(reply)
		} else {
			p.note("hash request #%d (from %d, %d) NOT answered", nth, q.Number, q.Amount)
		}
		p.s.dlHashReqDone(p)
		if p.after != nil {
			p.after("hashreq", nth)
		}
	case protocol.GetBlockHashesMsg:
		var q reqHashes
		if rlp.DecodeBytes(pay, &q) != nil {
			return
		}
		// (eth/61 synchronisation does not use the relative form; answer like a node: the hashes below the named one)
		var out []types.Hash
		for i, h := range p.chain {
			if h == q.Hash {
				for j := i; j >= 0 && uint64(len(out)) < q.Amount && len(out) < 512; j-- {
					out = append(out, p.chain[j])
				}
			}
		}
		p.sendHashes(out)
	case protocol.GetBlocksMsg:
		var hs []types.Hash
		if rlp.DecodeBytes(pay, &hs) != nil {
			return
		}
		p.mu.Lock()
		p.blockReqs++
		nth := p.blockReqs
		for _, h := range hs {
			p.asked[h] = true
		}
		p.mu.Unlock()
		p.s.dlBlockReq(p, hs)
		reply, answer := p.honestBlocks(hs), true
		if p.onBlockReq != nil {
			reply, answer = p.onBlockReq(nth, hs)
		}
		if answer {
			p.note("block request #%d for %s answered with %s", nth, p.s.heightsOf(hs), p.s.heightsOfBlocks(reply))
			p.sendBlocks(reply)
		} else {
			p.note("block request #%d for %s NOT answered", nth, p.s.heightsOf(hs))
		}
		if p.after != nil {
			p.after("blockreq", nth)
		}
	}
}

func (p *ethPeer) counts() (int, int) {
	p.mu.Lock()
	defer p.mu.Unlock()
	return p.hashReqs, p.blockReqs
}

func (p *ethPeer) hasDelivered(h types.Hash) bool {
	p.mu.Lock()
	defer p.mu.Unlock()
	return p.delivered[h]
}

// syncScn is one scenario: a node and its scripted peers.
type syncScn struct {
	n    *netCtx
	name string
	src  []*nom.DetailedMomentum // src[i] is the genuine momentum at height i+1
	r    *rand.Rand
	rmu  sync.Mutex
	f    *follower
	srv  *netServer
	t0   time.Time
	K    int // the node's height at the start of the scenario

	mu     sync.Mutex
	log    []string
	peers  []*ethPeer
	failed bool
}

func (s *syncScn) randHash() (h types.Hash) {
	s.rmu.Lock()
	defer s.rmu.Unlock()
	s.r.Read(h[:])
	return h
}

func (s *syncScn) randInt(n int) int {
	s.rmu.Lock()
	defer s.rmu.Unlock()
	return s.r.Intn(n)
}

func (s *syncScn) note(format string, a ...interface{}) {
	s.mu.Lock()
	defer s.mu.Unlock()
	line := fmt.Sprintf("+%.1fs ", time.Since(s.t0).Seconds()) + fmt.Sprintf(format, a...)
	s.log = append(s.log, line)
	s.n.req("[%s] %s", s.name, line)
}

func (s *syncScn) story() string {
	s.mu.Lock()
	defer s.mu.Unlock()
	l := s.log
	if len(l) > 40 {
		l = append(append([]string{}, l[:14]...), append([]string{"…"}, l[len(l)-25:]...)...)
	}
	return strings.Join(l, " | ")
}

func (s *syncScn) heightOf(h types.Hash) string {
	for i, d := range s.src {
		if d.Momentum.Hash == h {
			return fmt.Sprint(i + 1)
		}
	}
	return "?" + h8(h)
}

func (s *syncScn) heightsOf(hs []types.Hash) string {
	ss := make([]string, len(hs))
	for i, h := range hs {
		ss[i] = s.heightOf(h)
	}
	sort.Slice(ss, func(i, j int) bool { return len(ss[i]) < len(ss[j]) || (len(ss[i]) == len(ss[j]) && ss[i] < ss[j]) })
	return "{" + strings.Join(ss, ",") + "}"
}

func (s *syncScn) heightsOfBlocks(bs []*nom.DetailedMomentum) string {
	hs := make([]types.Hash, len(bs))
	for i, b := range bs {
		hs[i] = b.Momentum.Hash
	}
	return s.heightsOf(hs)
}

func (s *syncScn) fail(class, format string, a ...interface{}) {
	s.mu.Lock()
	s.failed = true
	s.mu.Unlock()
	s.dlFail(class)
	s.n.fail("C15 class=%s scenario=%s: %s; node height %d; peers: %s; what happened: %s", class, s.name, fmt.Sprintf(format, a...),
		s.height(), s.peerStates(), s.story())
}

func (s *syncScn) peerStates() string {
	s.mu.Lock()
	ps := append([]*ethPeer{}, s.peers...)
	s.mu.Unlock()
	var ss []string
	for _, p := range ps {
		gone, why := p.dropped()
		st := "connected"
		if gone {
			st = "disconnected (" + why + ")"
		}
		ss = append(ss, p.role+" "+st)
	}
	return strings.Join(ss, ", ")
}

func (s *syncScn) height() int { return int(s.f.frontier().Height) }

func newSyncScn(n *netCtx, name string, src []*nom.DetailedMomentum, K int, salt int64) *syncScn {
	s := &syncScn{n: n, name: name, src: src, r: n.rnd(1000 + salt), t0: time.Now(), K: K}
	s.f = newFollower()
	followerDirs.Store(s.f.dir, true)
	if K > 1 {
		if idx, err, pn := s.f.insertChain(wire(src[1:K])); err != nil || pn != nil {
			n.fail("C15 p2p-net: harness cannot bring the node of scenario %s to height %d: index %d, %v %v", name, K, idx, err, pn)
			s.f.stop()
			return nil
		}
	}
	srv, err := newNetServer(s.f.bridge, "zvh-node-"+name)
	if err != nil {
		n.fail("C15 p2p-net: harness cannot start a p2p server on loopback: %v", err)
		s.f.stop()
		return nil
	}
	s.srv = srv
	return s
}

func (s *syncScn) close() {
	s.mu.Lock()
	ps := append([]*ethPeer{}, s.peers...)
	s.mu.Unlock()
	for _, p := range ps {
		p.close()
	}
	s.srv.stop()
	// (the node's ledger is NOT stopped here: a handler goroutine of the node that is still working on a message it read before the
	// connections were closed would run into the stopped store; the directories are removed when the process ends)
}

// genuine chain/view of the first `upTo` momentums
func (s *syncScn) genuine(upTo int) ([]types.Hash, map[types.Hash]*nom.DetailedMomentum) {
	chain := make([]types.Hash, upTo)
	view := map[types.Hash]*nom.DetailedMomentum{}
	for i := 0; i < upTo; i++ {
		chain[i] = s.src[i].Momentum.Hash
		view[chain[i]] = s.src[i]
	}
	return chain, view
}

// peer connects a scripted peer that claims `td` and holds the first `upTo` genuine momentums.
func (s *syncScn) peer(role string, td uint64, upTo int, setup func(p *ethPeer)) *ethPeer {
	chain, view := s.genuine(upTo)
	p := &ethPeer{s: s, role: role, chain: chain, view: view, delivered: map[types.Hash]bool{}, asked: map[types.Hash]bool{}, blockReqsAtTerminator: -1}
	if setup != nil {
		setup(p)
	}
	head := chain[len(chain)-1]
	raw, err := s.srv.connect(role, td, head, s.src[0].Momentum.Hash)
	if err != nil {
		s.fail("no-new-connection", "the node does not accept the connection of %s: %v", role, err)
		return nil
	}
	p.rawPeer = raw
	raw.onMsg = p.handle
	s.mu.Lock()
	s.peers = append(s.peers, p)
	s.mu.Unlock()
	s.dlRegister(p)
	s.note("%s connects (claims total difficulty %d, holds %d momentums)", role, td, upTo)
	raw.start()
	return p
}

// waitFor polls cond until it holds or d elapsed.
func waitFor(d time.Duration, cond func() bool) bool {
	deadline := time.Now().Add(d)
	for {
		if cond() {
			return true
		}
		if time.Now().After(deadline) {
			return false
		}
		time.Sleep(10 * time.Millisecond)
	}
}

// expectSynced: the liveness monitor. The node reaches `target` (the honest peer's height) within the deadline — and does not
// disconnect an honest peer on the way.
func (s *syncScn) expectSynced(target int, why string, honest ...*ethPeer) bool {
	var lost *ethPeer
	// one recognisable way to stall: the node downloaded the hash chain of an honest peer to the end (that peer sent the terminating
	// empty pack) and then asks nobody for a single momentum of it. (A block request follows the hashes within a fraction of a second;
	// the longest legitimate pause is the 9 s after which a request another peer sits on is handed to the next peer.)
	hashOnly := func() *ethPeer {
		for _, p := range honest {
			if p == nil {
				continue
			}
			p.mu.Lock()
			is := p.blockReqsAtTerminator >= 0 && p.blockReqs == p.blockReqsAtTerminator && !p.closed
			p.mu.Unlock()
			if is {
				return p
			}
		}
		return nil
	}
	var hashOnlySince time.Time
	var stuck *ethPeer
	ok := waitFor(syncDeadline, func() bool {
		for _, p := range honest {
			if p != nil && p.isGone() {
				lost = p
				return true
			}
		}
		if s.height() >= target {
			return true
		}
		if p := hashOnly(); p == nil {
			hashOnlySince = time.Time{}
		} else if hashOnlySince.IsZero() {
			hashOnlySince = time.Now()
		} else if time.Since(hashOnlySince) > 15*time.Second {
			stuck = p
			return true
		}
		return false
	})
	if stuck != nil && s.height() < target {
		ok = false
	}
	if lost != nil && s.height() < target {
		_, reason := lost.dropped()
		s.fail("honest-peer-dropped", "the node disconnected %s (%s), which answered every request like a node and delivered only genuine momentums (%s) — %s",
			lost.role, reason, s.deliveredBy(lost), why)
		return false
	}
	if !ok {
		diag := ""
		if p := hashOnly(); p != nil {
			diag = " diagnosis=hash-download-completed-but-no-momentum-requested (" + p.role + " answered every hash request of the node's last synchronisation, " +
				"including the terminating empty pack, and has not been asked for a momentum since)"
		}
		s.fail("sync-stalled", "%.0fs after the scenario started the node has not reached height %d of the honest peer that is connected to it (%s)%s",
			time.Since(s.t0).Seconds(), target, why, diag)
		return false
	}
	s.note("node reached height %d", s.height())
	// what the node holds is the genuine chain
	hs := s.f.hashes()
	for i, h := range hs {
		if i < len(s.src) && h != s.src[i].Momentum.Hash {
			s.fail("holds-forged-momentum", "the node holds at height %d a momentum %s that is not the producer's", i+1, h8(h))
			return false
		}
	}
	return true
}

// expectHonest: the blame monitor for an honest peer: never disconnected, still served.
func (s *syncScn) expectHonest(ps ...*ethPeer) bool {
	for _, p := range ps {
		if p == nil {
			continue
		}
		if gone, why := p.dropped(); gone {
			s.fail("honest-peer-dropped", "the node disconnected %s (%s), which answered every request like a node and delivered only genuine momentums", p.role, why)
			return false
		}
		if !p.pingPong(10 * time.Second) {
			s.fail("honest-peer-not-served", "the ping of %s is not answered within 10s", p.role)
			return false
		}
	}
	return true
}

// expectDropped: the node disconnects p within d.
func (s *syncScn) expectDropped(p *ethPeer, d time.Duration, because string) bool {
	if p.waitGone(d) {
		_, why := p.dropped()
		s.note("%s was disconnected (%s)", p.role, why)
		return true
	}
	s.fail("offender-not-dropped", "%s is still connected %v after %s", p.role, d, because)
	return false
}

// ---- the bystander's unsolicited messages ---------------------------------------------------------------------

// unsolicited sends, from a peer the node does NOT synchronise from, one message of every kind a synchronisation consumes.
func (s *syncScn) unsolicited(b *ethPeer, T int, moment string) {
	junk, junk2 := s.randHash(), s.randHash()
	K := s.height()
	next := s.src[imin(K, T-1)] // the genuine momentum above the node's frontier
	far := wire([]*nom.DetailedMomentum{s.src[T-1]})[0]
	far.Momentum.Height += 100000
	s.note("%s sends unsolicited BlockHashes / Blocks / NewBlockHashes / NewBlock (%s)", b.role, moment)
	b.sendHashes([]types.Hash{junk})
	b.sendHashes([]types.Hash{})
	b.sendHashes([]types.Hash{next.Momentum.Hash, s.src[T-1].Momentum.Hash})
	b.sendBlocks([]*nom.DetailedMomentum{})
	b.sendBlocks([]*nom.DetailedMomentum{next})
	b.sendBlocks([]*nom.DetailedMomentum{far})
	b.sendEth(protocol.NewBlockHashesMsg, mustRlp([]types.Hash{junk2}))
	b.sendEth(protocol.NewBlockMsg, mustRlp(next))
	b.sendHashes([]types.Hash{junk2, junk})
}

// ---- scenarios -------------------------------------------------------------------------------------------------

type syncScenario struct {
	name string
	run  func(s *syncScn)
}

// silentAt: A (highest total difficulty) goes silent at `stage`; B sends unsolicited messages each time A receives a request.
func silentScenario(stage string, lateH bool) syncScenario {
	name := "silent-" + stage
	if lateH {
		name += "-honest-peer-connects-later"
	}
	return syncScenario{name, func(s *syncScn) {
		T := len(s.src)
		var b *ethPeer
		var h *ethPeer
		silentSince := make(chan struct{})
		var once sync.Once
		goSilent := func() { once.Do(func() { close(silentSince) }) }
		// which request is the first one A does not answer
		hashStage := map[string]int{"status": 1, "ancestor-search": 2, "ancestor-search-late": 4}
		a := s.peer("A(silent)", 1000, T, func(p *ethPeer) {
			searchDone := false
			packs := 0
			p.onHashReq = func(nth int, number, amount uint64) ([]types.Hash, bool) {
				if k, ok := hashStage[stage]; ok && nth >= k {
					goSilent()
					return nil, false
				}
				if amount > 1 && nth > 1 {
					searchDone = true // the download proper: requests for 512 hashes after the search for the ancestor
				}
				if searchDone {
					packs++
					if (stage == "hashes" && packs >= 1) || (stage == "hashes-terminator" && packs >= 2) {
						goSilent()
						return nil, false
					}
				}
				return honestHashes(p.chain, number, amount), true
			}
			p.onBlockReq = func(nth int, hashes []types.Hash) ([]*nom.DetailedMomentum, bool) {
				if (stage == "blocks-first" && nth >= 1) || (stage == "blocks-third" && nth >= 3) {
					goSilent()
					return nil, false
				}
				return p.honestBlocks(hashes), true
			}
			p.after = func(kind string, nth int) {
				if b != nil {
					s.unsolicited(b, T, fmt.Sprintf("A has just received its %s #%d", kind, nth))
				}
			}
		})
		if a == nil {
			return
		}
		// B first, so that it exists when A's first request arrives; A's status makes A the best peer whatever the order
		b = s.peer("B(bystander)", uint64(s.K), s.K, nil)
		if !lateH {
			h = s.peer("H(honest)", uint64(T), T, nil)
		}
		select {
		case <-silentSince:
			s.note("A is silent from now on")
		case <-time.After(syncDeadline):
			if s.height() < T {
				s.fail("sync-stalled", "the node never got to the request A was to leave unanswered (stage %s) and did not synchronise either", stage)
				return
			}
		}
		if lateH {
			time.Sleep(time.Duration(200+s.randInt(1500)) * time.Millisecond)
			h = s.peer("H(honest)", uint64(T), T, nil)
		}
		if b == nil || h == nil {
			return
		}
		if !s.expectSynced(T, "A, the peer it chose to synchronise from, stopped answering at stage "+stage, h) {
			return
		}
		if _, isHash := hashStage[stage]; isHash || strings.HasPrefix(stage, "hashes") {
			if !s.expectDropped(a, syncDropDeadline, "it left a hash request of the node unanswered (time-out of the request: 5s)") {
				return
			}
		}
		// (B is not judged: a peer that sends unsolicited packs may be disconnected or kept)
		s.expectHonest(h)
	}}
}

// hostileOrigin: A (highest total difficulty) answers with malformed packs; H is honest.
func hostileOriginScenario(kind string) syncScenario {
	return syncScenario{"origin-answers-" + kind, func(s *syncScn) {
		T := len(s.src)
		junkHashes := func(n int) []types.Hash {
			out := make([]types.Hash, n)
			for i := range out {
				out[i] = s.randHash()
			}
			return out
		}
		a := s.peer("A("+kind+")", 1000, T, func(p *ethPeer) {
			var lastPack []types.Hash
			packs := 0
			p.onHashReq = func(nth int, number, amount uint64) ([]types.Hash, bool) {
				good := honestHashes(p.chain, number, amount)
				search := amount == 1
				if !search && nth > 1 {
					packs++
				}
				switch kind {
				case "probe-empty":
					if nth == 1 {
						return nil, true
					}
				case "probe-unknown":
					if nth == 1 {
						return junkHashes(3), true
					}
				case "probe-ascending":
					if nth == 1 {
						for i, j := 0, len(good)-1; i < j; i, j = i+1, j-1 {
							good[i], good[j] = good[j], good[i]
						}
						return good, true
					}
				case "search-two-hashes":
					if search {
						return honestHashes(p.chain, number, 2), true
					}
				case "search-none":
					if search {
						return nil, true
					}
				case "search-other-height":
					if search && number > 2 {
						return honestHashes(p.chain, number-1, 1), true
					}
				case "search-unknown":
					if search {
						return junkHashes(1), true
					}
				case "hashes-duplicated":
					if !search && nth > 1 && len(good) > 1 {
						return append(good, good[0]), true
					}
				case "hashes-same-pack-again":
					if !search && nth > 1 {
						if lastPack != nil {
							return lastPack, true
						}
						lastPack = good
					}
				case "hashes-ascending":
					if !search && nth > 1 {
						for i, j := 0, len(good)-1; i < j; i, j = i+1, j-1 {
							good[i], good[j] = good[j], good[i]
						}
						return good, true
					}
				case "hashes-one-at-a-time":
					if !search && nth > 1 && len(good) > 1 {
						return good[:1], true
					}
				case "hashes-unknown":
					if !search && nth > 1 && packs == 1 {
						return junkHashes(5), true
					}
				case "hashes-genuine-then-unknown":
					if !search && nth > 1 && packs == 2 {
						return junkHashes(4), true
					}
				case "hashes-never-end":
					// every pack after the genuine ones brings two more unknown hashes: the download never finishes on its own
					if !search && nth > 1 && len(good) == 0 {
						return junkHashes(2), true
					}
				}
				return good, true
			}
			p.onBlockReq = func(nth int, hashes []types.Hash) ([]*nom.DetailedMomentum, bool) {
				good := p.honestBlocks(hashes)
				switch kind {
				case "blocks-empty":
					return nil, true
				case "blocks-first-only":
					if len(good) > 1 {
						return good[:1], true
					}
				case "blocks-repeated":
					if len(good) > 0 {
						return []*nom.DetailedMomentum{good[0], good[0], good[0]}, true
					}
				case "blocks-unrequested":
					return []*nom.DetailedMomentum{s.src[1], s.src[T-1]}, true
				case "blocks-reversed":
					for i, j := 0, len(good)-1; i < j; i, j = i+1, j-1 {
						good[i], good[j] = good[j], good[i]
					}
				case "blocks-wrong-height":
					out := wire(good)
					for _, d := range out {
						d.Momentum.Height += 100000
					}
					return out, true
				case "blocks-height-zero":
					out := wire(good)
					for _, d := range out {
						d.Momentum.Height = 0
					}
					return out, true
				case "blocks-two-answers":
					p.sendBlocks(good)
				}
				return good, true
			}
		})
		if a == nil {
			return
		}
		// (the arrival of the next peer makes the node choose the best of the peers it has registered: A, by then)
		time.Sleep(300 * time.Millisecond)
		h := s.peer("H(honest)", uint64(T), T, nil)
		if h == nil {
			return
		}
		if !s.expectSynced(T, "A, the peer it chose to synchronise from, answers with "+kind+" packs", h) {
			return
		}
		s.expectHonest(h)
	}}
}

// hostileHelper: the node synchronises from the honest H; B, a peer with a shorter claim, answers the block requests the node
// sends it with hostile packs.
func hostileHelperScenario(kind string) syncScenario {
	return syncScenario{"helper-answers-" + kind, func(s *syncScn) {
		T := len(s.src)
		refusable := false // B delivers a momentum the node must refuse
		// H first: the node synchronises from it (H takes its time over block requests, as a loaded node does, so that B is asked too)
		h := s.peer("H(honest)", uint64(T), T, func(p *ethPeer) {
			p.onBlockReq = func(nth int, hashes []types.Hash) ([]*nom.DetailedMomentum, bool) {
				time.Sleep(150 * time.Millisecond)
				return p.honestBlocks(hashes), true
			}
		})
		if h == nil {
			return
		}
		time.Sleep(300 * time.Millisecond)
		b := s.peer("B("+kind+")", uint64(T-1), T, func(p *ethPeer) {
			p.onBlockReq = func(nth int, hashes []types.Hash) ([]*nom.DetailedMomentum, bool) {
				good := p.honestBlocks(hashes)
				out := wire(good)
				switch kind {
				case "blocks-wrong-height":
					for _, d := range out {
						d.Momentum.Height += 100000
					}
				case "blocks-height-zero":
					for _, d := range out {
						d.Momentum.Height = 0
					}
				case "blocks-other-body":
					// the body of another momentum under the requested hash
					for _, d := range out {
						o := wire([]*nom.DetailedMomentum{s.src[1]})[0]
						o.Momentum.Hash, o.Momentum.Height = d.Momentum.Hash, d.Momentum.Height
						*d = *o
						refusable = true
					}
				case "blocks-forged-signature":
					for _, d := range out {
						d.Momentum.Signature[5] ^= 0x10
						refusable = true
					}
				case "blocks-empty":
					return nil, true
				case "blocks-unrequested":
					return []*nom.DetailedMomentum{s.src[1], s.src[T-1]}, true
				}
				return out, true
			}
		})
		if b == nil {
			return
		}
		if !s.expectSynced(T, "the node synchronises from H; B, a peer it does NOT synchronise from, answers the block requests it gets with "+kind+" packs", h) {
			return
		}
		if !s.expectHonest(h) {
			return
		}
		_, nb := b.counts()
		if refusable && nb > 0 {
			s.expectDropped(b, syncDropDeadline, "it delivered a momentum that fails verification")
		}
	}}
}

// forge returns a copy of a genuine momentum that full verification refuses while the hash field — all the downloader looks at —
// is the genuine one.
func forge(d *nom.DetailedMomentum, kind string) *nom.DetailedMomentum {
	o := wire([]*nom.DetailedMomentum{d})[0]
	m := o.Momentum
	switch kind {
	case "signature":
		m.Signature[0] ^= 0xff
	case "changes-hash":
		m.ChangesHash[7] ^= 1
	case "timestamp":
		m.TimestampUnix++
		ts := m.Timestamp.Add(1e9)
		m.Timestamp = &ts
	case "producer":
		for _, k := range g.PillarKeys {
			if !bytes.Equal(k.Public, m.PublicKey) {
				m.PublicKey = append([]byte{}, k.Public...)
				m.Signature = k.Sign(m.Hash.Bytes())
				break
			}
		}
	case "data":
		m.Data = append(append([]byte{}, m.Data...), 1)
	}
	return o
}

// twoPeerBatch: ONE batch handed to InsertChain is assembled from the deliveries of two peers. X announces a chain whose top
// momentum T only X holds, and delivers it forged (the hash field — all the downloader looks at — is the genuine one); it has none of
// the others. H, an honest peer that holds T-1 momentums and connects when X has delivered, delivers everything else. Hashes are
// downloaded from the top down, so the lowest momentum arrives last and the whole download is imported as one batch, which starts
// with momentums the node already holds: one (the common ancestor, which eth/61 downloads again) or, when X answers the ancestor probe
// with unknown hashes, all K of them. The node must refuse the forged momentum, disconnect X — the peer that delivered it — and
// nobody else.
func twoPeerBatchScenario(kind string, fromGenesis bool) syncScenario {
	name := "two-peer-batch-forged-" + kind
	if fromGenesis {
		name += "-redownload-from-height-1"
	}
	return syncScenario{name, func(s *syncScn) {
		T := len(s.src)
		forged := forge(s.src[T-1], kind)
		target := forged.Momentum.Hash
		askedTarget := make(chan struct{})
		hStarted := make(chan struct{})
		var once, hOnce sync.Once
		x := s.peer("X(forger)", uint64(T), T, func(p *ethPeer) {
			p.view = map[types.Hash]*nom.DetailedMomentum{target: forged}
			p.onHashReq = func(nth int, number, amount uint64) ([]types.Hash, bool) {
				if nth == 1 && fromGenesis {
					return []types.Hash{s.randHash()}, true
				}
				return honestHashes(p.chain, number, amount), true
			}
			p.onBlockReq = func(nth int, hashes []types.Hash) ([]*nom.DetailedMomentum, bool) {
				for _, h := range hashes {
					if h == target {
						once.Do(func() { close(askedTarget) })
						return []*nom.DetailedMomentum{forged}, true
					}
				}
				// X holds nothing else. (An empty pack is not even forwarded to the downloader by the node's handler and the request
				// would sit there for 9 s; a pack with a momentum that was not asked for returns the hashes to the queue at once.) It
				// says so when H has started to deliver: a node that has nobody to ask gives the synchronisation up.
				select {
				case <-hStarted:
				case <-time.After(7 * time.Second):
				}
				return []*nom.DetailedMomentum{s.src[1]}, true
			}
		})
		if x == nil {
			return
		}
		// H arrives when X — the only peer so far, so the one that is asked for the top momentum — has delivered the forged momentum
		select {
		case <-askedTarget:
		case <-time.After(syncDeadline):
			s.fail("sync-stalled", "the node never asked X, the only peer connected to it, for the head of the chain X announced")
			return
		}
		h := s.peer("H(honest)", uint64(T-1), T-1, func(p *ethPeer) {
			p.onBlockReq = func(nth int, hashes []types.Hash) ([]*nom.DetailedMomentum, bool) {
				hOnce.Do(func() { close(hStarted) })
				time.Sleep(250 * time.Millisecond) // (a loaded node)
				return p.honestBlocks(hashes), true
			}
		})
		if h == nil {
			return
		}
		// the genuine momentums are adopted, the forged one is not
		if !s.expectSynced(T-1, "X delivered a forged momentum at height "+fmt.Sprint(T)+" ("+kind+"), H everything else", h) {
			return
		}
		if !x.hasDelivered(target) {
			s.n.hit("sync-forged-momentum-never-requested")
			s.expectHonest(h)
			return
		}
		s.n.hit("sync-two-peer-batch-delivered")
		// the node refuses the forged momentum and disconnects the peer that delivered it — and nobody else
		dropped := waitFor(syncDropDeadline, func() bool {
			gx, _ := x.dropped()
			gh, _ := h.dropped()
			return gx || gh
		})
		if s.height() >= T {
			s.fail("holds-forged-momentum", "the node adopted the momentum at height %d that X delivered with a forged %s", T, kind)
			return
		}
		if gone, why := h.dropped(); gone {
			s.fail("honest-peer-dropped", "X delivered the momentum at height %d with a forged %s, H delivered only genuine momentums (%s): the node disconnected H (%s); X: %s",
				T, kind, s.deliveredBy(h), why, map[bool]string{true: "disconnected too", false: "still connected"}[x.isGone()])
			return
		}
		if !s.expectHonest(h) {
			return
		}
		if !dropped {
			s.fail("offender-not-dropped", "X delivered a momentum with a forged %s at height %d; %v later the node has disconnected nobody", kind, T, syncDropDeadline)
			return
		}
		s.expectDropped(x, 2*time.Second, "it delivered a momentum with a forged "+kind)
	}}
}

func (p *ethPeer) isGone() bool { g, _ := p.dropped(); return g }

// deliveredBy: the heights of the momentums a peer delivered.
func (s *syncScn) deliveredBy(p *ethPeer) string {
	p.mu.Lock()
	var hs []types.Hash
	for h := range p.delivered {
		hs = append(hs, h)
	}
	p.mu.Unlock()
	return "heights " + s.heightsOf(hs)
}

func p2pNetSync(n *netCtx, a *producer, src0 []*nom.DetailedMomentum) {
	src := wire(src0[:netSrcHeight])
	// the node's height at the start of every scenario of this run (all scenarios run in both tiers: they are independent nodes and
	// run concurrently; the thorough tier runs them once per starting height)
	Ks := []int{[]int{12, 7, 21}[int(n.seed%3+3)%3]}
	if n.tier == "thorough" {
		Ks = []int{12, 7, 21, 2}
	}
	for _, K := range Ks {
		p2pNetSyncAt(n, src, K)
	}
	time.Sleep(300 * time.Millisecond)
	followerDirs.Range(func(k, _ interface{}) bool { os.RemoveAll(k.(string)); return true })
}

func p2pNetSyncAt(n *netCtx, src []*nom.DetailedMomentum, K int) {
	var scns []syncScenario
	for _, st := range []string{"status", "ancestor-search", "ancestor-search-late", "hashes", "hashes-terminator", "blocks-first", "blocks-third"} {
		scns = append(scns, silentScenario(st, false))
	}
	scns = append(scns, silentScenario("hashes", true), silentScenario("ancestor-search", true))
	for _, k := range []string{"probe-empty", "probe-unknown", "probe-ascending", "search-two-hashes", "search-none", "search-other-height",
		"search-unknown", "hashes-duplicated", "hashes-same-pack-again", "hashes-ascending", "hashes-one-at-a-time", "hashes-unknown",
		"hashes-genuine-then-unknown", "hashes-never-end", "blocks-empty", "blocks-first-only", "blocks-repeated", "blocks-unrequested",
		"blocks-reversed", "blocks-wrong-height", "blocks-height-zero", "blocks-two-answers"} {
		scns = append(scns, hostileOriginScenario(k))
	}
	for _, k := range []string{"blocks-wrong-height", "blocks-height-zero", "blocks-other-body", "blocks-forged-signature", "blocks-empty", "blocks-unrequested"} {
		scns = append(scns, hostileHelperScenario(k))
	}
	for i, k := range []string{"signature", "changes-hash", "producer", "timestamp", "data"} {
		scns = append(scns, twoPeerBatchScenario(k, i%2 == 0), twoPeerBatchScenario(k, i%2 == 1))
	}
	scns = append(scns, leaverScenarios(n.seed, n.tier, K)...)
	if n.scn != "" {
		var keep []syncScenario
		for _, sc := range scns {
			if strings.Contains(sc.name, n.scn) {
				keep = append(keep, sc)
			}
		}
		scns = keep
	}
	var wg sync.WaitGroup
	sem := make(chan struct{}, 80)
	for i, sc := range scns {
		wg.Add(1)
		sem <- struct{}{}
		go func(i int, sc syncScenario) {
			defer wg.Done()
			defer func() { <-sem }()
			s := newSyncScn(n, sc.name, src, K, int64(i))
			if s == nil {
				return
			}
			defer s.close()
			n.hit("sync-scenarios")
			n.hit("sync-" + strings.SplitN(sc.name, "-", 2)[0])
			if p := safely(func() { sc.run(s) }); p != "" {
				s.fail("harness-panic", "the scenario script panicked: %s", firstLine(p))
			}
			s.dlEmit()
			s.mu.Lock()
			failed := s.failed
			s.mu.Unlock()
			if !failed {
				n.hit("sync-scenarios-passed")
				n.emit("p2p-sync %s | ok", sc.name)
			}
		}(i, sc)
	}
	wg.Wait()
}

var followerDirs sync.Map

var _ = rand.Int
