package main

import (
	"bufio"
	"bytes"
	"encoding/json"
	"fmt"
	"io"
	"math/rand"
	"net/http"
	"net/http/httptest"
	"os"
	"os/exec"
	"strings"

	g "github.com/zenon-network/go-zenon/chain/genesis/mock"
	"github.com/zenon-network/go-zenon/rpc/api"
	"github.com/zenon-network/go-zenon/rpc/api/embedded"
	rpcserver "github.com/zenon-network/go-zenon/rpc/server"
)

// ---------------------------------------------------------------------------------------------------
// rpcserver stream (C18, runtime clause — supporting evidence, no model): the real JSON-RPC server (rpc/server) with the
// ledger and embedded APIs registered, driven through its HTTP handler in-process with malformed, oversized, deeply
// nested, wrongly typed, batched and hostile requests. Monitor: the handler never panics out, every answer to a
// JSON request is a JSON-RPC response (result or error object) or an HTTP error status, and the server keeps
// answering a valid request correctly after every hostile one.
// ---------------------------------------------------------------------------------------------------

func init() {
	// the server runs in a CHILD process: a panic outside the server's own recover (e.g. while decoding parameters on a
	// connection goroutine) terminates that process, which is exactly what the property forbids; the parent reports the
	// request that was being served
	register("rpcserver", func(c *Ctx) {
		cmd := exec.Command(os.Args[0], "rpcserver-child", fmt.Sprint(c.Seed), fmt.Sprint(c.N))
		out, err := cmd.Output()
		last := "<none>"
		finished := false
		for _, line := range strings.Split(string(out), "\n") {
			switch {
			case strings.HasPrefix(line, "REQ "):
				last = line[4:]
			case strings.HasPrefix(line, "HIT "):
				c.Hit(line[4:])
			case strings.HasPrefix(line, "FAIL "):
				c.Fail("%s", line[5:])
			case line == "CHILD-FINISHED":
				finished = true
			}
		}
		if err != nil || !finished {
			c.Fail("C18: the JSON-RPC server process terminated (%v) while serving the request [%s]", err, last)
			return
		}
		c.Emit("rpcserver-survived | ok")
	})
}

func rpcServerChild(seed int64, nreq int) {
	c := &Ctx{R: rand.New(rand.NewSource(seed)), Seed: seed, N: nreq, w: bufio.NewWriter(io.Discard), Stats: map[string]int{}}
	defer func() {
		for k, v := range c.Stats {
			for i := 0; i < v; i++ {
				fmt.Println("HIT " + k)
			}
		}
		for _, f := range c.Fails {
			fmt.Println("FAIL " + f)
		}
		fmt.Println("CHILD-FINISHED")
		os.Stdout.Sync()
	}()
	func() {
		n := NewNode()
		defer n.Stop()
		produceTraffic(c, n, 40)
		srv := rpcserver.NewServer()
		defer srv.Stop()
		must := func(err error) {
			if err != nil {
				c.Fail("rpcserver: register: %v", err)
			}
		}
		must(srv.RegisterName("ledger", api.NewLedgerApi(n.Z)))
		must(srv.RegisterName("embedded.token", embedded.NewTokenApi(n.Z)))
		must(srv.RegisterName("embedded.pillar", embedded.NewPillarApi(n.Z, true)))
		must(srv.RegisterName("embedded.plasma", embedded.NewPlasmaApi(n.Z)))
		must(srv.RegisterName("embedded.stake", embedded.NewStakeApi(n.Z)))

		post := func(body []byte, ctype string) (code int, resp string, panicked string) {
			panicked = safely(func() {
				req := httptest.NewRequest(http.MethodPost, "/", bytes.NewReader(body))
				req.Header.Set("Content-Type", ctype)
				w := httptest.NewRecorder()
				srv.ServeHTTP(w, req)
				code = w.Code
				resp = w.Body.String()
			})
			return
		}
		H := n.Height()
		fmo, _ := n.Chain().GetFrontierMomentumStore().GetFrontierMomentum()
		frontierHash := fmo.Hash.String()
		healthy := func(after string) bool {
			code, resp, p := post([]byte(`{"jsonrpc":"2.0","id":7,"method":"ledger.getFrontierMomentum","params":[]}`), "application/json")
			var out struct {
				Result struct {
					Height uint64 `json:"height"`
				} `json:"result"`
			}
			if p != "" || code != 200 || json.Unmarshal([]byte(resp), &out) != nil || out.Result.Height != H {
				c.Fail("C18: after the request [%s] the server no longer answers ledger.getFrontierMomentum correctly (code=%d panic=%q body=%.120s)", after, code, p, resp)
				return false
			}
			return true
		}
		if !healthy("startup") {
			return
		}
		addr := g.User1.Address.String()
		valid := []string{
			`{"jsonrpc":"2.0","id":1,"method":"ledger.getMomentumsByPage","params":[0,10]}`,
			`{"jsonrpc":"2.0","id":2,"method":"ledger.getAccountBlocksByPage","params":["` + addr + `",0,5]}`,
			`{"jsonrpc":"2.0","id":3,"method":"ledger.getAccountInfoByAddress","params":["` + addr + `"]}`,
			`{"jsonrpc":"2.0","id":4,"method":"embedded.token.getAll","params":[0,10]}`,
			`{"jsonrpc":"2.0","id":5,"method":"embedded.pillar.getAll","params":[0,10]}`,
			`{"jsonrpc":"2.0","id":6,"method":"ledger.getMomentumsByHeight","params":[1,3]}`,
			`{"jsonrpc":"2.0","id":8,"method":"ledger.getMomentumByHash","params":["` + frontierHash + `"]}`,
			`{"jsonrpc":"2.0","id":9,"method":"ledger.getAccountBlockByHash","params":["` + frontierHash + `"]}`,
		}
		hexOf := func(k int) string {
			b := make([]byte, k)
			for i := range b {
				b[i] = "0123456789abcdef"[c.R.Intn(16)]
			}
			return string(b)
		}
		mutate := func(s string) string {
			b := []byte(s)
			switch c.R.Intn(18) {
			case 0:
				return s[:c.R.Intn(len(s))] // truncated
			case 1:
				b[c.R.Intn(len(b))] ^= byte(1 << uint(c.R.Intn(8)))
				return string(b)
			case 2:
				return strings.Repeat("[", 1+c.R.Intn(20000)) + s + strings.Repeat("]", c.R.Intn(3))
			case 3:
				return strings.Replace(s, `"params":[`, `"params":[`+strings.Repeat(`{"a":`, 3000)+`1`+strings.Repeat(`}`, 3000)+`,`, 1)
			case 4:
				return strings.Replace(s, "0,", "-1,", 1)
			case 5:
				return strings.Replace(s, "0,", "18446744073709551616,", 1)
			case 6:
				return strings.Replace(s, "0,", `"0",`, 1)
			case 7:
				return strings.Replace(s, "0,", "1e400,", 1)
			case 8:
				return "[" + strings.Repeat(s+",", 1+c.R.Intn(300)) + s + "]" // batch
			case 9:
				return "[]"
			case 10:
				return strings.Replace(s, `"method":"`, `"method":"nosuch.`, 1)
			case 11:
				return strings.Replace(s, addr, "z1"+strings.Repeat("q", c.R.Intn(60)), 1)
			case 12:
				return strings.Replace(s, `"params":[`, `"params":[null,`, 1)
			case 13:
				return strings.Replace(s, `"id":`, `"id":{"x":[1,2,{"y":null}]},"idx":`, 1)
			default:
				// hash parameters of every length around 64 hex characters, and much longer
				k := []int{0, 1, 2, 62, 63, 64, 65, 66, 67, 68, 96, 128, 129, 1000, 100000}[c.R.Intn(15)]
				return strings.Replace(s, frontierHash, hexOf(k), 1)
			}
		}
		garbage := func() []byte {
			switch c.R.Intn(5) {
			case 0:
				b := make([]byte, c.R.Intn(400))
				c.R.Read(b)
				return b
			case 1:
				return []byte(strings.Repeat("{", 100000))
			case 2:
				return bytes.Repeat([]byte(`{"jsonrpc":"2.0","id":1,"method":"ledger.getFrontierMomentum","params":[]}`), 50)
			case 3:
				return append([]byte(`{"jsonrpc":"2.0","id":1,"method":"ledger.getAccountBlocksByPage","params":["`), append(bytes.Repeat([]byte("z"), 6*1024*1024), []byte(`",0,1]}`)...)...)
			default:
				return []byte("\x00\xff\xfe{}")
			}
		}
		for i := 0; i < c.N; i++ {
			var body []byte
			kind := "mutated"
			if c.R.Intn(5) == 0 {
				body = garbage()
				kind = "garbage"
			} else {
				body = []byte(mutate(valid[c.R.Intn(len(valid))]))
			}
			ctype := "application/json"
			if c.R.Intn(20) == 0 {
				ctype = "text/plain"
			}
			desc := fmt.Sprintf("%s len=%d %.160q", kind, len(body), string(body))
			fmt.Println("REQ " + desc)
			os.Stdout.Sync()
			code, resp, p := post(body, ctype)
			if p != "" {
				c.Fail("C18: the JSON-RPC server panicked on request [%s]: %s", desc, p)
				return
			}
			class := "http-error"
			if code == 200 {
				t := strings.TrimSpace(resp)
				switch {
				case t == "":
					class = "empty"
				case json.Valid([]byte(t)) && (strings.Contains(t, `"error"`) || strings.Contains(t, `"result"`)):
					class = "jsonrpc-response"
					if strings.Contains(t, `"error"`) {
						class = "jsonrpc-error"
					}
				default:
					class = "other"
					c.Fail("C18: the JSON-RPC server answered request [%s] with something that is neither a result nor an error object: %.200s", desc, t)
				}
			}
			c.Hit("server-" + class)
			if i%5 == 0 && !healthy(desc) {
				return
			}
		}
		healthy("end")
	}()
}
