package main

import (
	"bufio"
	"bytes"
	"fmt"
	"io"
	"math/rand"
	"os"
	"os/exec"
	"strings"

	g "github.com/zenon-network/go-zenon/chain/genesis/mock"
	"github.com/zenon-network/go-zenon/rpc/api/embedded"
	rpcserver "github.com/zenon-network/go-zenon/rpc/server"
)

// ---------------------------------------------------------------------------------------------------
// rpcserver stream (C18, runtime clause — supporting evidence, no model): the real JSON-RPC server (rpc/server) with the
// ledger and embedded APIs registered, driven with malformed, oversized, deeply nested, wrongly typed, batched and
// hostile requests over EVERY transport the server offers (s_rpcserver_transports.go): its HTTP handler called
// in-process, a real net/http server, the WebSocket handler, a unix-socket listener (Server.ServeListener, the IPC
// endpoint) and Server.ServeCodec on an in-process pipe. Monitors: no transport lets a panic out or drops a request;
// every JSON request that asks for an answer gets exactly one well-formed JSON-RPC response object (batches: one array
// with one response per element that is not a notification, ids echoed in order), notifications get none; malformed
// text gets an error response, an HTTP error status or — on a stream — a closed connection; after every hostile request
// the same connection (stream) / the server (HTTP) still answers a valid request correctly; the process survives.
// ---------------------------------------------------------------------------------------------------

func init() {
	// the server runs in a CHILD process: a panic outside the server's own recover (e.g. while decoding parameters on a
	// connection goroutine) terminates that process, which is exactly what the property forbids; the parent reports the
	// request that was being served
	register("rpcserver", func(c *Ctx) {
		cmd := exec.Command(os.Args[0], "rpcserver-child", fmt.Sprint(c.Seed), fmt.Sprint(c.N))
		last := "<none>"
		finished := false
		// the child's output is read line by line while it runs (the rpc-req lines of a thorough run are some hundred MB)
		pipe, err := cmd.StdoutPipe()
		if err == nil {
			err = cmd.Start()
		}
		if err == nil {
			sc := bufio.NewScanner(pipe)
			sc.Buffer(make([]byte, 1<<20), 1<<28)
			for sc.Scan() {
				line := sc.Text()
				switch {
				case strings.HasPrefix(line, "REQ "):
					last = line[4:]
				case strings.HasPrefix(line, "HIT "):
					c.Hit(line[4:])
				case strings.HasPrefix(line, "FAIL "):
					c.Fail("%s", line[5:])
				case strings.HasPrefix(line, "LINE "):
					// one structured request with the shape of the real server's answer: recomputed by the Lean dispatch model
					c.Emit(line[5:])
				case line == "CHILD-FINISHED":
					finished = true
				}
			}
			io.Copy(io.Discard, pipe)
			err = cmd.Wait()
		}
		if err != nil || !finished {
			c.Fail("C18: the JSON-RPC server process terminated (%v) while serving the request [%s]", err, last)
			return
		}
		c.Emit("rpcserver-survived | ok")
	})
}

// flushChildFails prints the monitor failures not yet handed to the parent (at once: a later request may kill the process)
var childFailsPrinted int

func flushChildFails(c *Ctx) {
	for ; childFailsPrinted < len(c.Fails); childFailsPrinted++ {
		fmt.Println("FAIL " + c.Fails[childFailsPrinted])
	}
	os.Stdout.Sync()
}

func rpcServerChild(seed int64, nreq int) {
	c := &Ctx{R: rand.New(rand.NewSource(seed)), Seed: seed, N: nreq, w: bufio.NewWriter(io.Discard), Stats: map[string]int{}}
	defer func() {
		for k, v := range c.Stats {
			for i := 0; i < v; i++ {
				fmt.Println("HIT " + k)
			}
		}
		flushChildFails(c)
		fmt.Println("CHILD-FINISHED")
		os.Stdout.Sync()
	}()
	func() {
		n := NewNode()
		defer n.Stop()
		produceTraffic(c, n, 40)
		srv := rpcserver.NewServer()
		defer srv.Stop()
		must := func(err error) {
			if err != nil {
				c.Fail("rpcserver: register: %v", err)
			}
		}
		// every service of rpc.GetApis("ledger", "embedded") — the registry that f_rpcserver.go describes to the Lean model
		for _, a := range rpcServedApis(n.Z) {
			svc := a.Service
			if a.Namespace == "embedded.pillar" {
				svc = embedded.NewPillarApi(n.Z, true) // synchronous weights (the node's variant refreshes them in the background)
			}
			must(srv.RegisterName(a.Namespace, svc))
		}
		registry, err := rpcRegistryFacts()
		must(err)

		H := n.Height()
		fmo, _ := n.Chain().GetFrontierMomentumStore().GetFrontierMomentum()
		frontierHash := fmo.Hash.String()
		ts := newRpcTransports(c, srv, H)
		defer ts.closeAll()
		if !ts.allHealthy("startup") {
			return
		}
		// the request-size family (s_rpcserver_oversize.go): requests around the advertised limit, with and without an
		// announced length, on both HTTP transports - every run
		if !rpcOversize(ts, seed) {
			return
		}
		addr := g.User1.Address.String()
		valid := []string{
			`{"jsonrpc":"2.0","id":1,"method":"ledger.getMomentumsByPage","params":[0,10]}`,
			`{"jsonrpc":"2.0","id":2,"method":"ledger.getAccountBlocksByPage","params":["` + addr + `",0,5]}`,
			`{"jsonrpc":"2.0","id":3,"method":"ledger.getAccountInfoByAddress","params":["` + addr + `"]}`,
			`{"jsonrpc":"2.0","id":4,"method":"embedded.token.getAll","params":[0,10]}`,
			`{"jsonrpc":"2.0","id":5,"method":"embedded.pillar.getAll","params":[0,10]}`,
			`{"jsonrpc":"2.0","id":6,"method":"ledger.getMomentumsByHeight","params":[1,3]}`,
			`{"jsonrpc":"2.0","id":8,"method":"ledger.getMomentumByHash","params":["` + frontierHash + `"]}`,
			`{"jsonrpc":"2.0","id":9,"method":"ledger.getAccountBlockByHash","params":["` + frontierHash + `"]}`,
		}
		hexOf := func(k int) string {
			b := make([]byte, k)
			for i := range b {
				b[i] = "0123456789abcdef"[c.R.Intn(16)]
			}
			return string(b)
		}
		mutate := func(s string) string {
			b := []byte(s)
			switch c.R.Intn(18) {
			case 0:
				return s[:c.R.Intn(len(s))] // truncated
			case 1:
				b[c.R.Intn(len(b))] ^= byte(1 << uint(c.R.Intn(8)))
				return string(b)
			case 2:
				return strings.Repeat("[", 1+c.R.Intn(20000)) + s + strings.Repeat("]", c.R.Intn(3))
			case 3:
				return strings.Replace(s, `"params":[`, `"params":[`+strings.Repeat(`{"a":`, 3000)+`1`+strings.Repeat(`}`, 3000)+`,`, 1)
			case 4:
				return strings.Replace(s, "0,", "-1,", 1)
			case 5:
				return strings.Replace(s, "0,", "18446744073709551616,", 1)
			case 6:
				return strings.Replace(s, "0,", `"0",`, 1)
			case 7:
				return strings.Replace(s, "0,", "1e400,", 1)
			case 8:
				return "[" + strings.Repeat(s+",", 1+c.R.Intn(300)) + s + "]" // batch
			case 9:
				return "[]"
			case 10:
				return strings.Replace(s, `"method":"`, `"method":"nosuch.`, 1)
			case 11:
				return strings.Replace(s, addr, "z1"+strings.Repeat("q", c.R.Intn(60)), 1)
			case 12:
				return strings.Replace(s, `"params":[`, `"params":[null,`, 1)
			case 13:
				return strings.Replace(s, `"id":`, `"id":{"x":[1,2,{"y":null}]},"idx":`, 1)
			default:
				// hash parameters of every length around 64 hex characters, and much longer
				k := []int{0, 1, 2, 62, 63, 64, 65, 66, 67, 68, 96, 128, 129, 1000, 100000}[c.R.Intn(15)]
				return strings.Replace(s, frontierHash, hexOf(k), 1)
			}
		}
		garbage := func() []byte {
			switch c.R.Intn(5) {
			case 0:
				b := make([]byte, c.R.Intn(400))
				c.R.Read(b)
				return b
			case 1:
				return []byte(strings.Repeat("{", 100000))
			case 2:
				return bytes.Repeat([]byte(`{"jsonrpc":"2.0","id":1,"method":"ledger.getFrontierMomentum","params":[]}`), 50)
			case 3:
				return append([]byte(`{"jsonrpc":"2.0","id":1,"method":"ledger.getAccountBlocksByPage","params":["`), append(bytes.Repeat([]byte("z"), 6*1024*1024), []byte(`",0,1]}`)...)...)
			default:
				return []byte("\x00\xff\xfe{}")
			}
		}
		sb := &batchGen{c: c, valid: valid, addr: addr, registry: registry}
		for i := 0; i < c.N; i++ {
			var body []byte
			kind := "mutated"
			switch x := c.R.Intn(10); {
			case x < 2:
				body = garbage()
				kind = "garbage"
			case x < 7:
				body = []byte(mutate(valid[c.R.Intn(len(valid))]))
			default:
				// structured single / batch hostility: the same body over EVERY transport
				body = sb.next()
				for _, t := range ts.list {
					if !ts.exchange(t, "structured", body, "application/json") {
						return
					}
				}
				continue
			}
			ctype := "application/json"
			if c.R.Intn(20) == 0 {
				ctype = "text/plain"
			}
			// mutated / garbage requests: the transports in turn
			t := ts.list[i%len(ts.list)]
			if !ts.exchange(t, kind, body, ctype) {
				return
			}
		}
		ts.allHealthy("end")
	}()
}
