package main

import (
	"bytes"
	"encoding/json"
	"fmt"
	"net/http"
	"net/http/httptest"
	"strings"

	g "github.com/zenon-network/go-zenon/chain/genesis/mock"
	"github.com/zenon-network/go-zenon/rpc/api"
	"github.com/zenon-network/go-zenon/rpc/api/embedded"
	rpcserver "github.com/zenon-network/go-zenon/rpc/server"
)

// ---------------------------------------------------------------------------------------------------
// rpcserver stream (C18, runtime clause — supporting evidence, no model): the real JSON-RPC server (rpc/server) with the
// ledger and embedded APIs registered, driven through its HTTP handler in-process with malformed, oversized, deeply
// nested, wrongly typed, batched and hostile requests. Monitor: the handler never panics out, every answer to a
// JSON request is a JSON-RPC response (result or error object) or an HTTP error status, and the server keeps
// answering a valid request correctly after every hostile one.
// ---------------------------------------------------------------------------------------------------

func init() {
	register("rpcserver", func(c *Ctx) {
		n := NewNode()
		defer n.Stop()
		produceTraffic(c, n, 40)
		srv := rpcserver.NewServer()
		defer srv.Stop()
		must := func(err error) {
			if err != nil {
				c.Fail("rpcserver: register: %v", err)
			}
		}
		must(srv.RegisterName("ledger", api.NewLedgerApi(n.Z)))
		must(srv.RegisterName("embedded.token", embedded.NewTokenApi(n.Z)))
		must(srv.RegisterName("embedded.pillar", embedded.NewPillarApi(n.Z, false)))
		must(srv.RegisterName("embedded.plasma", embedded.NewPlasmaApi(n.Z)))
		must(srv.RegisterName("embedded.stake", embedded.NewStakeApi(n.Z)))

		post := func(body []byte, ctype string) (code int, resp string, panicked string) {
			panicked = safely(func() {
				req := httptest.NewRequest(http.MethodPost, "/", bytes.NewReader(body))
				req.Header.Set("Content-Type", ctype)
				w := httptest.NewRecorder()
				srv.ServeHTTP(w, req)
				code = w.Code
				resp = w.Body.String()
			})
			return
		}
		H := n.Height()
		healthy := func(after string) bool {
			code, resp, p := post([]byte(`{"jsonrpc":"2.0","id":7,"method":"ledger.getFrontierMomentum","params":[]}`), "application/json")
			var out struct {
				Result struct {
					Height uint64 `json:"height"`
				} `json:"result"`
			}
			if p != "" || code != 200 || json.Unmarshal([]byte(resp), &out) != nil || out.Result.Height != H {
				c.Fail("C18: after the request [%s] the server no longer answers ledger.getFrontierMomentum correctly (code=%d panic=%q body=%.120s)", after, code, p, resp)
				return false
			}
			return true
		}
		if !healthy("startup") {
			return
		}
		addr := g.User1.Address.String()
		valid := []string{
			`{"jsonrpc":"2.0","id":1,"method":"ledger.getMomentumsByPage","params":[0,10]}`,
			`{"jsonrpc":"2.0","id":2,"method":"ledger.getAccountBlocksByPage","params":["` + addr + `",0,5]}`,
			`{"jsonrpc":"2.0","id":3,"method":"ledger.getAccountInfoByAddress","params":["` + addr + `"]}`,
			`{"jsonrpc":"2.0","id":4,"method":"embedded.token.getAll","params":[0,10]}`,
			`{"jsonrpc":"2.0","id":5,"method":"embedded.pillar.getAll","params":[0,10]}`,
			`{"jsonrpc":"2.0","id":6,"method":"ledger.getMomentumsByHeight","params":[1,3]}`,
		}
		mutate := func(s string) string {
			b := []byte(s)
			switch c.R.Intn(14) {
			case 0:
				return s[:c.R.Intn(len(s))] // truncated
			case 1:
				b[c.R.Intn(len(b))] ^= byte(1 << uint(c.R.Intn(8)))
				return string(b)
			case 2:
				return strings.Repeat("[", 1+c.R.Intn(20000)) + s + strings.Repeat("]", c.R.Intn(3))
			case 3:
				return strings.Replace(s, `"params":[`, `"params":[`+strings.Repeat(`{"a":`, 3000)+`1`+strings.Repeat(`}`, 3000)+`,`, 1)
			case 4:
				return strings.Replace(s, "0,", "-1,", 1)
			case 5:
				return strings.Replace(s, "0,", "18446744073709551616,", 1)
			case 6:
				return strings.Replace(s, "0,", `"0",`, 1)
			case 7:
				return strings.Replace(s, "0,", "1e400,", 1)
			case 8:
				return "[" + strings.Repeat(s+",", 1+c.R.Intn(300)) + s + "]" // batch
			case 9:
				return "[]"
			case 10:
				return strings.Replace(s, `"method":"`, `"method":"nosuch.`, 1)
			case 11:
				return strings.Replace(s, addr, "z1"+strings.Repeat("q", c.R.Intn(60)), 1)
			case 12:
				return strings.Replace(s, `"params":[`, `"params":[null,`, 1)
			default:
				return strings.Replace(s, `"id":`, `"id":{"x":[1,2,{"y":null}]},"idx":`, 1)
			}
		}
		garbage := func() []byte {
			switch c.R.Intn(5) {
			case 0:
				b := make([]byte, c.R.Intn(400))
				c.R.Read(b)
				return b
			case 1:
				return []byte(strings.Repeat("{", 100000))
			case 2:
				return bytes.Repeat([]byte(`{"jsonrpc":"2.0","id":1,"method":"ledger.getFrontierMomentum","params":[]}`), 50)
			case 3:
				return append([]byte(`{"jsonrpc":"2.0","id":1,"method":"ledger.getAccountBlocksByPage","params":["`), append(bytes.Repeat([]byte("z"), 6*1024*1024), []byte(`",0,1]}`)...)...)
			default:
				return []byte("\x00\xff\xfe{}")
			}
		}
		for i := 0; i < c.N; i++ {
			var body []byte
			kind := "mutated"
			if c.R.Intn(5) == 0 {
				body = garbage()
				kind = "garbage"
			} else {
				body = []byte(mutate(valid[c.R.Intn(len(valid))]))
			}
			ctype := "application/json"
			if c.R.Intn(20) == 0 {
				ctype = "text/plain"
			}
			code, resp, p := post(body, ctype)
			desc := fmt.Sprintf("%s len=%d %.60q", kind, len(body), string(body))
			if p != "" {
				c.Fail("C18: the JSON-RPC server panicked on request [%s]: %s", desc, p)
				return
			}
			class := "http-error"
			if code == 200 {
				t := strings.TrimSpace(resp)
				switch {
				case t == "":
					class = "empty"
				case json.Valid([]byte(t)) && (strings.Contains(t, `"error"`) || strings.Contains(t, `"result"`)):
					class = "jsonrpc-response"
					if strings.Contains(t, `"error"`) {
						class = "jsonrpc-error"
					}
				default:
					class = "other"
					c.Fail("C18: the JSON-RPC server answered request [%s] with something that is neither a result nor an error object: %.200s", desc, t)
				}
			}
			c.Hit("server-" + class)
			if i%5 == 0 && !healthy(desc) {
				return
			}
		}
		healthy("end")
		c.Emit("rpcserver-survived | ok")
	})
}
