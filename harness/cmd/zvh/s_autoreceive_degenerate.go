package main

import (
	"fmt"
	"math/big"
	"sort"
	"strings"
	"time"

	g "github.com/zenon-network/go-zenon/chain/genesis/mock"
	"github.com/zenon-network/go-zenon/chain/nom"
	"github.com/zenon-network/go-zenon/common/types"
	"github.com/zenon-network/go-zenon/consensus"
	"github.com/zenon-network/go-zenon/vm/constants"
	"github.com/zenon-network/go-zenon/vm/embedded/definition"
	"github.com/zenon-network/go-zenon/vm/embedded/implementation"
	"github.com/zenon-network/go-zenon/vm/vm_context"
)

// ---------------------------------------------------------------------------------------------------
// scenario "degenerate-epochs" of the autoreceive stream (C09, quantifier "in all contract states reachable by valid
// histories"): the periodic Update calls of the pillar, sentinel, stake, liquidity and accelerator contracts distribute
// the rewards of whole epochs; their arithmetic divides by totals over the participants of the epoch. The scenario builds,
// with ordinary user operations only, registries whose participants are degenerate and keeps each of them for whole epochs
// of the compressed calendar, the producer path of s_autoreceive.go (and its monitors) running all the time:
//
//   A  a pillar whose only backer owns no ZNN (its owner undelegates, the remaining delegator moves its coins away but
//      stays delegated); a pillar with weighted and weightless backers side by side; a pillar registered in the middle of an
//      epoch whose producer address never produces (zero produced momentums); a sentinel registered in the middle of an
//      epoch (the only one: uptime below the threshold = every sentinel weighs 0)
//   B  a pillar without any backer; a pillar whose only backer owns 1 base unit
//   C  nobody delegates at all: the total weight of the epoch is 0
//   D  the only sentinel, the only stake and the only liquidity stake are revoked / cancelled: epochs whose entries are all
//      revoked, then epochs without entries
//   E  a pillar is revoked while accounts still delegate to it; delegation to a name that is no longer active
//
// After each phase the participants collect their rewards (CollectReward sends a mint request to the token contract:
// contract-to-contract calls in the same states). Coverage counters say which states were really reached (read back from
// the consensus layer: GetPillarDelegationsByEpoch / EpochStats of the completed epochs).
// ---------------------------------------------------------------------------------------------------

type arDegenerate struct {
	w   *arWorld
	nth int
}

func (d *arDegenerate) call(from, to types.Address, method string, tok types.ZenonTokenStandard, amount *big.Int, args ...interface{}) *nom.AccountBlock {
	w := d.w
	r := w.r
	if r.failed {
		return nil
	}
	if amount == nil {
		amount = big.NewInt(0)
	}
	call := w.pack(to, method, &arSpec{from: from, tok: tok, amount: amount, args: args}, "degenerate")
	if call == nil {
		return nil
	}
	d.nth++
	return r.deliver(call, []string{"tpl", "ext"}[d.nth%2])
}

// transfer: a plain send between user accounts, received at once after the next momentum by the caller (receiveAll)
func (d *arDegenerate) transfer(from, to types.Address, tok types.ZenonTokenStandard, amount *big.Int) bool {
	r := d.w.r
	if amount.Sign() == 0 {
		return true
	}
	_, err := r.n.Submit(&nom.AccountBlock{BlockType: nom.BlockTypeUserSend, Address: from, ToAddress: to, TokenStandard: tok, Amount: new(big.Int).Set(amount)})
	if err != nil {
		r.c.Hit("degenerate-transfer-rejected")
		return false
	}
	return true
}

func (d *arDegenerate) steps(k int) bool {
	for i := 0; i < k; i++ {
		if !d.w.r.step() {
			return false
		}
	}
	return true
}

func (d *arDegenerate) znn(a types.Address) *big.Int {
	b, err := d.w.r.n.Chain().GetFrontierAccountStore(a).GetBalance(types.ZnnTokenStandard)
	if err != nil || b == nil {
		return big.NewInt(0)
	}
	return b
}

func (d *arDegenerate) frontier() *nom.Momentum {
	m, err := d.w.r.n.Chain().GetFrontierMomentumStore().GetFrontierMomentum()
	if err != nil {
		return nil
	}
	return m
}

// epochs lets k epochs pass: one jump of an epoch's length, then enough momentums for the next Update to be due
func (d *arDegenerate) epochs(k int) bool {
	r := d.w.r
	for i := 0; i < k; i++ {
		r.jumpSec = int64(consensus.EpochDuration / time.Second)
		if !d.steps(int(constants.UpdateMinNumMomentums) + 1) {
			return false
		}
		d.observe()
	}
	return true
}

// observe: which degenerate states did the last completed epoch really have (coverage only)
func (d *arDegenerate) observe() {
	r := d.w.r
	c := r.c
	ch := r.n.Chain()
	if p := safely(func() {
		ms := ch.GetFrontierMomentumStore()
		fm, err := ms.GetFrontierMomentum()
		if err != nil {
			return
		}
		ctx := vm_context.NewAccountContext(ms, ch.GetFrontierAccountStore(types.PillarContract), r.n.Z.Consensus().FixedPillarReader(fm.Identifier()))
		cur := ctx.EpochTicker().ToTick(*fm.Timestamp)
		if cur == 0 {
			return
		}
		e := cur - 1
		details, err := ctx.GetPillarDelegationsByEpoch(e)
		if err == nil {
			total := big.NewInt(0)
			for _, pd := range details {
				sum := big.NewInt(0)
				zero := 0
				for _, a := range pd.Backers {
					sum.Add(sum, a)
					if a.Sign() == 0 {
						zero++
					}
				}
				total.Add(total, sum)
				switch {
				case len(pd.Backers) == 0:
					c.Hit("degenerate-state epoch with a pillar without backers")
				case sum.Sign() == 0:
					c.Hit("degenerate-state epoch with a pillar whose backers all weigh 0")
				case zero > 0:
					c.Hit("degenerate-state epoch with a pillar with weightless and weighted backers")
				case len(pd.Backers) == 1:
					c.Hit("degenerate-state epoch with a pillar with a single weighted backer")
				}
			}
			if total.Sign() == 0 {
				c.Hit("degenerate-state epoch with total delegated weight 0")
			}
		}
		if st, err := ctx.EpochStats(e); err == nil && st != nil {
			for _, ps := range st.Pillars {
				if ps.BlockNum == 0 && ps.ExceptedBlockNum > 0 {
					c.Hit("degenerate-state epoch with a pillar that produced 0 of its expected momentums")
				}
				if ps.ExceptedBlockNum == 0 {
					c.Hit("degenerate-state epoch with a pillar that was expected to produce 0 momentums")
				}
			}
			if st.TotalWeight != nil && st.TotalWeight.Sign() == 0 {
				c.Hit("degenerate-state epoch stats with total weight 0")
			}
		}
		if le, err := definition.GetLastEpochUpdate(ch.GetFrontierAccountStore(types.PillarContract).Storage()); err == nil {
			c.Hit(fmt.Sprintf("degenerate-pillar-contract-rewarded-up-to-epoch-%d-of-%d", le.LastEpoch, cur))
		}
	}); p != "" {
		c.Hit("degenerate-observe-panicked")
	}
}

func (d *arDegenerate) collectAll() bool {
	r := d.w.r
	for _, ca := range []types.Address{types.PillarContract, types.SentinelContract, types.StakeContract, types.LiquidityContract} {
		for _, a := range []types.Address{g.Pillar1.Address, g.Pillar2.Address, g.Pillar3.Address, g.Pillar5.Address, g.User1.Address, g.User2.Address, g.User3.Address, g.User4.Address, g.User7.Address} {
			if ca == types.LiquidityContract && r.regime < 2 {
				continue
			}
			d.call(a, ca, "CollectReward", types.ZnnTokenStandard, nil)
			if r.failed {
				return false
			}
		}
		if !d.steps(1) {
			return false
		}
	}
	for _, a := range []types.Address{g.User1.Address, g.User2.Address, g.User3.Address, g.User4.Address} {
		d.w.receiveAll(a)
	}
	return d.steps(2)
}

func (w *arWorld) runDegenerateEpochs() {
	r := w.r
	c := r.c
	d := &arDegenerate{w: w}
	r.stateNote = d.registryNote
	defer func() { r.stateNote = nil }()
	znn := types.ZnnTokenStandard
	P := types.PillarContract
	u1, u2, u3, u4, u5, u6 := g.User1.Address, g.User2.Address, g.User3.Address, g.User4.Address, g.User5.Address, g.User6.Address

	// ---- A: weightless backers
	d.call(g.Pillar2.Address, P, "Undelegate", znn, nil)
	d.call(u2, P, "Undelegate", znn, nil) // (the set-up made User2 delegate to Pillar2)
	d.transfer(u3, u6, znn, d.znn(u3))    // stays delegated to Pillar2, owns nothing
	d.transfer(u4, u6, znn, d.znn(u4))    // Pillar3: Pillar3 + User5 weighted, User4 weightless
	var keyless types.Address
	c.R.Read(keyless[:])
	keyless[0] = types.UserAddrByte
	newPillar := w.name("idle")
	d.call(g.Pillar4.Address, P, "Register", znn, new(big.Int).Set(constants.PillarStakeAmount), newPillar, keyless, g.User7.Address, uint8(50), uint8(50))
	d.call(g.Pillar5.Address, types.SentinelContract, "Register", znn, new(big.Int).Set(constants.SentinelZnnRegisterAmount))
	if !d.steps(2) {
		return
	}
	w.receiveAll(u6)
	d.call(u6, P, "Delegate", znn, nil, newPillar) // (needs plasma: refused at send time when User6 has none; counted)
	if !d.epochs(4) || !d.collectAll() {
		return
	}
	c.Hit("degenerate-phase-A-done")

	// ---- B: no backers at all / a backer with one base unit
	d.call(u3, P, "Undelegate", znn, nil)
	d.call(g.Pillar3.Address, P, "Undelegate", znn, nil)
	d.call(u5, P, "Undelegate", znn, nil)
	d.transfer(u5, u4, znn, big.NewInt(1))
	if !d.steps(2) {
		return
	}
	w.receiveAll(u4)
	if !d.epochs(3) || !d.collectAll() {
		return
	}
	c.Hit("degenerate-phase-B-done")

	// ---- C: nobody delegates: total weight 0
	d.call(g.Pillar1.Address, P, "Undelegate", znn, nil)
	d.call(u1, P, "Undelegate", znn, nil)
	d.call(u4, P, "Undelegate", znn, nil)
	d.call(u6, P, "Undelegate", znn, nil)
	if !d.epochs(3) || !d.collectAll() {
		return
	}
	c.Hit("degenerate-phase-C-done")

	// ---- D: the only sentinel / stake / liquidity stake end
	d.call(u1, P, "Delegate", znn, nil, g.Pillar1Name)
	d.call(u5, P, "Delegate", znn, nil, g.Pillar3Name)
	if fm := d.frontier(); fm != nil {
		if si := definition.GetSentinelInfoByOwner(r.n.Chain().GetFrontierAccountStore(types.SentinelContract).Storage(), g.Pillar5.Address); si != nil {
			if ok, wait := implementation.GetSentinelRevokeStatus(si.RegistrationTimestamp, fm); !ok {
				r.jumpSec = wait + 600
			}
			c.Hit("degenerate-sentinel-registered")
		}
	}
	if !d.steps(2) {
		return
	}
	d.call(g.Pillar5.Address, types.SentinelContract, "Revoke", znn, nil)
	if !d.steps(2) {
		return
	}
	// stakes of one period are over after 30 "days" of the compressed calendar
	r.jumpSec = constants.StakeTimeMinSec
	if !d.steps(2) {
		return
	}
	for _, id := range w.stakeIds {
		d.call(u2, types.StakeContract, "Cancel", znn, nil, id)
	}
	for _, id := range w.liqStakeIds {
		d.call(u1, types.LiquidityContract, "CancelLiquidityStake", znn, nil, id)
	}
	if !d.epochs(4) || !d.collectAll() {
		return
	}
	c.Hit("degenerate-phase-D-done")

	// ---- E: a pillar is revoked while accounts delegate to it
	if fm := d.frontier(); fm != nil {
		if pi, err := definition.GetPillarInfo(r.n.Chain().GetFrontierAccountStore(P).Storage(), g.Pillar3Name); err == nil && pi != nil {
			if ok, wait := implementation.PillarGetRevokeStatus(pi, fm); !ok {
				r.jumpSec = wait + 600
			}
		}
	}
	if !d.steps(2) {
		return
	}
	d.call(g.Pillar3.Address, P, "Revoke", znn, nil, g.Pillar3Name)
	if !d.steps(2) {
		return
	}
	d.call(u4, P, "Delegate", znn, nil, g.Pillar3Name) // a name that is no longer active
	d.call(g.Pillar4.Address, P, "UpdatePillar", znn, nil, newPillar, keyless, g.User7.Address, uint8(0), uint8(100))
	if !d.epochs(4) || !d.collectAll() {
		return
	}
	c.Hit("degenerate-phase-E-done")
}

// registryNote: the participants the reward arithmetic of the next Update meets (pillars with their backers' balances,
// sentinels, stakes), for the failure message
func (d *arDegenerate) registryNote() string {
	n := d.w.r.n
	ch := n.Chain()
	out := ""
	if dl, err := ch.GetFrontierMomentumStore().ComputePillarDelegations(); err == nil {
		// the most degenerate first (the failure line is cut after a few hundred characters)
		rank := func(pd *types.PillarDelegationDetail) int {
			sum := big.NewInt(0)
			for _, b := range pd.Backers {
				sum.Add(sum, b)
			}
			switch {
			case len(pd.Backers) > 0 && sum.Sign() == 0:
				return 0
			case len(pd.Backers) == 0:
				return 1
			}
			return 2
		}
		sort.SliceStable(dl, func(i, j int) bool { return rank(dl[i]) < rank(dl[j]) })
		for _, pd := range dl {
			out += fmt.Sprintf("pillar %s backers=[", pd.Name)
			var parts []string
			for a, b := range pd.Backers {
				parts = append(parts, addrName(a)+":"+b.String())
			}
			sort.Strings(parts)
			out += strings.Join(parts, " ") + "] "
		}
	}
	sl := definition.GetAllSentinelInfo(ch.GetFrontierAccountStore(types.SentinelContract).Storage())
	out += fmt.Sprintf("sentinels=%d", len(sl))
	for _, s := range sl {
		if s.RevokeTimestamp != 0 {
			out += " (one revoked)"
		}
	}
	if fm := d.frontier(); fm != nil {
		out += fmt.Sprintf(" frontier-time=%d", fm.Timestamp.Unix())
	}
	return out
}
