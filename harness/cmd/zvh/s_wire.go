package main

// Streams `frame` and `disc` (C15, monitors only — no model): the RLPx frame reader and the discovery packet
// decoder on mutated valid inputs. The sentence checked: a corrupted, truncated or re-ordered frame / a
// malformed packet is rejected with an error — never a panic, never delivered as a message, and a frame
// whose header does not authenticate makes the reader allocate nothing beyond the 32 header bytes.

import (
	"bytes"
	"crypto/ecdsa"
	"fmt"
	"io"
	"time"

	"github.com/ethereum/go-ethereum/crypto"
	"golang.org/x/crypto/sha3"

	"github.com/zenon-network/go-zenon/p2p"
	"github.com/zenon-network/go-zenon/p2p/discover"
)

type countingReader struct {
	r io.Reader
	n int
}

func (c *countingReader) Read(p []byte) (int, error) {
	n, err := c.r.Read(p)
	c.n += n
	return n, err
}

type rwPair struct {
	io.Reader
	io.Writer
}

func encodeFrames(seed []byte, msgs [][2]interface{}) ([]byte, []int) {
	aes := crypto.Keccak256(seed, []byte("aes"))
	mac := crypto.Keccak256(seed, []byte("mac"))
	eg := sha3.NewLegacyKeccak256()
	eg.Write(crypto.Keccak256(seed, []byte("seed")))
	var buf bytes.Buffer
	w := p2p.NewFrameRWVerif(rwPair{Reader: bytes.NewReader(nil), Writer: &buf}, aes, mac, eg, sha3.NewLegacyKeccak256())
	var ends []int
	for _, m := range msgs {
		pay := m[1].([]byte)
		if err := w.WriteMsg(p2p.Msg{Code: m[0].(uint64), Size: uint32(len(pay)), Payload: bytes.NewReader(pay)}); err != nil {
			panic(err)
		}
		ends = append(ends, buf.Len())
	}
	return buf.Bytes(), ends
}

type frameRead struct {
	code    uint64
	payload []byte
	err     error
	pn      interface{}
	read    int
}

func readFrames(seed []byte, wire []byte, max int) (out []frameRead) {
	aes := crypto.Keccak256(seed, []byte("aes"))
	mac := crypto.Keccak256(seed, []byte("mac"))
	in := sha3.NewLegacyKeccak256()
	in.Write(crypto.Keccak256(seed, []byte("seed")))
	cr := &countingReader{r: bytes.NewReader(wire)}
	r := p2p.NewFrameRWVerif(rwPair{Reader: cr, Writer: io.Discard}, aes, mac, sha3.NewLegacyKeccak256(), in)
	for i := 0; i < max; i++ {
		var fr frameRead
		before := cr.n
		func() {
			defer func() {
				if p := recover(); p != nil {
					fr.pn = p
				}
			}()
			m, err := r.ReadMsg()
			fr.err = err
			if err == nil {
				fr.code = m.Code
				fr.payload, _ = io.ReadAll(m.Payload)
			}
		}()
		fr.read = cr.n - before
		out = append(out, fr)
		if fr.err != nil || fr.pn != nil {
			break
		}
	}
	return out
}

func init() {
	register("frame", func(c *Ctx) {
		for i := 0; i < c.N; i++ {
			seed := make([]byte, 16)
			c.R.Read(seed)
			nm := 1 + c.R.Intn(3)
			var msgs [][2]interface{}
			for j := 0; j < nm; j++ {
				sizes := []int{0, 1, 13, 14, 15, 16, 17, 31, 32, 100, 1000, 5000}
				pay := make([]byte, sizes[c.R.Intn(len(sizes))])
				c.R.Read(pay)
				code := []uint64{0, 1, 8, 16, 127, 128, 1 << 20, 1<<63 + 5}[c.R.Intn(8)]
				msgs = append(msgs, [2]interface{}{code, pay})
			}
			wire, ends := encodeFrames(seed, msgs)
			// sanity: unmutated frames read back exactly
			if i%50 == 0 {
				got := readFrames(seed, wire, nm)
				ok := len(got) == nm
				for j := 0; ok && j < nm; j++ {
					ok = got[j].err == nil && got[j].code == msgs[j][0].(uint64) && bytes.Equal(got[j].payload, msgs[j][1].([]byte))
				}
				if !ok {
					c.Fail("C15 frame: valid frames are not read back (harness or rlpx defect), seed %x", seed)
				}
				c.Hit("roundtrip")
			}
			mut := append([]byte{}, wire...)
			kind := ""
			firstBad := 0 // index of the first frame touched by the mutation
			frameOf := func(pos int) int {
				for j, e := range ends {
					if pos < e {
						return j
					}
				}
				return len(ends) - 1
			}
			switch k := c.R.Intn(100); {
			case k < 45:
				pos := c.R.Intn(len(mut))
				mut[pos] ^= 1 << uint(c.R.Intn(8))
				firstBad = frameOf(pos)
				start := 0
				if firstBad > 0 {
					start = ends[firstBad-1]
				}
				switch off := pos - start; {
				case off < 16:
					kind = "flip-header"
				case off < 32:
					kind = "flip-header-mac"
				case pos >= ends[firstBad]-16:
					kind = "flip-frame-mac"
				default:
					kind = "flip-body"
				}
			case k < 65:
				cut := c.R.Intn(len(mut))
				mut = mut[:cut]
				firstBad = frameOf(cut)
				kind = "truncate"
			case k < 75 && nm >= 2:
				// swap the first two frames (re-ordering)
				a, b := wire[:ends[0]], wire[ends[0]:ends[1]]
				mut = append(append(append([]byte{}, b...), a...), wire[ends[1]:]...)
				firstBad = 0
				kind = "reorder"
				if bytes.Equal(a, b) {
					kind = ""
				}
			case k < 85:
				// replay: the first frame twice
				mut = append(append([]byte{}, wire[:ends[0]]...), wire...)
				firstBad = 1
				kind = "replay"
			case k < 92:
				mut = make([]byte, 32+c.R.Intn(100))
				c.R.Read(mut)
				firstBad = 0
				kind = "garbage"
			default:
				// insert a byte
				pos := c.R.Intn(len(mut))
				mut = append(append(append([]byte{}, mut[:pos]...), byte(c.R.Intn(256))), mut[pos:]...)
				firstBad = frameOf(pos)
				kind = "insert"
			}
			if kind == "" {
				continue
			}
			got := readFrames(seed, mut, nm+2)
			c.Hit("mut-" + kind)
			// frames before the first touched one are delivered unchanged; the touched one must be an error
			verdict := "rejected"
			for j, fr := range got {
				if fr.pn != nil {
					c.Fail("C15 frame class=panic ReadMsg panicked (%v) on %s seed %x", firstLine(fmt.Sprint(fr.pn)), kind, seed)
					verdict = "panic"
					break
				}
				if j < firstBad {
					if fr.err != nil {
						// an earlier frame failing is a harness mis-attribution, not a defect
						verdict = "early-error"
						break
					}
					continue
				}
				if fr.err == nil {
					if kind == "replay" && j == firstBad {
						c.Fail("C15 frame class=delivered a replayed frame was delivered as message code %d, seed %x", fr.code, seed)
					} else {
						c.Fail("C15 frame class=delivered a %s frame was delivered as message code %d len %d, seed %x", kind, fr.code, len(fr.payload), seed)
					}
					verdict = "delivered"
				}
				if fr.err != nil && (kind == "flip-header" || kind == "flip-header-mac" || kind == "garbage") && fr.read > 32 {
					c.Fail("C15 frame class=alloc header did not authenticate but %d bytes were read for the frame, kind %s seed %x", fr.read, kind, seed)
				}
				if fr.read > 32+(1<<24)+15+16 {
					c.Fail("C15 frame class=alloc %d bytes read for one frame", fr.read)
				}
				break
			}
			c.Hit("verdict-" + verdict)
			c.Emit("frame %s %d | %s", kind, len(mut), verdict)
		}
	})

	register("disc", func(c *Ctx) {
		var keys []*ecdsa.PrivateKey
		for i := 0; i < 4; i++ {
			k, err := crypto.GenerateKey()
			if err != nil {
				panic(err)
			}
			keys = append(keys, k)
		}
		future := uint64(time.Now().Add(time.Hour).Unix())
		for i := 0; i < c.N; i++ {
			priv := keys[c.R.Intn(len(keys))]
			kind := byte(1 + c.R.Intn(4))
			exp := []uint64{future, 0, 1, 1<<63 - 1, 1 << 63, 1<<64 - 1}[c.R.Intn(6)]
			pkt, err := discover.EncodePacketVerif(priv, kind, exp, c.R.Intn(13))
			if err != nil {
				c.Hit("encode-refused")
				continue
			}
			wantID := discover.PubkeyID(&priv.PublicKey)
			call := func(b []byte) (k byte, id discover.NodeID, err error, pn interface{}) {
				defer func() {
					if p := recover(); p != nil {
						pn = p
					}
				}()
				k, id, _, err = discover.DecodePacketVerif(b)
				return
			}
			if i%20 == 0 {
				k, id, err, pn := call(pkt)
				if pn != nil || err != nil || k != kind || id != wantID {
					c.Fail("C15 disc: a valid packet of kind %d is not decoded back (%v %v)", kind, err, pn)
				}
				c.Hit("roundtrip")
			}
			mut := append([]byte{}, pkt...)
			mk := ""
			switch k := c.R.Intn(100); {
			case k < 40:
				pos := c.R.Intn(len(mut))
				mut[pos] ^= 1 << uint(c.R.Intn(8))
				switch {
				case pos < 32:
					mk = "flip-hash"
				case pos < discover.HeadSizeVerif:
					mk = "flip-sig"
				default:
					mk = "flip-data"
				}
			case k < 60:
				mut = mut[:c.R.Intn(len(mut))]
				mk = "truncate"
			case k < 70:
				mut = make([]byte, c.R.Intn(200))
				c.R.Read(mut)
				mk = "garbage"
			case k < 85:
				// a correctly hashed packet around a corrupted body (an attacker can always recompute the outer hash)
				pos := discover.HeadSizeVerif + c.R.Intn(len(mut)-discover.HeadSizeVerif)
				mut[pos] ^= 1 << uint(c.R.Intn(8))
				copy(mut, crypto.Keccak256(mut[32:]))
				mk = "rehashed-flip-data"
			case k < 93:
				// correctly hashed, random type byte and random body
				nm := make([]byte, discover.HeadSizeVerif+1+c.R.Intn(60))
				copy(nm, mut)
				mut = nm
				c.R.Read(mut[discover.HeadSizeVerif:])
				copy(mut, crypto.Keccak256(mut[32:]))
				mk = "rehashed-garbage"
			default:
				mut = append(mut, make([]byte, 1+c.R.Intn(1200))...)
				mk = "extended"
			}
			k, id, err, pn := call(mut)
			c.Hit("mut-" + mk)
			verdict := "rejected"
			switch {
			case pn != nil:
				verdict = "panic"
				c.Fail("C15 disc class=panic decodePacket panicked (%s) on %s packet %x", firstLine(fmt.Sprint(pn)), mk, mut)
			case err == nil && id == wantID:
				// accepted as coming from the original signer although the bytes were changed
				verdict = "accepted-as-signer"
				c.Fail("C15 disc class=accepted a %s packet (kind %d -> %d) was accepted as signed by the original node: %x", mk, kind, k, mut)
			case err == nil:
				// decodes under some other recovered key: the packet is attributed to a different (random) node id,
				// which is what signature recovery gives for any 65 bytes — not the original signer
				verdict = "other-signer"
			}
			c.Hit("verdict-" + verdict)
			c.Emit("disc %s %d | %s", mk, len(mut), verdict)
		}
	})
}
