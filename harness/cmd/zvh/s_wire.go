package main

// Streams `frame` and `disc` (C15, monitors only — no model): the RLPx frame reader and the discovery packet
// decoder on mutated valid inputs. The sentence checked: a corrupted, truncated or re-ordered frame / a
// malformed packet is rejected with an error — never a panic, never delivered as a message, and a frame
// whose header does not authenticate makes the reader allocate nothing beyond the 32 header bytes.

import (
	"bytes"
	"crypto/ecdsa"
	"fmt"
	"io"
	"time"

	"github.com/ethereum/go-ethereum/crypto"
	"golang.org/x/crypto/sha3"

	"github.com/zenon-network/go-zenon/p2p"
	"github.com/zenon-network/go-zenon/p2p/discover"
)

type countingReader struct {
	r io.Reader
	n int
}

func (c *countingReader) Read(p []byte) (int, error) {
	n, err := c.r.Read(p)
	c.n += n
	return n, err
}

type rwPair struct {
	io.Reader
	io.Writer
}

func encodeFrames(seed []byte, msgs [][2]interface{}) ([]byte, []int) {
	aes := crypto.Keccak256(seed, []byte("aes"))
	mac := crypto.Keccak256(seed, []byte("mac"))
	eg := sha3.NewLegacyKeccak256()
	eg.Write(crypto.Keccak256(seed, []byte("seed")))
	var buf bytes.Buffer
	w := p2p.NewFrameRWVerif(rwPair{Reader: bytes.NewReader(nil), Writer: &buf}, aes, mac, eg, sha3.NewLegacyKeccak256())
	var ends []int
	for _, m := range msgs {
		pay := m[1].([]byte)
		if err := w.WriteMsg(p2p.Msg{Code: m[0].(uint64), Size: uint32(len(pay)), Payload: bytes.NewReader(pay)}); err != nil {
			panic(err)
		}
		ends = append(ends, buf.Len())
	}
	return buf.Bytes(), ends
}

type frameRead struct {
	code    uint64
	payload []byte
	err     error
	pn      interface{}
	read    int
}

func readFrames(seed []byte, wire []byte, max int) (out []frameRead) {
	aes := crypto.Keccak256(seed, []byte("aes"))
	mac := crypto.Keccak256(seed, []byte("mac"))
	in := sha3.NewLegacyKeccak256()
	in.Write(crypto.Keccak256(seed, []byte("seed")))
	cr := &countingReader{r: bytes.NewReader(wire)}
	r := p2p.NewFrameRWVerif(rwPair{Reader: cr, Writer: io.Discard}, aes, mac, sha3.NewLegacyKeccak256(), in)
	for i := 0; i < max; i++ {
		var fr frameRead
		before := cr.n
		func() {
			defer func() {
				if p := recover(); p != nil {
					fr.pn = p
				}
			}()
			m, err := r.ReadMsg()
			fr.err = err
			if err == nil {
				fr.code = m.Code
				fr.payload, _ = io.ReadAll(m.Payload)
			}
		}()
		fr.read = cr.n - before
		out = append(out, fr)
		if fr.err != nil || fr.pn != nil {
			break
		}
	}
	return out
}

// frameSealedCase reads [ordinary frame, the sealed content, ordinary frame] and checks the middle one against the oracle.
func frameSealedCase(c *Ctx, seed []byte, sc sealedCase, headerRest []byte, pad byte) {
	ordinary := append(mustRlp(uint64(7)), []byte("ordinary")...)
	fs := newFrameSealer(seed)
	fs.frame(ordinary, nil, 0)
	fs.frame(sc.payload, headerRest, pad)
	fs.frame(ordinary, nil, 0)
	got := readFrames(seed, fs.buf.Bytes(), 3)
	c.Hit("sealed-" + sc.label)
	desc := fmt.Sprintf("family=%s frame with correct header MAC and frame MAC around a content of %d bytes [%s] (header tail %x, padding byte %#x)",
		sc.label, len(sc.payload), hexHead(sc.payload, 40), headerRest, pad)
	verdict := "rejected"
	wantCode, wantRest, wf := frameOracle(sc.payload)
	switch {
	case len(got) < 2 || got[0].err != nil || got[0].pn != nil:
		c.Fail("C15 frame: the ordinary frame in front of the sealed one is not read back (harness or rlpx defect): %s", desc)
		verdict = "early-error"
	case got[1].pn != nil:
		verdict = "panic"
		c.Fail("C15 frame class=panic ReadMsg panicked (%s) on a %s", firstLine(fmt.Sprint(got[1].pn)), desc)
	case got[1].err == nil && !wf:
		verdict = "delivered-malformed"
		c.Fail("C15 frame class=delivered-malformed ReadMsg delivered message code %d (%d payload bytes) from a content that does not start "+
			"with an RLP unsigned integer: %s", got[1].code, len(got[1].payload), desc)
	case got[1].err == nil && (got[1].code != wantCode || !bytes.Equal(got[1].payload, wantRest)):
		verdict = "delivered-wrong"
		c.Fail("C15 frame class=delivered-wrong ReadMsg delivered code %d payload %x, the content says code %d payload %x: %s", got[1].code,
			got[1].payload, wantCode, wantRest, desc)
	case got[1].err == nil:
		verdict = "delivered"
		// the reader stays in step: the ordinary frame behind it is read back
		if len(got) < 3 || got[2].err != nil || got[2].pn != nil || got[2].code != 7 || !bytes.Equal(got[2].payload, []byte("ordinary")) {
			c.Fail("C15 frame class=out-of-step the frame behind a delivered sealed frame is not read back: %s", desc)
			verdict = "out-of-step"
		}
	}
	c.Hit("sealed-verdict-" + verdict)
	c.Emit("frame sealed-%s %d | %s", sc.label, len(sc.payload), verdict)
}

func init() {
	register("frame", func(c *Ctx) {
		muteStdout()
		formatLogs()
		// ---- re-sealed family (directed, on every run): frames whose header MAC and frame MAC are correct around every shape of
		//      the inner content — what a remote peer that completed the handshake can send
		{
			seed := []byte("zvh-frame-sealed")
			// the sealer is faithful: an ordinary message sealed by it is byte-identical to what WriteMsg produces
			pay := []byte("payload-of-an-ordinary-message")
			wire, _ := encodeFrames(seed, [][2]interface{}{{uint64(5), pay}, {uint64(300), []byte{}}})
			fs := newFrameSealer(seed)
			fs.frame(append(mustRlp(uint64(5)), pay...), nil, 0)
			fs.frame(mustRlp(uint64(300)), nil, 0)
			if !bytes.Equal(wire, fs.buf.Bytes()) {
				c.Fail("C15 frame: harness defect — the frame sealer does not reproduce WriteMsg's bytes")
			}
			for _, sc := range frameSweepContents() {
				frameSealedCase(c, seed, sc, nil, 0)
			}
		}
		for i := 0; i < c.N; i++ {
			seed := make([]byte, 16)
			c.R.Read(seed)
			if c.R.Intn(4) == 0 {
				// random member of the re-sealed family: random short contents, or a valid code + payload with an arbitrary header
				// tail and non-zero padding
				var sc sealedCase
				var rest []byte
				pad := byte(0)
				switch c.R.Intn(3) {
				case 0:
					p := make([]byte, c.R.Intn(12))
					c.R.Read(p)
					sc = sealedCase{"r-short", p}
				case 1:
					p := make([]byte, c.R.Intn(70))
					c.R.Read(p)
					sc = sealedCase{"r-random", p}
				default:
					p := make([]byte, c.R.Intn(50))
					c.R.Read(p)
					sc = sealedCase{"r-header-tail", append(mustRlp(c.R.Uint64()>>uint(c.R.Intn(64))), p...)}
					rest = make([]byte, 13)
					c.R.Read(rest)
					pad = byte(c.R.Intn(256))
				}
				frameSealedCase(c, seed, sc, rest, pad)
				continue
			}
			nm := 1 + c.R.Intn(3)
			var msgs [][2]interface{}
			for j := 0; j < nm; j++ {
				sizes := []int{0, 1, 13, 14, 15, 16, 17, 31, 32, 100, 1000, 5000}
				pay := make([]byte, sizes[c.R.Intn(len(sizes))])
				c.R.Read(pay)
				code := []uint64{0, 1, 8, 16, 127, 128, 1 << 20, 1<<63 + 5}[c.R.Intn(8)]
				msgs = append(msgs, [2]interface{}{code, pay})
			}
			wire, ends := encodeFrames(seed, msgs)
			// sanity: unmutated frames read back exactly
			if i%50 == 0 {
				got := readFrames(seed, wire, nm)
				ok := len(got) == nm
				for j := 0; ok && j < nm; j++ {
					ok = got[j].err == nil && got[j].code == msgs[j][0].(uint64) && bytes.Equal(got[j].payload, msgs[j][1].([]byte))
				}
				if !ok {
					c.Fail("C15 frame: valid frames are not read back (harness or rlpx defect), seed %x", seed)
				}
				c.Hit("roundtrip")
			}
			mut := append([]byte{}, wire...)
			kind := ""
			firstBad := 0 // index of the first frame touched by the mutation
			frameOf := func(pos int) int {
				for j, e := range ends {
					if pos < e {
						return j
					}
				}
				return len(ends) - 1
			}
			switch k := c.R.Intn(100); {
			case k < 45:
				pos := c.R.Intn(len(mut))
				mut[pos] ^= 1 << uint(c.R.Intn(8))
				firstBad = frameOf(pos)
				start := 0
				if firstBad > 0 {
					start = ends[firstBad-1]
				}
				switch off := pos - start; {
				case off < 16:
					kind = "flip-header"
				case off < 32:
					kind = "flip-header-mac"
				case pos >= ends[firstBad]-16:
					kind = "flip-frame-mac"
				default:
					kind = "flip-body"
				}
			case k < 65:
				cut := c.R.Intn(len(mut))
				mut = mut[:cut]
				firstBad = frameOf(cut)
				kind = "truncate"
			case k < 75 && nm >= 2:
				// swap the first two frames (re-ordering)
				a, b := wire[:ends[0]], wire[ends[0]:ends[1]]
				mut = append(append(append([]byte{}, b...), a...), wire[ends[1]:]...)
				firstBad = 0
				kind = "reorder"
				if bytes.Equal(a, b) {
					kind = ""
				}
			case k < 85:
				// replay: the first frame twice
				mut = append(append([]byte{}, wire[:ends[0]]...), wire...)
				firstBad = 1
				kind = "replay"
			case k < 92:
				mut = make([]byte, 32+c.R.Intn(100))
				c.R.Read(mut)
				firstBad = 0
				kind = "garbage"
			default:
				// insert a byte
				pos := c.R.Intn(len(mut))
				mut = append(append(append([]byte{}, mut[:pos]...), byte(c.R.Intn(256))), mut[pos:]...)
				firstBad = frameOf(pos)
				kind = "insert"
			}
			if kind == "" {
				continue
			}
			got := readFrames(seed, mut, nm+2)
			c.Hit("mut-" + kind)
			// frames before the first touched one are delivered unchanged; the touched one must be an error
			verdict := "rejected"
			for j, fr := range got {
				if fr.pn != nil {
					c.Fail("C15 frame class=panic ReadMsg panicked (%v) on %s seed %x", firstLine(fmt.Sprint(fr.pn)), kind, seed)
					verdict = "panic"
					break
				}
				if j < firstBad {
					if fr.err != nil {
						// an earlier frame failing is a harness mis-attribution, not a defect
						verdict = "early-error"
						break
					}
					continue
				}
				if fr.err == nil {
					if kind == "replay" && j == firstBad {
						c.Fail("C15 frame class=delivered a replayed frame was delivered as message code %d, seed %x", fr.code, seed)
					} else {
						c.Fail("C15 frame class=delivered a %s frame was delivered as message code %d len %d, seed %x", kind, fr.code, len(fr.payload), seed)
					}
					verdict = "delivered"
				}
				if fr.err != nil && (kind == "flip-header" || kind == "flip-header-mac" || kind == "garbage") && fr.read > 32 {
					c.Fail("C15 frame class=alloc header did not authenticate but %d bytes were read for the frame, kind %s seed %x", fr.read, kind, seed)
				}
				if fr.read > 32+(1<<24)+15+16 {
					c.Fail("C15 frame class=alloc %d bytes read for one frame", fr.read)
				}
				break
			}
			c.Hit("verdict-" + verdict)
			c.Emit("frame %s %d | %s", kind, len(mut), verdict)
		}
	})

	register("disc", func(c *Ctx) {
		muteStdout()
		// the live discovery node logs every datagram: production-like logging — every record is FORMATTED (and thrown away), so
		// that String()/Error() methods evaluated on what the remote sent run as they do on a deployed node
		formatLogs()
		var keys []*ecdsa.PrivateKey
		for i := 0; i < 4; i++ {
			k, err := crypto.GenerateKey()
			if err != nil {
				panic(err)
			}
			keys = append(keys, k)
		}
		future := uint64(time.Now().Add(time.Hour).Unix())

		// ---- re-sealed family: inner payload mutated FIRST, hash and signature computed afterwards with the sender's own key.
		//      Codec under recover + a live node on a loopback socket that must keep answering an honest ping.
		live, lerr := newDiscLive()
		if lerr != nil || !live.pingPong(live.sock, live.honest, false) {
			// no loopback UDP in this environment: the codec part still runs
			c.Hit("live-node-unavailable")
			if live != nil {
				live.close()
			}
			live = nil
		} else {
			defer live.close()
			c.Hit("live-node-up")
		}
		{
			// the sealer is faithful: sealing the payload of an encodePacket packet gives the same datagram
			pkt, err := discover.EncodePacketVerif(keys[0], 1, future, 0)
			if err != nil || !bytes.Equal(sealPacket(keys[0], pkt[discover.HeadSizeVerif:]), pkt) {
				c.Fail("C15 disc: harness defect — sealPacket does not reproduce encodePacket's bytes (%v)", err)
			}
		}
		sealedAlive := true
		runSweep := func(priv *ecdsa.PrivateKey, viaBond bool) {
			id := discover.PubkeyID(&priv.PublicKey)
			last := ""
			for i, sc := range discSweep(id, future) {
				if !sealedAlive {
					return
				}
				discSealed(c, priv, sc, live, viaBond)
				last = sc.label
				if i%500 == 499 {
					sealedAlive = discLiveCheck(c, live, last)
				}
			}
			sealedAlive = sealedAlive && discLiveCheck(c, live, last)
		}
		runSweep(keys[0], false)
		if live != nil && sealedAlive {
			// a peer that completes the bond (answers the node's ping): its findnode requests reach the table code
			if live.pingPong(live.bondSock, live.bondKey, true) {
				c.Hit("live-bonded-peer")
				runSweep(live.bondKey, true)
			} else {
				c.Hit("live-bond-failed")
			}
		}

		for i := 0; i < c.N; i++ {
			priv := keys[c.R.Intn(len(keys))]
			if sealedAlive && c.R.Intn(3) == 0 {
				viaBond := live != nil && c.R.Intn(3) == 0
				if viaBond {
					priv = live.bondKey
				}
				sc := discRandomSealed(c, discover.PubkeyID(&priv.PublicKey), future)
				discSealed(c, priv, sc, live, viaBond)
				if i%700 == 699 || i == c.N-1 {
					sealedAlive = discLiveCheck(c, live, sc.label)
				}
				continue
			}
			kind := byte(1 + c.R.Intn(4))
			exp := []uint64{future, 0, 1, 1<<63 - 1, 1 << 63, 1<<64 - 1}[c.R.Intn(6)]
			pkt, err := discover.EncodePacketVerif(priv, kind, exp, c.R.Intn(13))
			if err != nil {
				c.Hit("encode-refused")
				continue
			}
			wantID := discover.PubkeyID(&priv.PublicKey)
			call := func(b []byte) (k byte, id discover.NodeID, err error, pn interface{}) {
				defer func() {
					if p := recover(); p != nil {
						pn = p
					}
				}()
				k, id, _, err = discover.DecodePacketVerif(b)
				return
			}
			if i%20 == 0 {
				k, id, err, pn := call(pkt)
				if pn != nil || err != nil || k != kind || id != wantID {
					c.Fail("C15 disc: a valid packet of kind %d is not decoded back (%v %v)", kind, err, pn)
				}
				c.Hit("roundtrip")
			}
			mut := append([]byte{}, pkt...)
			mk := ""
			switch k := c.R.Intn(100); {
			case k < 40:
				pos := c.R.Intn(len(mut))
				mut[pos] ^= 1 << uint(c.R.Intn(8))
				switch {
				case pos < 32:
					mk = "flip-hash"
				case pos < discover.HeadSizeVerif:
					mk = "flip-sig"
				default:
					mk = "flip-data"
				}
			case k < 60:
				mut = mut[:c.R.Intn(len(mut))]
				mk = "truncate"
			case k < 70:
				mut = make([]byte, c.R.Intn(200))
				c.R.Read(mut)
				mk = "garbage"
			case k < 85:
				// a correctly hashed packet around a corrupted body (an attacker can always recompute the outer hash)
				pos := discover.HeadSizeVerif + c.R.Intn(len(mut)-discover.HeadSizeVerif)
				mut[pos] ^= 1 << uint(c.R.Intn(8))
				copy(mut, crypto.Keccak256(mut[32:]))
				mk = "rehashed-flip-data"
			case k < 93:
				// correctly hashed, random type byte and random body
				nm := make([]byte, discover.HeadSizeVerif+1+c.R.Intn(60))
				copy(nm, mut)
				mut = nm
				c.R.Read(mut[discover.HeadSizeVerif:])
				copy(mut, crypto.Keccak256(mut[32:]))
				mk = "rehashed-garbage"
			default:
				mut = append(mut, make([]byte, 1+c.R.Intn(1200))...)
				mk = "extended"
			}
			k, id, err, pn := call(mut)
			c.Hit("mut-" + mk)
			verdict := "rejected"
			switch {
			case pn != nil:
				verdict = "panic"
				c.Fail("C15 disc class=panic decodePacket panicked (%s) on %s packet %x", firstLine(fmt.Sprint(pn)), mk, mut)
			case err == nil && id == wantID:
				// accepted as coming from the original signer although the bytes were changed
				verdict = "accepted-as-signer"
				c.Fail("C15 disc class=accepted a %s packet (kind %d -> %d) was accepted as signed by the original node: %x", mk, kind, k, mut)
			case err == nil:
				// decodes under some other recovered key: the packet is attributed to a different (random) node id,
				// which is what signature recovery gives for any 65 bytes — not the original signer
				verdict = "other-signer"
			}
			c.Hit("verdict-" + verdict)
			c.Emit("disc %s %d | %s", mk, len(mut), verdict)
		}
	})
}
