package main

import (
	"fmt"
	"math/big"
	"os"
	"path/filepath"
	"sort"
	"strings"

	"github.com/zenon-network/go-zenon/chain"
	"github.com/zenon-network/go-zenon/chain/genesis"
	"github.com/zenon-network/go-zenon/chain/store"
	"github.com/zenon-network/go-zenon/common/db"
	"github.com/zenon-network/go-zenon/common/types"
	"github.com/zenon-network/go-zenon/vm/embedded/definition"
)

// ---------------------------------------------------------------------------------------------------
// genesis stream, scenario "ONE genesis object, several ledgers" (C20: the genesis momentum - hash, content and FULL
// INITIAL STATE - is a function of the configuration; a database whose first momentum is not the configured genesis
// is refused).
//
// One store.Genesis value G = genesis.NewGenesis(cfg) - what node.NewNode keeps in zenon.Config.GenesisConfig, what a
// test helper shares - initialises a first empty ledger and then, in the same process, further ledgers: another empty
// leveldb directory, an in-memory ledger, the first directory after it was wiped, an empty directory after G was used
// for a restart of the first ledger. Statement, model-free, for every ledger after the first:
//   * either the initialisation is refused (error or crash: counted, not judged - the database manager consumes the
//     genesis transaction's patch on the first insertion),
//   * or the ledger holds the FULL initial state: byte for byte the key space of the first ledger (which is compared
//     with the configuration entry by entry: balances of every genesis block, pillars, token supplies, fusions,
//     sporks), under the same first momentum;
//   * whatever happened, a node started afterwards on that directory with a freshly built genesis of the same
//     configuration is refused or runs on the full initial state - never on a database whose first momentum carries
//     the configured hash and some other state.
// ---------------------------------------------------------------------------------------------------

type oneObjLedger struct {
	man    db.Manager
	ch     chain.Chain
	dir    string // "" = in memory
	res    string // started / error: … / panic: …
	digest string
	diffs  []string // differences between the ledger and the configuration
	first  string   // hash of the momentum at height 1
}

// genesisStateVsConfig compares the ledger behind st with the configuration, entry by entry
func genesisStateVsConfig(st store.Momentum, cfg *genesis.GenesisConfig) (diffs []string) {
	defer func() {
		if r := recover(); r != nil {
			diffs = append(diffs, fmt.Sprintf("reading the ledger panicked: %v", r))
		}
	}()
	add := func(format string, a ...interface{}) {
		if len(diffs) < 6 {
			diffs = append(diffs, fmt.Sprintf(format, a...))
		}
	}
	for _, b := range cfg.GenesisBlocks.Blocks {
		m, err := st.GetAccountStore(b.Address).GetBalanceMap()
		if err != nil {
			add("balances of %v: %v", b.Address, err)
			continue
		}
		var zs []types.ZenonTokenStandard
		for z := range b.BalanceList {
			zs = append(zs, z)
		}
		sort.Slice(zs, func(i, j int) bool { return zs[i].String() < zs[j].String() })
		for _, z := range zs {
			want := b.BalanceList[z]
			got := m[z]
			if got == nil {
				got = big.NewInt(0)
			}
			if want != nil && got.Cmp(want) != 0 {
				add("%v holds %v of %v, configured %v", b.Address, got, z, want)
			}
		}
	}
	if cfg.PillarConfig != nil {
		names := map[string]bool{}
		for _, p := range cfg.PillarConfig.Pillars {
			names[p.Name] = true
		}
		list, err := definition.GetPillarsList(st.GetAccountStore(types.PillarContract).Storage(), false, definition.AnyPillarType)
		if err != nil {
			add("pillar list: %v", err)
		} else if len(list) != len(names) {
			add("%d pillars registered, configured %d", len(list), len(names))
		}
	}
	if cfg.TokenConfig != nil {
		for _, t := range cfg.TokenConfig.Tokens {
			ti, err := definition.GetTokenInfo(st.GetAccountStore(types.TokenContract).Storage(), t.TokenStandard)
			switch {
			case err != nil || ti == nil:
				add("token %v is not recorded (%v)", t.TokenStandard, err)
			case ti.TotalSupply == nil || t.TotalSupply == nil || ti.TotalSupply.Cmp(t.TotalSupply) != 0:
				add("token %v: recorded total supply %v, configured %v", t.TokenStandard, ti.TotalSupply, t.TotalSupply)
			}
		}
	}
	if cfg.PlasmaConfig != nil && len(cfg.PlasmaConfig.Fusions) > 0 {
		// the beneficiaries' fused amounts add up per beneficiary
		want := map[types.Address]*big.Int{}
		for _, f := range cfg.PlasmaConfig.Fusions {
			if f == nil || f.Amount == nil {
				continue
			}
			if want[f.Beneficiary] == nil {
				want[f.Beneficiary] = big.NewInt(0)
			}
			want[f.Beneficiary].Add(want[f.Beneficiary], f.Amount)
		}
		var bs []types.Address
		for a := range want {
			bs = append(bs, a)
		}
		sort.Slice(bs, func(i, j int) bool { return bs[i].String() < bs[j].String() })
		for _, a := range bs {
			fp, err := definition.GetFusedAmount(st.GetAccountStore(types.PlasmaContract).Storage(), a)
			got := big.NewInt(0)
			if err == nil && fp != nil && fp.Amount != nil {
				got = fp.Amount
			}
			if got.Cmp(want[a]) != 0 {
				add("plasma fused for %v: %v, configured %v", a, got, want[a])
			}
		}
	}
	if cfg.SporkConfig != nil {
		ids := map[types.Hash]bool{}
		for _, s := range cfg.SporkConfig.Sporks {
			ids[s.Id] = true
		}
		if got := definition.GetAllSporks(st.GetAccountStore(types.SporkContract).Storage()); len(got) != len(ids) {
			add("%d sporks defined, configured %d", len(got), len(ids))
		}
	}
	return diffs
}

func oneObjOpen(gen store.Genesis, cfg *genesis.GenesisConfig, dir string) *oneObjLedger {
	l := &oneObjLedger{dir: dir}
	if p := safely(func() {
		if dir == "" {
			l.man = db.NewMemDBManager(db.NewMemDB())
		} else {
			l.man = db.NewLevelDBManager(dir)
		}
		l.ch = chain.NewChain(l.man, gen)
		if err := l.ch.Init(); err != nil {
			l.res = "error: " + err.Error()
			return
		}
		l.res = "started"
		st := l.ch.GetFrontierMomentumStore()
		if m, err := st.GetMomentumByHeight(1); err == nil && m != nil {
			l.first = m.Hash.String()
		}
		l.digest = digestDB(l.man.Frontier())
		l.diffs = genesisStateVsConfig(st, cfg)
	}); p != "" {
		l.res = "panic: " + strings.SplitN(p, "\n", 2)[0]
	}
	return l
}

func (l *oneObjLedger) close() {
	if l.ch != nil {
		safely(func() { l.ch.Stop() })
		l.ch = nil
	}
}

// genesisOneObject: see the head of the file. `round` selects the shape of the sequence.
func genesisOneObject(c *Ctx, tmp, id string, cfg *genesis.GenesisConfig, round int) {
	var gen store.Genesis
	if p := safely(func() { gen = genesis.NewGenesis(cfg) }); p != "" || gen == nil {
		return
	}
	want := gen.GetGenesisMomentum().Hash.String()
	dir := func(k int) string { return filepath.Join(tmp, fmt.Sprintf("%s-one%d-%d", id, round, k)) }
	shape := []string{"second-empty-directory", "memory-then-directory", "directory-wiped", "restart-then-empty-directory", "directory-then-memory", "three-directories"}[round%6]
	c.Hit("one-object:" + shape)

	// ledger #1
	d1 := dir(1)
	if shape == "memory-then-directory" {
		d1 = ""
	}
	l1 := oneObjOpen(gen, cfg, d1)
	if l1.res != "started" {
		l1.close()
		c.Fail("C20: an accepted configuration does not initialise an empty ledger: %s [%s]", l1.res, encodeCfg(cfg))
		return
	}
	if l1.first != want || len(l1.diffs) > 0 {
		c.Fail("C20: the first ledger initialised from the configuration does not hold the configured initial state: first momentum %s (configured %s); %s [%s]",
			shortHash(l1.first), shortHash(want), strings.Join(l1.diffs, "; "), encodeCfg(cfg))
	}
	l1.close()

	judge := func(k int, how string, l *oneObjLedger) {
		defer l.close()
		if l.res != "started" {
			c.Hit("one-object-later-initialisation-refused:" + strings.SplitN(l.res, ":", 2)[0])
			return
		}
		c.Hit("one-object-later-initialisation-started")
		if l.first != want || l.digest != l1.digest || len(l.diffs) > 0 {
			c.Fail("C20: ONE genesis object (genesis.NewGenesis of an accepted configuration, genesis momentum %s) initialised ledger #1 and then, in the same process, ledger #%d (%s): chain.Init reported success, first momentum %s, but the initial state differs from ledger #1's (key space %s vs %s): %s — same configuration, same genesis hash, other state [sequence %s; %s]",
				shortHash(want), k, how, shortHash(l.first), l.digest, l1.digest, strings.Join(l.diffs, "; "), shape, encodeCfg(cfg))
		}
	}
	// a node started later on the directory, with a freshly built genesis of the same configuration
	restart := func(k int, d string) {
		if d == "" {
			return
		}
		l := oneObjOpen(genesis.NewGenesis(cloneCfg(cfg)), cfg, d)
		defer l.close()
		if l.res != "started" {
			c.Hit("one-object-restart-refused:" + strings.SplitN(l.res, ":", 2)[0])
			return
		}
		c.Hit("one-object-restart-started")
		if l.first != want || l.digest != l1.digest || len(l.diffs) > 0 {
			c.Fail("C20: a node configured with genesis %s started (chain.Init = nil) on the database of ledger #%d, whose first momentum is %s but whose state is not the configured initial state (key space %s, a ledger of this configuration has %s): %s — the database was left by an initialisation from a genesis object that had initialised another ledger before [sequence %s; %s]",
				shortHash(want), k, shortHash(l.first), l.digest, l1.digest, strings.Join(l.diffs, "; "), shape, encodeCfg(cfg))
		}
	}

	switch shape {
	case "second-empty-directory", "memory-then-directory":
		judge(2, "an empty leveldb directory", oneObjOpen(gen, cfg, dir(2)))
		restart(2, dir(2))
	case "directory-then-memory":
		judge(2, "an empty in-memory ledger", oneObjOpen(gen, cfg, ""))
	case "directory-wiped":
		os.RemoveAll(d1)
		judge(2, "the directory of ledger #1 after it was wiped", oneObjOpen(gen, cfg, d1))
		restart(2, d1)
	case "restart-then-empty-directory":
		// the same object restarts ledger #1 (nothing is inserted: it must simply start) …
		r := oneObjOpen(gen, cfg, d1)
		if r.res != "started" || r.digest != l1.digest {
			c.Fail("C20: the genesis object that created a ledger does not restart on it unchanged: %s (key space %s, was %s) [%s]", r.res, r.digest, l1.digest, encodeCfg(cfg))
		}
		r.close()
		// … and then initialises an empty one
		judge(2, "an empty leveldb directory, after the object restarted ledger #1", oneObjOpen(gen, cfg, dir(2)))
		restart(2, dir(2))
	case "three-directories":
		judge(2, "an empty leveldb directory", oneObjOpen(gen, cfg, dir(2)))
		judge(3, "a third empty leveldb directory", oneObjOpen(gen, cfg, dir(3)))
		restart(3, dir(3))
		restart(2, dir(2))
	}
	// ledger #1 itself is still what it was
	if d1 != "" && shape != "directory-wiped" {
		l := oneObjOpen(genesis.NewGenesis(cloneCfg(cfg)), cfg, d1)
		if l.res != "started" || l.digest != l1.digest {
			c.Fail("C20: ledger #1 does not restart unchanged after its genesis object was used for other ledgers: %s (key space %s, was %s) [%s]", l.res, l.digest, l1.digest, encodeCfg(cfg))
		}
		l.close()
	}
	for k := 1; k <= 3; k++ {
		os.RemoveAll(dir(k))
	}
	c.Hit("one-object-scenario")
}
