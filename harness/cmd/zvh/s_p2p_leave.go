package main

// Part B of `p2p-net` (C15), the family "a peer LEAVES while a request to it is in flight".
//
// "Nothing a peer does can terminate the node" includes going away: a clean disconnect with any reason, a connection that is
// closed or reset, a protocol error that makes the node drop the peer - at every stage of a synchronisation, in particular while
// the node waits for that peer's answer. The node unregisters the peer at once (ProtocolManager.removePeer →
// Downloader.UnregisterPeer); whatever it had asked it for stays where it was - the hash request with its 5 s time-out, the block
// request in the queue until it expires 9 s later (blockHardTTL) - and is dealt with by code that can no longer look the peer up.
//
//	L   the leaver. As a HELPER (it claims the node's own total difficulty, so the node synchronises from H and asks L for blocks) it
//	    leaves on its first block request, on its second (between two packs: the first was answered), or right after its first pack
//	    (nothing in flight); as the ORIGIN (highest total difficulty; H helps) it leaves on a hash request (head probe / ancestor
//	    search / first download request) or on its second block request, the hash chain delivered.
//	H   an honest peer that stays: the synchronisation goes on past the expiry of L's request (L's own hashes are missing until then).
//
// How L leaves: a disconnect message with each reason in turn, then the connection closed; the connection closed without a word;
// reset (SO_LINGER 0); or a protocol error (undecodable Blocks pack, a second Status, a sub-protocol code out of range, a message
// declared larger than the limit) after which L answers nothing more and waits to be dropped.
//
// Monitors: the process survives (parent); the node reaches H's height (the deadline covers both time-outs); H is never dropped
// and is still served. L is not judged. The trace for the downloader model records the departure as `lv:<P>` (event `unregister`).

import (
	"fmt"
	"net"
	"strings"
	"sync"
	"time"

	"github.com/zenon-network/go-zenon/chain/nom"
	"github.com/zenon-network/go-zenon/common/types"
	"github.com/zenon-network/go-zenon/protocol"
)

// leaveHows: the ways of leaving. Disconnect reasons: every defined one (0…11, 16) and two undefined ones.
func leaveHows() []string {
	hows := []string{"tcp-close", "tcp-reset", "protocol-error-undecodable-blocks", "protocol-error-second-status",
		"protocol-error-code-out-of-range", "protocol-error-oversized"}
	for _, r := range []int{0, 1, 2, 3, 4, 5, 6, 7, 8, 9, 10, 11, 16, 12, 255} {
		hows = append(hows, fmt.Sprintf("disconnect-reason-%d", r))
	}
	return hows
}

// leave: the peer goes away now and answers nothing any more.
func (p *ethPeer) leave(how string) {
	p.mu.Lock()
	if p.left {
		p.mu.Unlock()
		return
	}
	p.left = true
	p.mu.Unlock()
	p.s.dlLeave(p)
	p.note("LEAVES (%s)", how)
	switch {
	case strings.HasPrefix(how, "disconnect-reason-"):
		var r uint64
		fmt.Sscanf(how, "disconnect-reason-%d", &r)
		p.send(baseDiscMsg, mustRlp([]uint64{r}))
		// (a peer that says goodbye closes its end a moment later, as p2p.Peer does)
		go func() { time.Sleep(50 * time.Millisecond); p.close() }()
	case how == "tcp-close":
		p.close()
	case how == "tcp-reset":
		if tc, ok := p.fd.(*net.TCPConn); ok {
			tc.SetLinger(0)
		}
		p.close()
	default:
		switch how {
		case "protocol-error-undecodable-blocks":
			p.sendEth(protocol.BlocksMsg, []byte{0xc3, 0x01, 0x02, 0x03})
		case "protocol-error-second-status":
			p.sendEth(protocol.StatusMsg, mustRlp(&hsStatus{61, netNetId, 1, p.chain[0], p.chain[0]}))
		case "protocol-error-code-out-of-range":
			p.sendEth(25, []byte{0xc0})
		case "protocol-error-oversized":
			p.sendSized(protocol.BlocksMsg+baseProtoLen, 11<<20, []byte{0xc0})
		}
		// the node drops it; if it does not, the peer goes by itself
		go func() {
			if !p.waitGone(3 * time.Second) {
				p.close()
			}
		}()
	}
}

func (p *ethPeer) hasLeft() bool {
	p.mu.Lock()
	defer p.mu.Unlock()
	return p.left
}

func (s *syncScn) dlLeave(p *ethPeer) {
	r := s.dl()
	r.mu.Lock()
	defer r.mu.Unlock()
	r.add(s, "lv:%s", dlName(p.role))
}

// leaverScenario: see the head of the file. stage: helper-block-request-1 / helper-block-request-2 / helper-after-pack /
// origin-hash-probe / origin-hash-search / origin-hash-download / origin-block-request-2.
func leaverScenario(stage, how string) syncScenario {
	return syncScenario{"leaver-" + stage + "-" + how, func(s *syncScn) {
		T := len(s.src)
		origin := strings.HasPrefix(stage, "origin-")
		asked := make(chan struct{})
		var once sync.Once
		var l *ethPeer
		setup := func(p *ethPeer) {
			searchDone := false
			p.onHashReq = func(nth int, number, amount uint64) ([]types.Hash, bool) {
				if p.hasLeft() {
					return nil, false
				}
				if amount > 1 && nth > 1 {
					searchDone = true
				}
				if (stage == "origin-hash-probe" && nth == 1) || (stage == "origin-hash-search" && nth >= 2 && amount == 1) ||
					(stage == "origin-hash-download" && searchDone) {
					once.Do(func() { close(asked) })
					p.leave(how)
					return nil, false
				}
				return honestHashes(p.chain, number, amount), true
			}
			p.onBlockReq = func(nth int, hashes []types.Hash) ([]*nom.DetailedMomentum, bool) {
				if p.hasLeft() {
					return nil, false
				}
				if (stage == "helper-block-request-1" && nth == 1) || ((stage == "helper-block-request-2" || stage == "origin-block-request-2") && nth == 2) {
					once.Do(func() { close(asked) })
					p.note("asked for %d momentum(s) %s - does not answer", len(hashes), s.heightsOf(hashes))
					p.leave(how)
					return nil, false
				}
				return p.honestBlocks(hashes), true
			}
			p.after = func(kind string, nth int) {
				if stage == "helper-after-pack" && kind == "blockreq" && nth == 1 {
					once.Do(func() { close(asked) })
					p.leave(how)
				}
			}
		}
		// H takes its time over block requests, as a loaded node does: the other peer is asked too
		slow := func(p *ethPeer) {
			p.onBlockReq = func(nth int, hashes []types.Hash) ([]*nom.DetailedMomentum, bool) {
				time.Sleep(120 * time.Millisecond)
				return p.honestBlocks(hashes), true
			}
		}
		var h *ethPeer
		if origin {
			// L announces the highest total difficulty; H (same chain, smaller claim) is there before the node turns to L
			h = s.peer("H(honest)", uint64(T-1), T, slow)
			if h == nil {
				return
			}
			time.Sleep(200 * time.Millisecond)
			l = s.peer("L(leaver)", 1000, T, setup)
		} else {
			// L first (it claims no more than the node has: nobody synchronises from it), so that it is registered and idle when the
			// block fetcher of the synchronisation with H hands out its first requests
			l = s.peer("L(leaver)", uint64(s.K), T, setup)
			if l == nil {
				return
			}
			time.Sleep(200 * time.Millisecond)
			h = s.peer("H(honest)", uint64(T), T, slow)
		}
		if l == nil || h == nil {
			return
		}
		select {
		case <-asked:
			s.n.hit("sync-leaver-left-at-its-stage")
			s.n.hit("sync-leaver-left:" + stage)
			s.n.hit("sync-leaver-how:" + strings.TrimRight(how, "0123456789"))
		case <-time.After(syncDeadline):
			if s.height() < T {
				s.fail("sync-stalled", "the node never got to the request L was to leave on (stage %s) and did not synchronise either", stage)
				return
			}
			// (the synchronisation was over before L's turn came: nothing to observe)
			s.n.hit("sync-leaver-never-got-its-turn")
		}
		if !s.expectSynced(T, fmt.Sprintf("L left (%s) at stage %s; H, which holds the whole chain, stays", how, stage), h) {
			return
		}
		// the request L sat on has expired by now (its momentum is part of the chain the node holds); a moment more for whatever is
		// still scheduled, then the honest peer must still be there and served
		time.Sleep(300 * time.Millisecond)
		s.expectHonest(h)
	}}
}

// leaverScenarios: every stage with several ways of leaving - a stage with a block request in flight: one way of closing the
// connection, one protocol error, two disconnect reasons; the other stages: one of the former two and one disconnect reason -,
// rotated by the seed and the starting height so that every way comes up at every stage over the seeds; the thorough tier takes
// twice as many.
func leaverScenarios(seed int64, tier string, round int) []syncScenario {
	stages := []string{"helper-block-request-1", "helper-block-request-2", "helper-after-pack", "origin-hash-probe", "origin-hash-search",
		"origin-hash-download", "origin-block-request-2"}
	var tcp, perr, disc []string
	for _, h := range leaveHows() {
		switch {
		case strings.HasPrefix(h, "tcp-"):
			tcp = append(tcp, h)
		case strings.HasPrefix(h, "protocol-error-"):
			perr = append(perr, h)
		default:
			disc = append(disc, h)
		}
	}
	rot := int(seed%1000+1000)*3 + round
	pick := func(l []string, k int) string { return l[((k%len(l))+len(l))%len(l)] }
	var out []syncScenario
	seen := map[string]bool{}
	add := func(st, how string) {
		sc := leaverScenario(st, how)
		if !seen[sc.name] {
			seen[sc.name] = true
			out = append(out, sc)
		}
	}
	reps := 1
	if tier == "thorough" {
		reps = 2
	}
	for i, st := range stages {
		for r := 0; r < reps; r++ {
			k := rot + i + 7*r
			if strings.Contains(st, "block-request") {
				add(st, pick(tcp, k))
				add(st, pick(perr, k))
				add(st, pick(disc, 2*k))
				add(st, pick(disc, 2*k+1))
			} else {
				if k%2 == 0 {
					add(st, pick(tcp, k/2))
				} else {
					add(st, pick(perr, k/2))
				}
				add(st, pick(disc, 2*k+i))
			}
		}
	}
	return out
}
