package main

import (
	"crypto/sha256"
	"fmt"
	"math/big"
	"reflect"
	"sort"
	"strings"

	g "github.com/zenon-network/go-zenon/chain/genesis/mock"
	"github.com/zenon-network/go-zenon/chain/nom"
	"github.com/zenon-network/go-zenon/common/types"
	"github.com/zenon-network/go-zenon/vm/abi"
	"github.com/zenon-network/go-zenon/vm/constants"
	"github.com/zenon-network/go-zenon/vm/embedded/definition"
)

// ---------------------------------------------------------------------------------------------------
// Three scenario families of the autoreceive stream (C09). Every call goes through the stream's delivery (real send-time
// validation on the template or the gossip path) and, when accepted, through the harness's producer path under recover; the
// stream's monitors judge every receive (no panic / error, exactly one receive, applied or refunded exactly, inbox drained,
// an applied call that carried an amount has an effect).
//
//   slice-lengths   methods whose arguments are slices (found by reflection over the ABI inputs): every combination of
//                   lengths 0..3 of the slice arguments, sent by the party that may call the method
//   admin-machine   the security state machine of liquidity and bridge: guardian sets that grow / shrink / stay, emergency,
//                   votes of every position of the sorted guardian list, administrator changes, halts, time challenges;
//                   plus the storage invariant "as many vote slots as guardians"
//   time-regimes    calls that become invalid through chain time / state at receive time only: the accelerator's life time and
//                   the voting period end DURING the history, HTLCs expire, the bridge / liquidity are halted and unhalted,
//                   with amount-carrying calls before, in flight across and after every switch
// ---------------------------------------------------------------------------------------------------

// arScn: delivery and outcome bookkeeping of a directed scenario (coverage counters `<tag> <method> <state> -> outcome`)
type arScn struct {
	w     *arWorld
	tag   string
	nth   int
	calls []arProofCall
	quiet bool // the state is not part of the delivery counters (families with hundreds of states); it is still named in a failure
}

func (p *arScn) call(state string, from, to types.Address, method string, tok types.ZenonTokenStandard, amount *big.Int, args ...interface{}) *nom.AccountBlock {
	w := p.w
	r := w.r
	if r.failed {
		return nil
	}
	if amount == nil {
		amount = big.NewInt(0)
	}
	label := arContractName(to) + "." + method
	gen := p.tag + "-" + state
	if p.quiet {
		gen = p.tag
	}
	call := w.pack(to, method, &arSpec{from: from, tok: tok, amount: amount, args: args}, gen)
	if call == nil {
		return nil
	}
	p.nth++
	blk := r.deliver(call, []string{"tpl", "ext"}[p.nth%2])
	if blk == nil {
		if !p.quiet {
			r.c.Hit(fmt.Sprintf("%s %s %s -> refused when sent", p.tag, label, state))
		}
		return nil
	}
	if rec := r.sends[blk.Hash]; rec != nil {
		rec.gen = p.tag + "-" + state
	}
	p.calls = append(p.calls, arProofCall{label: label, state: state, hash: blk.Hash})
	return blk
}

func (p *arScn) steps(k int) bool {
	r := p.w.r
	for i := 0; i < k; i++ {
		if !r.step() {
			return false
		}
	}
	var rest []arProofCall
	for _, pc := range p.calls {
		rec := r.sends[pc.hash]
		if rec == nil || rec.answered == 0 {
			rest = append(rest, pc)
			continue
		}
		switch rec.status {
		case 1:
			r.c.Hit(fmt.Sprintf("%s %s %s -> applied", p.tag, pc.label, pc.state))
		default:
			r.c.Hit(fmt.Sprintf("%s %s %s -> refunded (%s)", p.tag, pc.label, pc.state, rec.retErr))
		}
	}
	p.calls = rest
	return !r.failed
}

// outcome of an answered call: "applied", "refunded (<reason>)" or "" (not answered / not accepted)
func (p *arScn) outcome(b *nom.AccountBlock) string {
	if b == nil {
		return ""
	}
	rec := p.w.r.sends[b.Hash]
	if rec == nil || rec.answered == 0 {
		return ""
	}
	if rec.status == 1 {
		return "applied"
	}
	return "refunded (" + rec.retErr + ")"
}

// ---------------------------------------------------------------------------------------------------
// slice-lengths
// ---------------------------------------------------------------------------------------------------

// arSliceMethods: every (contract, method) of the embedded ABIs with at least one slice-typed input, by reflection over the ABI
func arSliceMethods() (out [][2]string) {
	for _, ca := range allContractABIs {
		for _, name := range sortedMethodNames(ca.abi) {
			for _, in := range ca.abi.Methods[name].Inputs {
				if in.Type.T == abi.SliceTy {
					out = append(out, [2]string{arContractName(ca.addr), name})
					break
				}
			}
		}
	}
	return out
}

// sliceOfLen: a slice argument of n elements in the spirit of the canonical one: distinct addresses / token standards,
// narrow integers whose first `lead` elements (variant 0) or all n elements (variant 1) keep the canonical array's sum (the
// percentages of a token tuple must add up to the total over the compared range), other elements cycled from the canonical
func (w *arWorld) sliceOfLen(t abi.Type, canonical interface{}, n, lead, variant int) interface{} {
	v := reflect.MakeSlice(t.Type, n, n)
	cv := reflect.ValueOf(canonical)
	cl := 0
	if cv.IsValid() && cv.Kind() == reflect.Slice {
		cl = cv.Len()
	}
	addrPool := []types.Address{g.User1.Address, g.User2.Address, g.User3.Address, g.User4.Address, g.Pillar1.Address, g.Pillar2.Address, g.Pillar3.Address}
	ztsPool := []string{w.tokOwned.String(), w.tokFixed.String(), w.tokBridge.String(), types.ZnnTokenStandard.String(), types.QsrTokenStandard.String()}
	switch {
	case t.Elem.T == abi.AddressTy:
		for i := 0; i < n; i++ {
			v.Index(i).Set(reflect.ValueOf(addrPool[i%len(addrPool)]))
		}
	case t.Elem.T == abi.StringTy:
		isZts := cl > 0
		for i := 0; i < cl; i++ {
			if _, err := types.ParseZTS(cv.Index(i).String()); err != nil {
				isZts = false
			}
		}
		for i := 0; i < n; i++ {
			if isZts {
				v.Index(i).SetString(ztsPool[i%len(ztsPool)])
			} else if cl > 0 {
				v.Index(i).SetString(fmt.Sprintf("%s%d", cv.Index(i%cl).String(), i))
			} else {
				v.Index(i).SetString(fmt.Sprintf("s%d", i))
			}
		}
	case (t.Elem.T == abi.UintTy || t.Elem.T == abi.IntTy) && t.Elem.Kind != reflect.Ptr:
		total := uint64(0)
		for i := 0; i < cl; i++ {
			if t.Elem.T == abi.UintTy {
				total += cv.Index(i).Uint()
			} else {
				total += uint64(cv.Index(i).Int())
			}
		}
		k := n // the range over which the sum is kept
		if variant == 0 && lead < n && lead > 0 {
			k = lead
		}
		for i := 0; i < n; i++ {
			x := uint64(i + 1) // elements beyond the summed range
			if i < k {
				x = total / uint64(k)
				if i == 0 {
					x += total % uint64(k)
				}
			}
			if t.Elem.T == abi.UintTy {
				v.Index(i).SetUint(x)
			} else {
				v.Index(i).SetInt(int64(x))
			}
		}
	default:
		for i := 0; i < n; i++ {
			if cl > 0 {
				v.Index(i).Set(cv.Index(i % cl))
			} else if t.Elem.Kind == reflect.Ptr && (t.Elem.T == abi.UintTy || t.Elem.T == abi.IntTy) {
				v.Index(i).Set(reflect.ValueOf(big.NewInt(int64(i + 1))))
			}
		}
	}
	return v.Interface()
}

func (w *arWorld) runSliceLengths() {
	r := w.r
	c := r.c
	p := &arScn{w: w, tag: "slice-lengths", quiet: true}
	r.stateNote = func() string {
		return "scenario slice-lengths: the canonical call of the administrator with every slice argument resized (gen=slice-lengths-<lengths in argument order>)"
	}
	for _, cm := range arSliceMethods() {
		addr, ok := abiAddrOf(cm[0])
		if !ok {
			continue
		}
		ca, _ := arAbiOf(addr)
		m := ca.Methods[cm[1]]
		label := cm[0] + "." + cm[1]
		base := w.canonical(addr, cm[1])
		if base == nil || len(base.args) != len(m.Inputs) {
			c.Hit("slice-lengths no-canonical-shape " + label) // a method with slice arguments the harness has no caller for: visible in the evidence
			continue
		}
		var sl []int
		for i, in := range m.Inputs {
			if in.Type.T == abi.SliceTy {
				sl = append(sl, i)
			}
		}
		c.Hit(fmt.Sprintf("slice-lengths method %s slices=%d", label, len(sl)))
		type accepted struct {
			args  []interface{}
			state string
		}
		var acc []accepted
		seen := map[string]bool{}
		pending := 0
		combos := 1
		for range sl {
			combos *= 4
		}
		for ci := 0; ci < combos; ci++ {
			lens := make([]int, len(sl))
			x := ci
			for j := range sl {
				lens[j] = x % 4
				x /= 4
			}
			for variant := 0; variant < 2; variant++ {
				args := append([]interface{}{}, base.args...)
				var st []string
				for j, i := range sl {
					args[i] = w.sliceOfLen(m.Inputs[i].Type, base.args[i], lens[j], lens[0], variant)
					st = append(st, fmt.Sprint(lens[j]))
				}
				state := strings.Join(st, ",")
				key := fmt.Sprintf("%v", args)
				if seen[key] {
					continue
				}
				seen[key] = true
				blk := p.call(state, base.from, addr, cm[1], base.tok, base.amount, args...)
				if r.failed {
					return
				}
				if blk != nil {
					c.Hit(fmt.Sprintf("slice-lengths %s accepted with lengths %s", label, state))
					acc = append(acc, accepted{args, state})
					pending++
				}
				if pending >= 3 {
					pending = 0
					if !p.steps(1) {
						return
					}
				}
			}
		}
		if !p.steps(1) {
			return
		}
		// past the time challenge: one accepted tuple (chosen by the seed) is sent again after the delay, so that the receive that
		// APPLIES the arrays runs too
		if len(acc) > 0 {
			a := acc[c.R.Intn(len(acc))]
			delay := int(constants.MinAdministratorDelay)
			if delay < int(constants.MinSoftDelay) {
				delay = int(constants.MinSoftDelay)
			}
			p.call(a.state+"-challenge", base.from, addr, cm[1], base.tok, base.amount, a.args...)
			if !p.steps(delay + 2) {
				return
			}
			p.call(a.state+"-due", base.from, addr, cm[1], base.tok, base.amount, a.args...)
			if !p.steps(1) {
				return
			}
		}
	}
	c.Hit("slice-lengths-done")
}

// ---------------------------------------------------------------------------------------------------
// admin-machine
// ---------------------------------------------------------------------------------------------------

type arAdminSide struct {
	name     string
	addr     types.Address
	admin    types.Address
	halt     func(p *arScn, state string, from types.Address)
	unhalt   func(p *arScn, state string, from types.Address)
	getAdmin func() (types.Address, bool)
}

func (w *arWorld) arSecurityInfo(contract types.Address) (*definition.SecurityInfoVariable, string) {
	var si *definition.SecurityInfoVariable
	var err error
	if p := safely(func() {
		si, err = definition.GetSecurityInfoVariable(w.r.n.Chain().GetFrontierAccountStore(contract).Storage())
	}); p != "" {
		return nil, "panic: " + firstLine300(p)
	}
	if err != nil {
		return nil, err.Error()
	}
	return si, ""
}

func (w *arWorld) runAdminMachine() {
	r := w.r
	c := r.c
	n := r.n
	p := &arScn{w: w, tag: "admin"}
	znn := types.ZnnTokenStandard
	pool := []types.Address{g.User1.Address, g.User2.Address, g.User3.Address, g.Pillar1.Address, g.Pillar2.Address, g.Pillar3.Address,
		g.Pillar4.Address, g.Pillar5.Address, g.Pillar6.Address, g.Pillar7.Address}
	candidates := []types.Address{g.User4.Address, g.Pillar8.Address, g.User5.Address, g.Spork.Address}
	var history []string
	r.stateNote = func() string {
		h := history
		if len(h) > 40 {
			h = append([]string{"..."}, h[len(h)-40:]...)
		}
		return "scenario admin-machine, administrative history so far: " + strings.Join(h, " ; ")
	}
	note := func(format string, a ...interface{}) { history = append(history, fmt.Sprintf(format, a...)) }
	liq := &arAdminSide{name: "liquidity", addr: types.LiquidityContract, admin: w.admin}
	liq.halt = func(p *arScn, st string, from types.Address) {
		p.call(st, from, liq.addr, definition.SetIsHaltedMethodName, znn, nil, true)
	}
	liq.unhalt = func(p *arScn, st string, from types.Address) {
		p.call(st, from, liq.addr, definition.SetIsHaltedMethodName, znn, nil, false)
	}
	liq.getAdmin = func() (a types.Address, ok bool) {
		safely(func() {
			if li, err := definition.GetLiquidityInfo(n.Chain().GetFrontierAccountStore(liq.addr).Storage()); err == nil && li != nil {
				a, ok = li.Administrator, true
			}
		})
		return
	}
	bri := &arAdminSide{name: "bridge", addr: types.BridgeContract, admin: w.admin}
	bri.halt = func(p *arScn, st string, from types.Address) {
		p.call(st, from, bri.addr, definition.HaltMethodName, znn, nil, "")
	}
	bri.unhalt = func(p *arScn, st string, from types.Address) {
		p.call(st, from, bri.addr, definition.UnhaltMethodName, znn, nil)
	}
	bri.getAdmin = func() (a types.Address, ok bool) {
		safely(func() {
			if bi, err := definition.GetBridgeInfoVariable(n.Chain().GetFrontierAccountStore(bri.addr).Storage()); err == nil && bi != nil {
				a, ok = bi.Administrator, true
			}
		})
		return
	}
	sides := []*arAdminSide{liq, bri}

	// the storage invariant the vote bookkeeping relies on; a breach is reported at the end of the round, after the votes of the
	// round have been received (the receive that trips over it is the primary observation)
	breach := ""
	checkInv := func(when string) {
		for _, s := range sides {
			si, e := w.arSecurityInfo(s.addr)
			if e != "" {
				if breach == "" {
					breach = fmt.Sprintf("C09: the security info of the %s contract cannot be read %s: %s", s.name, when, e)
				}
				continue
			}
			if len(si.Guardians) != len(si.GuardiansVotes) && breach == "" {
				breach = fmt.Sprintf("C09: the %s contract stores %d guardians but %d vote slots %s (the vote of guardian i is kept in slot i: a guardian without slot cannot be answered, a slot without guardian is counted)",
					s.name, len(si.Guardians), len(si.GuardiansVotes), when)
			}
			c.Hit(fmt.Sprintf("admin %s guardians=%d", s.name, len(si.Guardians)))
		}
	}
	steps := func(k int, when string) bool {
		for i := 0; i < k; i++ {
			if !p.steps(1) {
				return false
			}
			checkInv(when)
		}
		return true
	}
	sortedOf := func(set []types.Address) []types.Address {
		s := append([]types.Address{}, set...)
		sort.Slice(s, func(i, j int) bool { return s[i].String() < s[j].String() })
		return s
	}
	pick := func(k int) []types.Address {
		perm := c.R.Perm(len(pool))
		var s []types.Address
		for _, i := range perm[:k] {
			s = append(s, pool[i])
		}
		return s
	}
	names := func(set []types.Address) string {
		var s []string
		for _, a := range set {
			s = append(s, addrName(a))
		}
		return strings.Join(s, ",")
	}

	rounds := 4
	if c.Tier == "thorough" {
		rounds = 9
	}
	// sizes of the guardian sets: 2..7; the three moves grow / same / shrink in an order chosen by the seed, so that every run
	// has a set that grows after a smaller one, one that shrinks, and a re-nomination of the same size
	moves := [][]string{{"grow", "same", "shrink"}, {"shrink", "grow", "same"}, {"same", "shrink", "grow"}, {"grow", "shrink", "grow"}}[c.R.Intn(4)]
	size := 3 + c.R.Intn(3) // the set-up nominated 3 guardians
	cur := map[string][]types.Address{}
	for round := 0; round < rounds && !r.failed; round++ {
		mv := moves[round%len(moves)]
		switch {
		case round == 0:
		case mv == "grow" && size < 7:
			size += 1 + c.R.Intn(7-size)
		case mv == "shrink" && size > 2:
			size = 2 + c.R.Intn(size-2)
		case mv == "grow":
			size = 7
		}
		c.Hit("admin move " + mv)
		c.Hit(fmt.Sprintf("admin set-size %d", size))
		// ---- 1. nomination (time challenge: the same call again after the administrator delay)
		for _, s := range sides {
			set := pick(size)
			if mv == "same" && round > 0 && c.R.Intn(2) == 0 && len(cur[s.name]) == size {
				set = cur[s.name] // the very same set again
			}
			cur[s.name] = set
			note("%s.NominateGuardians(%d: %s) by %s", s.name, size, names(sortedOf(set)), addrName(s.admin))
			p.call(fmt.Sprintf("nominate-%d-%s", size, mv), s.admin, s.addr, definition.NominateGuardiansMethodName, znn, nil, set)
		}
		if !steps(int(constants.MinAdministratorDelay)+2, "while a nomination is pending") {
			return
		}
		for _, s := range sides {
			note("%s.NominateGuardians(same %d) again after the delay", s.name, size)
			p.call(fmt.Sprintf("nominate-%d-%s-due", size, mv), s.admin, s.addr, definition.NominateGuardiansMethodName, znn, nil, cur[s.name])
		}
		if !steps(1, fmt.Sprintf("after the nomination of %d guardians", size)) {
			return
		}
		for _, s := range sides {
			if si, _ := w.arSecurityInfo(s.addr); si != nil && len(si.Guardians) == size {
				c.Hit(fmt.Sprintf("admin %s nomination-in-force %s", s.name, mv))
			}
		}
		// ---- 2. a vote outside an emergency, a halt by the administrator, the emergency
		for _, s := range sides {
			sorted := sortedOf(cur[s.name])
			p.call("propose-no-emergency", sorted[len(sorted)-1], s.addr, definition.ProposeAdministratorMethodName, znn, nil, candidates[round%len(candidates)])
			if round%2 == 1 {
				note("%s halted by %s", s.name, addrName(s.admin))
				s.halt(p, "halt-before-emergency", s.admin)
			}
		}
		if !steps(1, "before the emergency") {
			return
		}
		for _, s := range sides {
			note("%s.Emergency by %s", s.name, addrName(s.admin))
			p.call("emergency", s.admin, s.addr, definition.EmergencyMethodName, znn, nil)
		}
		if !steps(1, "after the emergency") {
			return
		}
		// ---- 3. votes: the last, the first, the middle guardian of the sorted list, somebody who is no guardian, then the others
		// from the end of the list until the candidate has the majority; one guardian votes for another candidate first
		candA, candB := candidates[round%len(candidates)], candidates[(round+1)%len(candidates)]
		type vote struct {
			pos  string
			idx  int
			cand types.Address
		}
		plan := map[string][]vote{}
		maxLen := 0
		for _, s := range sides {
			k := len(cur[s.name])
			vs := []vote{{"last", k - 1, candA}, {"first", 0, candB}, {"middle", k / 2, candA}, {"outsider", -1, candA}}
			for i := k - 2; i >= 0; i-- {
				if i != k/2 {
					vs = append(vs, vote{fmt.Sprintf("pos%d", i), i, candA})
				}
			}
			vs = append(vs, vote{"first-again", 0, candA})
			plan[s.name] = vs
			if len(vs) > maxLen {
				maxLen = len(vs)
			}
		}
		for i := 0; i < maxLen && !r.failed; i++ {
			sent := false
			for _, s := range sides {
				if a, ok := s.getAdmin(); ok && !a.IsZero() {
					continue // the majority has been reached: the emergency is over
				}
				vs := plan[s.name]
				if i >= len(vs) {
					continue
				}
				v := vs[i]
				sorted := sortedOf(cur[s.name])
				from := g.User4.Address // no guardian (the pool of guardians does not contain User4)
				if v.idx >= 0 {
					from = sorted[v.idx]
				}
				note("%s.ProposeAdministrator(%s) by guardian %s [%s of %d]", s.name, addrName(v.cand), addrName(from), v.pos, len(sorted))
				st := v.pos
				if strings.HasPrefix(st, "pos") {
					st = "other"
				}
				p.call("vote-"+st, from, s.addr, definition.ProposeAdministratorMethodName, znn, nil, v.cand)
				sent = true
			}
			if !sent {
				break
			}
			if !steps(1, "after a guardian's vote") {
				return
			}
		}
		if r.failed {
			return
		}
		// ---- 4. the elected administrator takes over: unhalt, and (every other round) hands the administration on
		for _, s := range sides {
			a, ok := s.getAdmin()
			if !ok || a.IsZero() {
				c.Hit("admin " + s.name + " still-in-emergency-after-votes")
				s.admin = types.ZeroAddress
				continue
			}
			s.admin = a
			c.Hit("admin " + s.name + " administrator-elected")
			note("%s administrator is now %s", s.name, addrName(a))
			s.unhalt(p, "unhalt-after-election", s.admin)
		}
		if !steps(1, "after the election") {
			return
		}
		if breach != "" {
			r.fail("%s", breach)
			return
		}
		next := candidates[(round+2)%len(candidates)]
		changed := false
		for _, s := range sides {
			if s.admin.IsZero() {
				// nobody can act: the scenario goes on with the other contract only; (no majority can only happen when votes were refused)
				continue
			}
			if round%2 == 0 {
				note("%s.ChangeAdministrator(%s) by %s", s.name, addrName(next), addrName(s.admin))
				p.call("change-administrator", s.admin, s.addr, definition.ChangeAdministratorMethodName, znn, nil, next)
				changed = true
			}
		}
		if changed {
			if !steps(int(constants.MinAdministratorDelay)+2, "while a change of administrator is pending") {
				return
			}
			for _, s := range sides {
				if !s.admin.IsZero() {
					p.call("change-administrator-due", s.admin, s.addr, definition.ChangeAdministratorMethodName, znn, nil, next)
					// the old administrator right behind it in the same momentum: no longer allowed
					p.call("old-administrator-after-change", s.admin, s.addr, definition.EmergencyMethodName, znn, nil)
				}
			}
			if !steps(1, "after the change of administrator") {
				return
			}
			for _, s := range sides {
				if a, ok := s.getAdmin(); ok && !a.IsZero() {
					if a == next {
						c.Hit("admin " + s.name + " administrator-changed")
					}
					s.admin = a
					note("%s administrator is now %s", s.name, addrName(a))
				}
			}
		}
		var live []*arAdminSide
		for _, s := range sides {
			if !s.admin.IsZero() {
				live = append(live, s)
			}
		}
		sides = live
		if len(sides) == 0 {
			break
		}
		if breach != "" {
			r.fail("%s", breach)
			return
		}
	}
	if breach != "" && !r.failed {
		r.fail("%s", breach)
		return
	}
	c.Hit("admin-machine-done")
}

// ---------------------------------------------------------------------------------------------------
// time-regimes
// ---------------------------------------------------------------------------------------------------

func (w *arWorld) runTimeRegimes() {
	r := w.r
	c := r.c
	n := r.n
	p := &arScn{w: w, tag: "time"}
	znn, qsr := types.ZnnTokenStandard, types.QsrTokenStandard
	u1, u2 := g.User1.Address, g.User2.Address
	acc := types.AcceleratorContract
	phase := "start"
	var setupProj types.Hash
	if len(w.projectIds) > 0 {
		setupProj = w.projectIds[0]
	}
	r.stateNote = func() string {
		gm, _ := n.Chain().GetFrontierMomentumStore().GetMomentumByHeight(1)
		fm, _ := n.Chain().GetFrontierMomentumStore().GetFrontierMomentum()
		age := int64(-1)
		if gm != nil && fm != nil {
			age = fm.Timestamp.Unix() - gm.Timestamp.Unix()
		}
		return fmt.Sprintf("scenario time-regimes phase %s: frontier %d s after genesis, constants.AcceleratorDuration=%d s, AcceleratorProjectVotingPeriod=%d s (package variables shortened inside the harness process)",
			phase, age, constants.AcceleratorDuration, constants.AcceleratorProjectVotingPeriod)
	}
	age := func() int64 {
		gm, err := n.Chain().GetFrontierMomentumStore().GetMomentumByHeight(1)
		if err != nil || gm == nil {
			return 0
		}
		return w.frontierTime() - gm.Timestamp.Unix()
	}
	canon := func(state string, to types.Address, method string) *nom.AccountBlock {
		s := w.canonical(to, method)
		if s == nil {
			return nil
		}
		b := p.call(state, s.from, to, method, s.tok, s.amount, s.args...)
		if b != nil && s.onAccept != nil {
			s.onAccept(b.Hash)
		}
		return b
	}

	// ---- HTLCs that expire during the history (regime 3): unlock / reclaim before, at and after the expiry
	if r.regime >= 3 {
		phase = "htlc-expiry"
		lock := sha256.Sum256(w.preimage)
		var ids []types.Hash
		for i, d := range []int64{15, 25, 35, 45, 55, 65} {
			if b := p.call(fmt.Sprintf("create-expiring-in-%ds", d), u1, types.HtlcContract, definition.CreateHtlcMethodName, []types.ZenonTokenStandard{znn, qsr}[i%2], zn(1+int64(i)),
				u2, w.frontierTime()+d, definition.HashTypeSHA256, uint8(32), lock[:]); b != nil {
				ids = append(ids, b.Hash)
			}
		}
		for k := 0; k < 8 && !r.failed; k++ {
			if !p.steps(1) {
				return
			}
			for i, id := range ids {
				switch (i + k) % 4 {
				case 0:
					p.call("unlock-around-expiry", u2, types.HtlcContract, definition.UnlockHtlcMethodName, znn, nil, id, w.preimage)
				case 2:
					p.call("reclaim-around-expiry", u1, types.HtlcContract, definition.ReclaimHtlcMethodName, znn, nil, id)
				}
			}
		}
		if !p.steps(1) {
			return
		}
		w.receiveAll(u1)
		w.receiveAll(u2)
	}

	// ---- bridge / liquidity halted and unhalted: amount-carrying calls while halted, inside the unhalt delay, after it
	if r.regime >= 2 {
		phase = "halt-unhalt"
		p.call("halt", w.admin, types.BridgeContract, definition.HaltMethodName, znn, nil, "")
		p.call("halt", w.admin, types.LiquidityContract, definition.SetIsHaltedMethodName, znn, nil, true)
		canon("in-flight-across-halt", types.BridgeContract, "WrapToken")
		canon("in-flight-across-halt", types.LiquidityContract, "LiquidityStake")
		if !p.steps(1) {
			return
		}
		for _, m := range [][2]string{{"bridge", "WrapToken"}, {"bridge", "UnwrapToken"}, {"bridge", "Redeem"}, {"liquidity", "LiquidityStake"}, {"liquidity", "CancelLiquidityStake"},
			{"liquidity", "Donate"}, {"liquidity", "CollectReward"}} {
			a, _ := abiAddrOf(m[0])
			canon("while-halted", a, m[1])
		}
		if !p.steps(1) {
			return
		}
		p.call("unhalt", w.admin, types.BridgeContract, definition.UnhaltMethodName, znn, nil)
		p.call("unhalt", w.admin, types.LiquidityContract, definition.SetIsHaltedMethodName, znn, nil, false)
		for k := 0; k < int(constants.MinUnhaltDurationInMomentums)+3 && !r.failed; k++ {
			canon(fmt.Sprintf("unhalt-delay-momentum-%d", k), types.BridgeContract, "WrapToken")
			canon(fmt.Sprintf("unhalt-delay-momentum-%d", k), types.BridgeContract, "Redeem")
			canon(fmt.Sprintf("unhalt-delay-momentum-%d", k), types.LiquidityContract, "LiquidityStake")
			if !p.steps(1) {
				return
			}
		}
		w.receiveAll(u1)
	}

	if r.regime < 1 {
		return
	}
	// ---- the voting period of a project ends: votes and owner calls before, across and after the end
	phase = "voting-period"
	constants.AcceleratorProjectVotingPeriod = 45 // seconds: 4 momentums
	pillars := []types.Address{g.Pillar1.Address, g.Pillar2.Address, g.Pillar3.Address, g.Pillar4.Address}
	pnames := []string{g.Pillar1Name, g.Pillar2Name, g.Pillar3Name, g.Pillar4Name}
	var proj *nom.AccountBlock
	if proj = canon("voting-period-45s", acc, "CreateProject"); proj != nil {
		for k := 0; k < 8 && !r.failed; k++ {
			i := k % len(pillars)
			p.call(fmt.Sprintf("vote-momentum-%d-of-voting-period", k), pillars[i], acc, definition.VoteByNameMethodName, znn, nil, proj.Hash, pnames[i], []uint8{definition.VoteYes, definition.VoteNo, definition.VoteAbstain}[k%3])
			p.call(fmt.Sprintf("vote-momentum-%d-of-voting-period", k), pillars[(i+1)%len(pillars)], acc, definition.VoteByProdAddressMethodName, znn, nil, proj.Hash, definition.VoteYes)
			if k%3 == 2 {
				p.call(fmt.Sprintf("add-phase-momentum-%d-of-voting-period", k), u1, acc, definition.AddPhaseMethodName, znn, big.NewInt(int64(k)), proj.Hash, w.name("phase"), "a phase", "www.zenon.network", zn(1), zn(10))
			}
			if !p.steps(1) {
				return
			}
		}
	}

	// ---- the accelerator's life time ends DURING the history
	phase = "accelerator-before-end"
	methods := []string{"CreateProject", "AddPhase", "UpdatePhase", "Donate", "VoteByName", "VoteByProdAddress", "Update"}
	batch := func(state string) {
		for _, m := range methods {
			canon(state, acc, m)
		}
		// owner calls that carry an amount (AddPhase / UpdatePhase do not constrain the amount at send time)
		s := w.canonical(acc, "AddPhase")
		p.call(state+"-with-amount", s.from, acc, "AddPhase", znn, big.NewInt(7), s.args...)
		s = w.canonical(acc, "UpdatePhase")
		p.call(state+"-with-amount", s.from, acc, "UpdatePhase", qsr, big.NewInt(3), s.args...)
		p.call(state+"-qsr", u2, acc, definition.DonateMethodName, qsr, zn(2))
		if !setupProj.IsZero() { // the project of the set-up (accepted by the pillars when the periodic Update calls run), its owner
			p.call(state+"-setup-project", u1, acc, "UpdatePhase", znn, big.NewInt(5), setupProj, w.name("phase"), "an updated phase", "www.zenon.network", zn(2), zn(20))
			p.call(state+"-setup-project", u1, acc, "AddPhase", qsr, big.NewInt(9), setupProj, w.name("phase"), "a phase", "www.zenon.network", zn(1), zn(10))
			p.call(state+"-setup-project", g.Pillar3.Address, acc, definition.VoteByNameMethodName, znn, nil, setupProj, g.Pillar3Name, definition.VoteNo)
		}
	}
	batch("before-end")
	if !p.steps(1) {
		return
	}
	// the end lies 25 s ahead of the frontier: the calls sent now and at the next two frontiers are accepted while the accelerator
	// runs and received after its end
	constants.AcceleratorDuration = age() + 25
	c.Hit("time accelerator-duration-shortened")
	for k := 0; k < 5 && !r.failed; k++ {
		left := constants.AcceleratorDuration - age()
		phase = fmt.Sprintf("accelerator-end-in-%ds", left)
		st := "across-end"
		if left < 0 {
			st = "after-end"
		}
		batch(st)
		if !p.steps(1) {
			return
		}
		w.receiveAll(u1)
	}
	phase = "accelerator-after-end"
	batch("after-end")
	if !p.steps(2) {
		return
	}
	w.receiveAll(u1)
	w.receiveAll(u2)
	c.Hit("time-regimes-done")
}
