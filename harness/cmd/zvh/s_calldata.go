package main

// Stream `calldata` (C13, T4): the call data of embedded-contract calls is stored in a single canonical encoding.
//
// Every ValidateSendBlock of the embedded contracts (enumerated through embedded.MethodsVerif, build tag verif)
// is fed with ABI call data in its canonical form and in re-arranged forms that the ABI decoder reads as the
// same argument tuple (trailing bytes, dirty padding of narrow static words, dirty padding after a dynamic tail,
// a relocated dynamic tail). One line per validation:
//
//	calldata <contract> <method> <variant> <amount> <zts> <data> | <ok|err> <data after validation>
//
// Model-free monitors on every accepted case (this stream has no Lean replay; the statement is evaluated on
// the real code only):
//   - the data left in the block is a fixed point of unpack -> pack of the method's ABI (canonical form),
//   - a second validation leaves it unchanged,
//   - all accepted forms of one argument tuple leave the SAME bytes in the block,
//   - pack(unpack(pack(args))) == pack(args) for the ABI library itself.

import (
	"bytes"
	"fmt"
	"math/big"
	"reflect"

	"github.com/inconshreveable/log15"

	"github.com/zenon-network/go-zenon/chain/nom"
	"github.com/zenon-network/go-zenon/common/types"
	"github.com/zenon-network/go-zenon/vm/abi"
	"github.com/zenon-network/go-zenon/vm/embedded"
)

var cdNames = []string{"pillar-1", "abc", "Zenon", "a", "my.pillar_2", "token", "ZTS", "wZNN", "x-y-z", ""}
var cdStrings = []string{"https://zenon.network", "zenon.network", "description", "", "0x1234567890abcdef1234567890abcdef12345678",
	"z1qqvwzz2xq7q5gwk6uhcddgrpxlfcyzc8rsu82s", "{}", "{\"a\":1}", "www.example.com/a-b", "ZNN", "测试"}

func cdRandString(c *Ctx) string {
	switch c.R.Intn(6) {
	case 0:
		return cdNames[c.R.Intn(len(cdNames))]
	case 1, 2:
		return cdStrings[c.R.Intn(len(cdStrings))]
	case 3:
		l := []int{31, 32, 33, 64, 65}[c.R.Intn(5)]
		b := make([]byte, l)
		for i := range b {
			b[i] = "abcdefghijklmnopqrstuvwxyz0123456789-"[c.R.Intn(37)]
		}
		return string(b)
	default:
		l := c.R.Intn(12)
		b := make([]byte, l)
		for i := range b {
			b[i] = "abcdefghijklmnopqrstuvwxyzABCXYZ0123456789-._ /:"[c.R.Intn(48)]
		}
		return string(b)
	}
}

func cdSmall(c *Ctx, bits int) uint64 {
	var v uint64
	switch c.R.Intn(5) {
	case 0:
		v = 0
	case 1:
		v = uint64(c.R.Intn(4))
	case 2:
		v = uint64(c.R.Intn(120))
	case 3:
		v = c.R.Uint64()
	default:
		if c.R.Intn(2) == 0 {
			v = uint64(1+c.R.Intn(12)) * 2592000 // stake durations: whole months in seconds
		} else {
			v = uint64(c.R.Intn(100000))
		}
	}
	if bits < 64 {
		v &= 1<<uint(bits) - 1
	}
	return v
}

// genABIValue builds a Go value of the reflect type the ABI library packs for t
func genABIValue(c *Ctx, t abi.Type) (interface{}, error) {
	switch t.T {
	case abi.UintTy, abi.IntTy:
		switch t.Kind {
		case reflect.Uint8:
			return uint8(cdSmall(c, 8)), nil
		case reflect.Uint16:
			return uint16(cdSmall(c, 16)), nil
		case reflect.Uint32:
			return uint32(cdSmall(c, 32)), nil
		case reflect.Uint64:
			return cdSmall(c, 64), nil
		case reflect.Int8:
			return int8(cdSmall(c, 7)), nil
		case reflect.Int16:
			return int16(cdSmall(c, 15)), nil
		case reflect.Int32:
			return int32(cdSmall(c, 31)), nil
		case reflect.Int64:
			return int64(cdSmall(c, 63)), nil
		case reflect.Ptr:
			switch c.R.Intn(5) {
			case 4: // 0, 1, 2, the neighbours of 2^k (k = 7 ... 256) and of the amount bounds of vm/constants
				b := arBoundaryInts[c.R.Intn(len(arBoundaryInts))]
				if _, ok := arIntArg(t, b); !ok {
					b = big.NewInt(1)
				}
				return new(big.Int).Set(b), nil
			case 0:
				return big.NewInt(0), nil
			case 1:
				return new(big.Int).Mul(big.NewInt(int64(c.R.Intn(20000))), big.NewInt(100000000)), nil
			case 2:
				return big.NewInt(int64(c.R.Intn(1000))), nil
			default:
				sz := t.Size
				if sz <= 0 || sz > 256 {
					sz = 256
				}
				if t.T == abi.IntTy {
					sz--
				}
				return new(big.Int).SetBytes(cRandBytes(c, 1+c.R.Intn((sz+7)/8-1))), nil
			}
		}
		return nil, fmt.Errorf("integer kind %v", t.Kind)
	case abi.BoolTy:
		return c.R.Intn(2) == 0, nil
	case abi.StringTy:
		return cdRandString(c), nil
	case abi.BytesTy:
		return cRandBytes(c, []int{0, 1, 20, 31, 32, 33, 64, 65}[c.R.Intn(8)]), nil
	case abi.AddressTy:
		return cRandAddr(c), nil
	case abi.TokenStandardTy:
		return cRandZts(c), nil
	case abi.HashTy:
		return cRandHash(c), nil
	case abi.FixedBytesTy:
		v := reflect.New(t.Type).Elem()
		for i := 0; i < v.Len(); i++ {
			v.Index(i).SetUint(uint64(c.R.Intn(256)))
		}
		return v.Interface(), nil
	case abi.SliceTy:
		n := c.R.Intn(4)
		v := reflect.MakeSlice(t.Type, n, n)
		for i := 0; i < n; i++ {
			e, err := genABIValue(c, *t.Elem)
			if err != nil {
				return nil, err
			}
			v.Index(i).Set(reflect.ValueOf(e))
		}
		return v.Interface(), nil
	case abi.ArrayTy:
		v := reflect.New(t.Type).Elem()
		for i := 0; i < v.Len(); i++ {
			e, err := genABIValue(c, *t.Elem)
			if err != nil {
				return nil, err
			}
			v.Index(i).Set(reflect.ValueOf(e))
		}
		return v.Interface(), nil
	}
	return nil, fmt.Errorf("abi type %d", t.T)
}

func cdIsDynamic(t abi.Type) bool {
	return t.T == abi.StringTy || t.T == abi.BytesTy || t.T == abi.SliceTy
}

// static width (in significant low / high bytes) of a one-word type; 0 = the whole word is significant
func cdSignificant(t abi.Type) (n int, leftAligned bool) {
	switch t.T {
	case abi.UintTy, abi.IntTy:
		switch t.Kind {
		case reflect.Uint8, reflect.Int8:
			return 1, false
		case reflect.Uint16, reflect.Int16:
			return 2, false
		case reflect.Uint32, reflect.Int32:
			return 4, false
		case reflect.Uint64, reflect.Int64:
			return 8, false
		}
		return 0, false
	case abi.AddressTy:
		return types.AddressSize, false
	case abi.TokenStandardTy:
		return types.ZenonTokenStandardSize, false
	case abi.FixedBytesTy:
		return t.Size, true
	}
	return 0, false
}

type cdVariant struct {
	kind string
	data []byte
}

// re-arranged forms of canonical call data `d` (4-byte id + head + tails) for the argument list `args`
func cdVariants(c *Ctx, args abi.Arguments, d []byte) []cdVariant {
	out := []cdVariant{{"canonical", d}}
	body := d[4:]
	clone := func() []byte { return append([]byte{}, d...) }
	if len(body) > 0 {
		v := append(clone(), cRandBytes(c, 1+c.R.Intn(40))...)
		out = append(out, cdVariant{"trailing-bytes", v})
		v = append(clone(), make([]byte, 32)...)
		out = append(out, cdVariant{"trailing-zero-word", v})
	}
	// dirty padding of a narrow static word
	idx := 0
	for _, a := range args {
		if a.Type.T == abi.ArrayTy {
			idx += a.Type.Size
			continue
		}
		if n, left := cdSignificant(a.Type); n > 0 && n < 32 && (idx+1)*32 <= len(body) {
			v := clone()
			if left {
				v[4+idx*32+31] ^= 0x5a
			} else {
				v[4+idx*32] ^= 0x5a
			}
			out = append(out, cdVariant{"dirty-padding-" + a.Type.String(), v})
			break
		}
		idx++
	}
	// dynamic tails: dirty padding after the tail, relocated tail
	idx = 0
	for _, a := range args {
		if a.Type.T == abi.ArrayTy {
			idx += a.Type.Size
			continue
		}
		if (a.Type.T == abi.StringTy || a.Type.T == abi.BytesTy) && (idx+1)*32 <= len(body) {
			off := new(big.Int).SetBytes(body[idx*32 : idx*32+32])
			if off.IsInt64() && int(off.Int64())+32 <= len(body) {
				o := int(off.Int64())
				l := new(big.Int).SetBytes(body[o : o+32])
				if l.IsInt64() && int(l.Int64())%32 != 0 && o+32+int(l.Int64()) < len(body) {
					v := clone()
					v[4+o+32+int(l.Int64())] ^= 0x77 // first padding byte of the tail
					out = append(out, cdVariant{"dirty-tail-padding", v})
				}
				if l.IsInt64() {
					// copy of the tail appended at the end, offset re-pointed to the copy
					padded := (int(l.Int64()) + 31) / 32 * 32
					if o+32+padded <= len(body) {
						v := clone()
						newOff := big.NewInt(int64(len(body)))
						copy(v[4+idx*32:4+idx*32+32], make([]byte, 32))
						nb := newOff.Bytes()
						copy(v[4+idx*32+32-len(nb):4+idx*32+32], nb)
						v = append(v, body[o:o+32+padded]...)
						out = append(out, cdVariant{"relocated-tail", v})
					}
				}
			}
			break
		}
		idx++
	}
	return out
}

var cdFunds = func() []struct {
	amount *big.Int
	zts    types.ZenonTokenStandard
} {
	e8 := big.NewInt(100000000)
	mul := func(n int64) *big.Int { return new(big.Int).Mul(big.NewInt(n), e8) }
	return []struct {
		amount *big.Int
		zts    types.ZenonTokenStandard
	}{
		{big.NewInt(0), types.ZeroTokenStandard}, {big.NewInt(0), types.ZnnTokenStandard}, {mul(1), types.ZnnTokenStandard},
		{mul(10), types.QsrTokenStandard}, {mul(100), types.QsrTokenStandard}, {mul(15000), types.ZnnTokenStandard},
		{mul(5000), types.ZnnTokenStandard}, {mul(1), types.QsrTokenStandard}, {big.NewInt(1), types.ZnnTokenStandard},
		{mul(50000), types.QsrTokenStandard}, {mul(10), types.ZnnTokenStandard}, {mul(150000), types.QsrTokenStandard},
	}
}()

func cdRepack(m abi.Method, data []byte) ([]byte, []interface{}, error) {
	if len(data) < 4 {
		return nil, nil, fmt.Errorf("short")
	}
	if len(m.Inputs) == 0 {
		return append([]byte{}, m.Id()...), nil, nil
	}
	vals, err := m.Inputs.UnpackValues(data[4:])
	if err != nil {
		return nil, nil, err
	}
	packed, err := m.Inputs.Pack(vals...)
	if err != nil {
		return nil, vals, err
	}
	return append(append([]byte{}, m.Id()...), packed...), vals, nil
}

func init() {
	register("calldata", func(c *Ctx) {
		log15.Root().SetHandler(log15.DiscardHandler())
		methods := embedded.MethodsVerif()
		if len(methods) == 0 {
			c.Fail("no embedded methods enumerated")
			return
		}
		sporkAddr := types.CommunitySporkAddress
		if types.SporkAddress == nil {
			types.SporkAddress = &sporkAddr
		}
		users := []types.Address{types.CommunitySporkAddress, {0, 1, 2, 3}, {0, 9, 9, 9}}
		accepted := map[string]int{}
		for i := 0; i < c.N; i++ {
			me := methods[i%len(methods)]
			am, ok := me.ABI.Methods[me.Name]
			if !ok {
				c.Fail("method %s of %s is not in the ABI of its contract", me.Name, me.Contract)
				continue
			}
			key := me.Contract.String()[:14] + "." + me.Name
			// 1. an argument tuple and its canonical encoding
			args := make([]interface{}, len(am.Inputs))
			bad := false
			for k, in := range am.Inputs {
				v, err := genABIValue(c, in.Type)
				if err != nil {
					c.Fail("harness cannot generate a value for %s argument %s: %v", key, in.Type.String(), err)
					bad = true
					break
				}
				args[k] = v
			}
			if bad {
				continue
			}
			canonical, err := me.ABI.PackMethod(me.Name, args...)
			if err != nil {
				c.Fail("PackMethod(%s) fails on generated arguments: %v", key, err)
				continue
			}
			if re, _, err := cdRepack(am, canonical); err != nil || !bytes.Equal(re, canonical) {
				c.Fail("pack(unpack(pack(args))) != pack(args) for %s: %x -> %x (%v)", key, canonical, re, err)
			}
			_, canonVals, _ := cdRepack(am, canonical)
			// 2. all forms through ValidateSendBlock, with the first funding that the canonical form passes
			var stored []byte // what the canonical form leaves in the block
			fund := -1
			for _, v := range cdVariants(c, am.Inputs, canonical) {
				tryFunds := []int{fund}
				if fund < 0 {
					tryFunds = tryFunds[:0]
					for f := range cdFunds {
						tryFunds = append(tryFunds, f)
					}
				}
				var res string
				var after []byte
				var used int
				for _, f := range tryFunds {
					blk := &nom.AccountBlock{Version: 1, ChainIdentifier: 1, BlockType: nom.BlockTypeUserSend, Height: 2,
						Address: users[i%len(users)], ToAddress: me.Contract, Amount: new(big.Int).Set(cdFunds[f].amount),
						TokenStandard: cdFunds[f].zts, Data: append([]byte{}, v.data...)}
					res = guard(func() string {
						if err := me.Method.ValidateSendBlock(blk); err != nil {
							return "err"
						}
						return "ok"
					})
					after, used = blk.Data, f
					if res == "ok" {
						// a second validation must not change anything
						blk2 := blk.Copy()
						r2 := guard(func() string {
							if err := me.Method.ValidateSendBlock(blk2); err != nil {
								return "err"
							}
							return "ok"
						})
						if r2 != "ok" || !bytes.Equal(blk2.Data, blk.Data) {
							c.Fail("%s: validating an accepted send block again gives %s and data %x instead of %x", key, r2, blk2.Data, blk.Data)
						}
						break
					}
				}
				c.Emit("calldata %s %s %s %s %s %s | %s %s", hx(me.Contract[:]), me.Name, v.kind, cdFunds[used].amount, hx(cdFunds[used].zts[:]),
					hx(v.data), res, hx(after))
				c.Hit("calldata-" + v.kind + "-" + res)
				if res == "panic" {
					c.Fail("%s.ValidateSendBlock panics on %s call data %x", key, v.kind, v.data)
				}
				if res != "ok" {
					continue
				}
				if v.kind == "canonical" {
					fund, stored = used, after
					accepted[key]++
				}
				// the stored call data is in canonical form
				re, vals, err := cdRepack(am, after)
				if err != nil || !bytes.Equal(re, after) {
					c.Fail("%s accepts %s call data %x and leaves %x in the block, which is not pack(unpack(data)) = %x (%v)",
						key, v.kind, v.data, after, re, err)
				}
				// one stored encoding per argument tuple
				if stored != nil && reflect.DeepEqual(vals, canonVals) && !bytes.Equal(after, stored) {
					c.Fail("%s stores two encodings of one argument tuple: %x (from the canonical form) and %x (from the %s form %x)",
						key, stored, after, v.kind, v.data)
				}
				if v.kind != "canonical" && !bytes.Equal(after, v.data) {
					c.Hit("calldata-normalised")
				}
			}
		}
		// 3. end to end (s_calldata_e2e.go): non-canonical call data in complete, owner-signed send blocks delivered to real
		//    nodes by gossip, by publishing, inside a momentum
		nE2E := c.N / 150
		if nE2E > 150 {
			nE2E = 150
		}
		if v, ok := c.Args["e2e"]; ok {
			fmt.Sscan(v, &nE2E)
		}
		for h := 0; h < nE2E; h++ {
			calldataE2E(c, h, methods)
		}
		c.Stats["calldata-methods"] = len(methods)
		c.Stats["calldata-methods-with-accepted-case"] = len(accepted)
	})
}
