package main

import (
	"math/big"
	"reflect"

	"github.com/zenon-network/go-zenon/chain/nom"
	"github.com/zenon-network/go-zenon/common/types"
)

// ---------------------------------------------------------------------------------------------------
// variants stream, generic part (C13): the fields of nom.AccountBlock / nom.Momentum that are NOT covered by the
// hash are found by experiment on the live types (perturb one exported field of a copy, recompute the hash WITH THE
// HARNESS'S OWN PRE-IMAGE, ownABHash / ownMomentumHash - not with the repository's ComputeHash, which is only compared
// with it: an unchanged hash = an uncovered field — the same set the facts generator f_hashfields.go derives from the AST), and
// every such field gets the whole family of alterations of its type: byte strings are extended (one byte, many
// bytes, doubled, padded to 65/96/128), truncated (by one, to half, to 32, to nothing), prefixed, rotated, bit-flipped,
// zeroed; integers are moved to honest+1 / honest-1 / +k / -k / half / 0 / 1 / max / the honest value of another block; hashes are randomised / zeroed / bit-flipped. The property's
// sentence makes the set of byte strings a node accepts for one hash a singleton: whatever variant is accepted must
// be stored with the bytes of the original.
// ---------------------------------------------------------------------------------------------------

func isByteSlice(v reflect.Value) bool {
	return v.Kind() == reflect.Slice && v.Type().Elem().Kind() == reflect.Uint8
}
func isByteArray(v reflect.Value) bool {
	return v.Kind() == reflect.Array && v.Type().Elem().Kind() == reflect.Uint8
}

func isBigInt(v reflect.Value) bool { return v.Type() == bigIntPtrType }

// fieldByPath: "A" or "A.B" (a field of a nested struct value, e.g. MomentumAcknowledged.Height, Nonce.Data)
func fieldByPath(v reflect.Value, path string) reflect.Value {
	for {
		name, rest := path, ""
		for i := 0; i < len(path); i++ {
			if path[i] == '.' {
				name, rest = path[:i], path[i+1:]
				break
			}
		}
		if v.Kind() != reflect.Struct {
			return reflect.Value{}
		}
		v = v.FieldByName(name)
		if !v.IsValid() || rest == "" {
			return v
		}
		path = rest
	}
}

// perturbField: a minimal change of the field's value; false = this kind of field is not handled here
func perturbField(v reflect.Value) bool {
	switch {
	case v.Kind() == reflect.Uint64:
		v.SetUint(v.Uint() + 1)
	case isByteSlice(v):
		v.SetBytes(append(append([]byte{}, v.Bytes()...), 0x5a))
	case isByteArray(v) && v.Len() > 0:
		v.Index(0).SetUint(v.Index(0).Uint() ^ 1)
	case isBigInt(v):
		old := new(big.Int)
		if !v.IsNil() {
			old.Set(v.Interface().(*big.Int))
		}
		v.Set(reflect.ValueOf(old.Add(old, big.NewInt(1))))
	default:
		return false
	}
	return true
}

// uncoveredFieldsOf: exported fields of *obj (a struct pointer made by clone()) whose perturbation leaves hash() unchanged.
// The field "Hash" itself is the identity of the object and is left out.
func uncoveredFieldsOf(clone func() interface{}, hash func(interface{}) types.Hash) []string {
	base := clone()
	h0 := hash(base)
	t := reflect.TypeOf(base).Elem()
	var out []string
	for i := 0; i < t.NumField(); i++ {
		f := t.Field(i)
		if f.PkgPath != "" || f.Name == "Hash" {
			continue
		}
		o := clone()
		if !perturbField(reflect.ValueOf(o).Elem().Field(i)) {
			continue
		}
		if hash(o) == h0 {
			out = append(out, f.Name)
		}
	}
	return out
}

type byteMut struct {
	name string
	f    func(c *Ctx, old []byte) ([]byte, bool)
}

func cp(b []byte) []byte { return append([]byte{}, b...) }

func padTo(n int) func(c *Ctx, old []byte) ([]byte, bool) {
	return func(c *Ctx, old []byte) ([]byte, bool) {
		if len(old) >= n {
			return nil, false
		}
		return append(cp(old), make([]byte, n-len(old))...), true
	}
}

var byteMuts = []byteMut{
	{"append-00", func(c *Ctx, old []byte) ([]byte, bool) { return append(cp(old), 0), true }},
	{"append-ff", func(c *Ctx, old []byte) ([]byte, bool) { return append(cp(old), 0xff), true }},
	{"append-random", func(c *Ctx, old []byte) ([]byte, bool) {
		x := make([]byte, 1+c.R.Intn(80))
		c.R.Read(x)
		return append(cp(old), x...), true
	}},
	{"doubled", func(c *Ctx, old []byte) ([]byte, bool) { return append(cp(old), old...), len(old) > 0 }},
	{"pad-65", padTo(65)}, {"pad-96", padTo(96)}, {"pad-128", padTo(128)}, {"pad-33", padTo(33)},
	{"cut-1", func(c *Ctx, old []byte) ([]byte, bool) {
		if len(old) == 0 {
			return nil, false
		}
		return cp(old[:len(old)-1]), true
	}},
	{"cut-half", func(c *Ctx, old []byte) ([]byte, bool) { return cp(old[:len(old)/2]), len(old) > 1 }},
	{"cut-to-32", func(c *Ctx, old []byte) ([]byte, bool) {
		if len(old) <= 32 {
			return nil, false
		}
		return cp(old[:32]), true
	}},
	{"cut-first", func(c *Ctx, old []byte) ([]byte, bool) {
		if len(old) == 0 {
			return nil, false
		}
		return cp(old[1:]), true
	}},
	{"empty", func(c *Ctx, old []byte) ([]byte, bool) { return []byte{}, len(old) > 0 }},
	{"prepend-00", func(c *Ctx, old []byte) ([]byte, bool) { return append([]byte{0}, old...), true }},
	{"rotated", func(c *Ctx, old []byte) ([]byte, bool) {
		if len(old) < 2 {
			return nil, false
		}
		return append(cp(old[1:]), old[0]), true
	}},
	{"bitflip", func(c *Ctx, old []byte) ([]byte, bool) {
		if len(old) == 0 {
			return nil, false
		}
		n := cp(old)
		n[c.R.Intn(len(n))] ^= byte(1 << uint(c.R.Intn(8)))
		return n, true
	}},
	{"zeros", func(c *Ctx, old []byte) ([]byte, bool) { return make([]byte, len(old)), len(old) > 0 }},
}

// numbers: the honest value moved by one in BOTH directions (a value a check "at least what is needed" lets through on
// one side only), by k in both directions, halved, 0 (the "not set" value of a field a node fills in itself), 1, max,
// and the honest value the same field has in ANOTHER block of the history
var uintMutNames = []string{"plus-1", "minus-1", "plus-k", "minus-k", "half", "zero", "one", "max", "other-block"}

// uintDonors: per field name, the values that field had in the honest blocks seen so far (filled by the stream)
var uintDonors = map[string][]uint64{}

func noteUintDonors(obj interface{}, fields []string) {
	v := reflect.ValueOf(obj).Elem()
	for _, f := range fields {
		fv := v.FieldByName(f)
		if fv.IsValid() && fv.Kind() == reflect.Uint64 {
			l := uintDonors[f]
			if len(l) < 64 {
				uintDonors[f] = append(l, fv.Uint())
			}
		}
	}
}
var hashMutNames = []string{"random", "zero", "bitflip"}

// amounts (only fields the hash covers have this type)
var bigMutNames = []string{"plus-1", "minus-1", "zero", "doubled", "two-255", "plus-two-64"}

// fieldMutNames: the alterations available for a field of this type
func fieldMutNames(v reflect.Value) []string {
	switch {
	case v.Kind() == reflect.Uint64:
		return uintMutNames
	case isByteSlice(v):
		out := make([]string, len(byteMuts))
		for i, m := range byteMuts {
			out[i] = m.name
		}
		return out
	case isByteArray(v):
		return hashMutNames
	case isBigInt(v):
		return bigMutNames
	}
	return nil
}

// applyFieldMut alters field `field` of *obj; false = not applicable to the current value (or no change)
func applyFieldMut(c *Ctx, obj interface{}, field, mut string) bool {
	v := fieldByPath(reflect.ValueOf(obj).Elem(), field)
	if !v.IsValid() {
		return false
	}
	switch {
	case isBigInt(v):
		old := new(big.Int)
		if !v.IsNil() {
			old.Set(v.Interface().(*big.Int))
		}
		nv := new(big.Int).Set(old)
		switch mut {
		case "plus-1":
			nv.Add(nv, big.NewInt(1))
		case "minus-1":
			if old.Sign() <= 0 {
				return false
			}
			nv.Sub(nv, big.NewInt(1))
		case "zero":
			nv.SetInt64(0)
		case "doubled":
			nv.Lsh(nv, 1)
		case "two-255":
			nv.Lsh(big.NewInt(1), 255)
		case "plus-two-64":
			nv.Add(nv, new(big.Int).Lsh(big.NewInt(1), 64))
		}
		v.Set(reflect.ValueOf(nv))
		return nv.Cmp(old) != 0
	case v.Kind() == reflect.Uint64:
		old := v.Uint()
		nv := old
		switch mut {
		case "plus-1":
			nv = old + 1
		case "minus-1":
			if old == 0 {
				return false
			}
			nv = old - 1
		case "plus-k":
			nv = old + uint64(2+c.R.Intn(100000))
		case "minus-k":
			if old < 3 {
				return false
			}
			nv = old - uint64(2+c.R.Int63n(int64(old-2))) // 1 <= nv <= old-2
		case "half":
			nv = old / 2
		case "zero":
			nv = 0
		case "one":
			nv = 1
		case "max":
			nv = ^uint64(0)
		case "other-block":
			var cands []uint64
			for _, d := range uintDonors[field] {
				if d != old {
					cands = append(cands, d)
				}
			}
			if len(cands) == 0 {
				return false
			}
			nv = cands[c.R.Intn(len(cands))]
		}
		v.SetUint(nv)
		return nv != old
	case isByteSlice(v):
		for _, m := range byteMuts {
			if m.name == mut {
				nb, ok := m.f(c, v.Bytes())
				if !ok {
					return false
				}
				v.SetBytes(nb)
				return true
			}
		}
	case isByteArray(v):
		old := make([]byte, v.Len())
		reflect.Copy(reflect.ValueOf(old), v)
		nb := cp(old)
		switch mut {
		case "random":
			c.R.Read(nb)
		case "zero":
			nb = make([]byte, len(old))
		case "bitflip":
			nb[c.R.Intn(len(nb))] ^= byte(1 << uint(c.R.Intn(8)))
		}
		reflect.Copy(v, reflect.ValueOf(nb))
		return string(nb) != string(old)
	}
	return false
}

type fieldVariant struct{ field, mut string }

func (fv fieldVariant) name() string { return fv.field + ":" + fv.mut }

// all (uncovered field, alteration) pairs of a struct type
func fieldVariantsOf(sample interface{}, uncovered []string) []fieldVariant {
	var out []fieldVariant
	for _, f := range uncovered {
		for _, m := range fieldMutNames(fieldByPath(reflect.ValueOf(sample).Elem(), f)) {
			out = append(out, fieldVariant{f, m})
		}
	}
	return out
}

// The hash oracle of the whole variants stream is the harness's OWN pre-image (ownABHash / ownMomentumHash in
// s_variants_covered.go: the field list of the property's statement hashed with the harness's own SHA3 calls), not the
// repository's ComputeHash: "uncovered" = what the statement's pre-image does not cover. The repository's ComputeHash is
// only ever COMPARED with it (hashOraclesAgree, once per history).
func abUncoveredFields(b *nom.AccountBlock) []string {
	return uncoveredFieldsOf(func() interface{} { return cloneBlock(b) }, func(o interface{}) types.Hash { return ownABHash(o.(*nom.AccountBlock)) })
}

func momentumUncoveredFields(m *nom.Momentum) []string {
	return uncoveredFieldsOf(func() interface{} { return cloneMomentum(m) }, func(o interface{}) types.Hash { return ownMomentumHash(o.(*nom.Momentum)) })
}

// wire round trips: what a peer can actually deliver is the decoding of a message (the receiver rebuilds every cache,
// e.g. the producer address derived from the public key, from the bytes it got)
func rewireBlock(b *nom.AccountBlock) (nb *nom.AccountBlock) {
	defer func() {
		if recover() != nil {
			nb = nil
		}
	}()
	return cloneBlock(b)
}

func rewireMomentum(m *nom.Momentum) (nm *nom.Momentum) {
	defer func() {
		if recover() != nil {
			nm = nil
		}
	}()
	return cloneMomentum(m)
}
