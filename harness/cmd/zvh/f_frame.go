package main

// Facts for C15 (encrypted frames and discovery datagrams): the constants ZenonVerif/Model/Frame.lean computes with
// (live values of the packages, through the read-only hooks p2p/export_db_verif.go and p2p/discover/export_db_verif.go)
// and the SHAPE of the code the model follows (AST of the working tree):
//
//	rlpxFrameRW.ReadMsg / WriteMsg   the top-level statements in order (where each check stands), the sizes of the buffers
//	discover.decodePacket            the top-level statements in order, the cases of the packet-type switch
//	(*ping|pong|findnode|neighbors).handle   the first statement (the expiry test)
//	discover.init / readLoop         the datagram limit, the stuffing loop that computes maxNeighbors
//	findnode.handle                  the chunking loop
//	Peer.readLoop, Peer.run          what a ReadMsg error leads to (this peer's run loop ends, its own transport is closed)
//	udp.readLoop, udp.handlePacket   what a decodePacket error leads to (logged, returned, the loop goes on)
//
// Pinned by theorems of ZenonVerif/Props/C15Frame.lean.

import (
	"crypto/aes"
	"fmt"
	"go/ast"
	"go/parser"
	"go/token"
	"path/filepath"
	"strconv"
	"strings"
	"time"

	"golang.org/x/crypto/sha3"

	"github.com/zenon-network/go-zenon/p2p"
	"github.com/zenon-network/go-zenon/p2p/discover"
)

// frShape renders the top-level statements of a body (log records left out).
func frShape(fset *token.FileSet, body []ast.Stmt) []string {
	var out []string
	for _, st := range body {
		s := stmtShort(fset, st)
		if strings.HasPrefix(s, "common.P2PLogger.") || strings.HasPrefix(s, "log.") {
			continue
		}
		out = append(out, s)
	}
	return out
}

// frIntLits: every integer literal that occurs inside n, in source order.
func frIntLits(n ast.Node) []uint64 {
	var out []uint64
	ast.Inspect(n, func(m ast.Node) bool {
		if bl, ok := m.(*ast.BasicLit); ok && bl.Kind == token.INT {
			if v, err := strconv.ParseUint(bl.Value, 0, 64); err == nil {
				out = append(out, v)
			}
		}
		return true
	})
	return out
}

func init() {
	factGens = append(factGens, func(repo string) (*factFile, error) {
		f := newFactFile("Frame")
		fset := token.NewFileSet()
		parse := func(parts ...string) (*ast.File, error) {
			return parser.ParseFile(fset, filepath.Join(append([]string{repo}, parts...)...), nil, 0)
		}
		rf, err := parse("p2p", "rlpx.go")
		if err != nil {
			return nil, err
		}
		pf, err := parse("p2p", "peer.go")
		if err != nil {
			return nil, err
		}
		uf, err := parse("p2p", "discover", "udp.go")
		if err != nil {
			return nil, err
		}

		// ---- live constants ------------------------------------------------------------------------------------------------
		f.raw("-- p2p/rlpx.go, p2p/peer.go (live values through p2p/export_db_verif.go)\n")
		f.nat("FrMaxUint24", uint64(p2p.MaxUint24Verif))
		f.nat("FrBaseProtocolMaxMsgSize", uint64(p2p.BaseProtocolMaxMsgSizeVerif))
		f.nat("FrHandshakeMsg", uint64(p2p.HandshakeMsgVerif))
		f.nat("FrDiscMsg", uint64(p2p.DiscMsgVerif))
		zh := p2p.ZeroHeaderVerif()
		zs := make([]uint64, len(zh))
		for i, b := range zh {
			zs[i] = uint64(b)
		}
		f.natList("FrZeroHeader", zs)
		f.raw("-- libraries: size of a legacy Keccak-256 sum (the egress/ingress MAC hash), AES block size (updateMAC's aesbuf)\n")
		f.nat("FrHashSize", sha3.NewLegacyKeccak256().Size())
		f.nat("FrAesBlockSize", aes.BlockSize)
		f.raw("-- p2p/discover/udp.go (live values through p2p/discover/export_verif.go, export_db_verif.go)\n")
		f.nat("DiscMacSize", discover.MacSizeVerif)
		f.nat("DiscSigSize", discover.SigSizeVerif)
		f.nat("DiscHeadSize", discover.HeadSizeVerif)
		f.nat("DiscExpirationSec", discover.ExpirationNanosVerif/int64(time.Second))
		f.nat("DiscMaxNeighbors", discover.MaxNeighborsVerif())
		f.nat("DiscBucketSize", discover.BucketSizeVerif)
		f.nat("DiscPingPacket", discover.PingPacketVerif)
		f.nat("DiscPongPacket", discover.PongPacketVerif)
		f.nat("DiscFindnodePacket", discover.FindnodePacketVerif)
		f.nat("DiscNeighborsPacket", discover.NeighborsPacketVerif)
		f.nat("DiscNodeIDBytes", len(discover.NodeID{}))
		f.nat("DiscVersion", discover.Version)
		f.raw("-- package time: seconds between the internal epoch (year 1) and the Unix epoch: -time.Time{}.Unix()\n")
		f.nat("UnixToInternal", -time.Time{}.Unix())

		// ---- rlpx.go: ReadMsg / WriteMsg -----------------------------------------------------------------------------------
		rm := findMethod(rf, "rlpxFrameRW", "ReadMsg")
		wm := findMethod(rf, "rlpxFrameRW", "WriteMsg")
		um := findMethod(rf, "", "updateMAC")
		ri := findMethod(rf, "", "readInt24")
		pi := findMethod(rf, "", "putInt24")
		rh := findMethod(rf, "", "readProtocolHandshake")
		if rm == nil || wm == nil || um == nil || ri == nil || pi == nil || rh == nil {
			return nil, fmt.Errorf("rlpx.go: ReadMsg / WriteMsg / updateMAC / readInt24 / putInt24 / readProtocolHandshake not found")
		}
		f.raw("-- p2p/rlpx.go (AST of the working tree): top-level statements, an `if` as its test and the last statement of its body\n")
		f.strList("ReadMsgShape", frShape(fset, rm.Body.List))
		f.strList("WriteMsgShape", frShape(fset, wm.Body.List))
		f.strList("UpdateMACShape", frShape(fset, um.Body.List))
		f.strList("ReadInt24Shape", frShape(fset, ri.Body.List))
		f.strList("PutInt24Shape", frShape(fset, pi.Body.List))
		f.strList("ReadProtocolHandshakeShape", frShape(fset, rh.Body.List))
		// the header buffer: `headbuf := make([]byte, N)` — first statement of ReadMsg
		hdr := uint64(0)
		if as, ok := rm.Body.List[0].(*ast.AssignStmt); ok && exprStr(fset, as.Lhs[0]) == "headbuf" {
			if l := frIntLits(as.Rhs[0]); len(l) == 1 {
				hdr = l[0]
			}
		}
		if hdr == 0 {
			return nil, fmt.Errorf("rlpx.go ReadMsg: `headbuf := make([]byte, N)` not found as first statement")
		}
		f.nat("FrHeaderLen", hdr)

		// ---- peer.go: readLoop, run ------------------------------------------------------------------------------------------
		rl := findMethod(pf, "Peer", "readLoop")
		run := findMethod(pf, "Peer", "run")
		if rl == nil || run == nil {
			return nil, fmt.Errorf("peer.go: readLoop / run not found")
		}
		var rlBody []ast.Stmt
		if fs, ok := rl.Body.List[0].(*ast.ForStmt); ok && len(rl.Body.List) == 1 {
			rlBody = fs.Body.List
		}
		f.raw("-- p2p/peer.go (AST): the body of readLoop's `for`, the readErr case of run's select and what follows the loop\n")
		f.strList("PeerReadLoopBody", frShape(fset, rlBody))
		var rlErrBranch []string
		if len(rlBody) >= 2 {
			if is, ok := rlBody[1].(*ast.IfStmt); ok {
				rlErrBranch = append([]string{"if " + exprStr(fset, is.Cond)}, frShape(fset, is.Body.List)...)
			}
		}
		f.strList("PeerReadLoopErrBranch", rlErrBranch)
		var readErrCase, afterLoop []string
		for i, st := range run.Body.List {
			ls, ok := st.(*ast.LabeledStmt)
			if !ok {
				continue
			}
			ast.Inspect(ls, func(n ast.Node) bool {
				if cc, ok := n.(*ast.CommClause); ok && cc.Comm != nil && strings.Contains(exprStr(fset, cc.Comm), "<-readErr") {
					readErrCase = frShape(fset, cc.Body)
					// the `if … else` that picks the reason: both arms
					for _, b := range cc.Body {
						if is, ok := b.(*ast.IfStmt); ok {
							readErrCase = append(readErrCase, "then: "+strings.Join(frShape(fset, is.Body.List), "; "))
							if eb, ok := is.Else.(*ast.BlockStmt); ok {
								readErrCase = append(readErrCase, "else: "+strings.Join(frShape(fset, eb.List), "; "))
							}
						}
					}
				}
				return true
			})
			afterLoop = frShape(fset, run.Body.List[i+1:])
		}
		f.strList("PeerRunReadErrCase", readErrCase)
		f.strList("PeerRunAfterLoop", afterLoop)
		// every identifier selected from a receiver other than `p` / a local inside readLoop and the readErr path: none expected.
		// (what the error path can reach: p.rw, p.closed — fields of THIS peer)
		var touched []string
		seen := map[string]bool{}
		for _, n := range []ast.Node{rl.Body} {
			ast.Inspect(n, func(m ast.Node) bool {
				if se, ok := m.(*ast.SelectorExpr); ok {
					if id, ok := se.X.(*ast.Ident); ok {
						k := id.Name + "." + se.Sel.Name
						if !seen[k] {
							seen[k] = true
							touched = append(touched, k)
						}
					}
				}
				return true
			})
		}
		f.strList("PeerReadLoopSelectors", touched)

		// ---- udp.go -----------------------------------------------------------------------------------------------------------
		dp := findMethod(uf, "", "decodePacket")
		hp := findMethod(uf, "udp", "handlePacket")
		url := findMethod(uf, "udp", "readLoop")
		ex := findMethod(uf, "", "expired")
		ini := findMethod(uf, "", "init")
		if dp == nil || hp == nil || url == nil || ex == nil || ini == nil {
			return nil, fmt.Errorf("udp.go: decodePacket / handlePacket / readLoop / expired / init not found")
		}
		f.raw("-- p2p/discover/udp.go (AST)\n")
		f.strList("DecodePacketShape", frShape(fset, dp.Body.List))
		var cases []string
		ast.Inspect(dp.Body, func(n ast.Node) bool {
			if cc, ok := n.(*ast.CaseClause); ok {
				lbl := "default"
				if cc.List != nil {
					var ls []string
					for _, e := range cc.List {
						ls = append(ls, exprStr(fset, e))
					}
					lbl = strings.Join(ls, ",")
				}
				cases = append(cases, lbl+": "+strings.Join(frShape(fset, cc.Body), "; "))
			}
			return true
		})
		f.strList("DecodePacketCases", cases)
		f.strList("HandlePacketShape", frShape(fset, hp.Body.List))
		var urlBody []string
		var limits []uint64
		for _, st := range url.Body.List {
			urlBody = append(urlBody, stmtShort(fset, st))
			if fs, ok := st.(*ast.ForStmt); ok {
				urlBody = append(urlBody, frShape(fset, fs.Body.List)...)
			}
			if as, ok := st.(*ast.AssignStmt); ok && exprStr(fset, as.Lhs[0]) == "buf" {
				limits = append(limits, frIntLits(as.Rhs[0])...)
			}
		}
		f.strList("UdpReadLoopShape", urlBody)
		f.strList("ExpiredShape", frShape(fset, ex.Body.List))
		var first []string
		for _, ty := range []string{"ping", "pong", "findnode", "neighbors"} {
			h := findMethod(uf, ty, "handle")
			if h == nil || len(h.Body.List) == 0 {
				return nil, fmt.Errorf("udp.go: (*%s).handle not found", ty)
			}
			first = append(first, ty+": "+stmtShort(fset, h.Body.List[0]))
		}
		f.strList("HandleFirstStatement", first)
		// init(): the stuffing loop; the test that ends it
		var iniShape []string
		for _, st := range ini.Body.List {
			iniShape = append(iniShape, stmtShort(fset, st))
			if fs, ok := st.(*ast.ForStmt); ok {
				hd := "for " + exprStr(fset, fs.Init) + "; ; " + exprStr(fset, fs.Post)
				if fs.Cond != nil {
					hd = "for with condition " + exprStr(fset, fs.Cond)
				}
				iniShape = append(iniShape, hd)
				iniShape = append(iniShape, frShape(fset, fs.Body.List)...)
				for _, b := range fs.Body.List {
					if is, ok := b.(*ast.IfStmt); ok && strings.Contains(exprStr(fset, is.Cond), "headSize") {
						limits = append(limits, frIntLits(is.Cond)...)
						iniShape = append(iniShape, "then: "+strings.Join(frShape(fset, is.Body.List), "; "))
					}
				}
			}
		}
		f.strList("DiscInitShape", iniShape)
		// the datagram limit: the read buffer of readLoop, and the literals of init's test (`headSize+size+1 >= L`: 1 and L)
		f.natList("DiscLimitLiterals", limits)
		if len(limits) != 3 || limits[0] != limits[2] {
			return nil, fmt.Errorf("udp.go: the datagram limit of readLoop (%v) and of init's test are not the same literal", limits)
		}
		f.nat("DiscDatagramLimit", limits[0])
		// findnode.handle: the chunking loop
		fh := findMethod(uf, "findnode", "handle")
		var chunk []string
		for _, st := range fh.Body.List {
			if rs, ok := st.(*ast.RangeStmt); ok {
				chunk = append(chunk, "for "+exprStr(fset, rs.Key)+", "+exprStr(fset, rs.Value)+" := range "+exprStr(fset, rs.X))
				chunk = append(chunk, frShape(fset, rs.Body.List)...)
				for _, b := range rs.Body.List {
					if is, ok := b.(*ast.IfStmt); ok {
						chunk = append(chunk, "then: "+strings.Join(frShape(fset, is.Body.List), "; "))
					}
				}
			}
			if as, ok := st.(*ast.AssignStmt); ok && exprStr(fset, as.Lhs[0]) == "closest" {
				chunk = append(chunk, exprStr(fset, as))
			}
		}
		f.strList("FindnodeChunkLoop", chunk)
		return f, nil
	})
}
