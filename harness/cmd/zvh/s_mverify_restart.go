package main

import (
	"fmt"
	"os"
	"sort"
	"strings"
	"time"

	"github.com/zenon-network/go-zenon/common/db"
	"github.com/zenon-network/go-zenon/consensus"
	"github.com/zenon-network/go-zenon/consensus/api"
)

// ---------------------------------------------------------------------------------------------------
// mverify stream, restart family (C05: "every node — live, from its cache, after a restart — derives the same list").
//
// Next to the mock's own consensus instance (MemDB, never restarted) and the cold instances on an empty MemDB, the stream
// keeps a consensus instance over a PERSISTENT consensus database — a leveldb directory opened exactly as zenon.go does
// (db.NewLevelDB + consensus.NewConsensus, Init, Start: it listens to the chain and pre-computes elections and points).
// Every round it is asked for the schedule of the current ticks and of earlier ticks (computing and persisting what it
// did not have), then STOPPED, its leveldb closed, and a new instance is opened on the same directory: the restarted
// node must elect, for every slot of every tick it answered before, exactly the producer the live instance elects and a
// cold instance computes, and must report the same epoch statistics, pillar weights and delegations.
// ---------------------------------------------------------------------------------------------------

type persistentCs struct {
	dir      string
	cs       consensus.Consensus
	close    func()
	restarts int
}

func (e *mvEnv) openPersistent() {
	if e.pcs == nil {
		dir, err := os.MkdirTemp("", "zvconsensus")
		if err != nil {
			panic(err)
		}
		e.pcs = &persistentCs{dir: dir}
	}
	p := e.pcs
	raw, ldb := db.NewLevelDB(p.dir)
	p.cs = consensus.NewConsensus(raw, e.z.Chain(), true)
	if err := p.cs.Init(); err != nil {
		panic(err)
	}
	if err := p.cs.Start(); err != nil {
		panic(err)
	}
	p.close = func() {
		p.cs.Stop()
		ldb.Close()
	}
}

func (e *mvEnv) closePersistent(remove bool) {
	if e.pcs == nil {
		return
	}
	if e.pcs.close != nil {
		safely(e.pcs.close)
		e.pcs.close = nil
	}
	if remove {
		os.RemoveAll(e.pcs.dir)
		e.pcs = nil
	}
}

func statsText(s *api.EpochStats, err error) string {
	if err != nil {
		return "err"
	}
	if s == nil {
		return "<nil>"
	}
	names := make([]string, 0, len(s.Pillars))
	for k := range s.Pillars {
		names = append(names, k)
	}
	sort.Strings(names)
	ss := make([]string, len(names))
	for i, k := range names {
		p := s.Pillars[k]
		ss[i] = fmt.Sprintf("%s:%d/%d/%s", k, p.BlockNum, p.ExceptedBlockNum, p.Weight)
	}
	return fmt.Sprintf("epoch=%d blocks=%d total=%s [%s]", s.Epoch, s.TotalBlocks, s.TotalWeight, strings.Join(ss, " "))
}

// readerText: everything a PillarReader of the instance says about the frontier
func readerText(cs consensus.Consensus) (out string) {
	if p := safely(func() {
		r := cs.FrontierPillarReader()
		w, werr := r.GetPillarWeights()
		names := make([]string, 0, len(w))
		for k := range w {
			names = append(names, k)
		}
		sort.Strings(names)
		ws := make([]string, len(names))
		for i, k := range names {
			ws[i] = k + "=" + w[k].String()
		}
		d, derr := r.GetPillarDelegationsByEpoch(0)
		dn := make([]string, 0, len(d))
		for k := range d {
			dn = append(dn, k)
		}
		sort.Strings(dn)
		ds := make([]string, len(dn))
		for i, k := range dn {
			bk := make([]string, 0, len(d[k].Backers))
			for a, v := range d[k].Backers {
				bk = append(bk, addrName(a)+"="+v.String())
			}
			sort.Strings(bk)
			ds[i] = fmt.Sprintf("%s/%s/%s{%s}", k, addrName(d[k].Producing), d[k].Weight, strings.Join(bk, ","))
		}
		out = fmt.Sprintf("weights(err=%v)[%s] stats0{%s} stats1{%s} delegations0(err=%v)[%s]", werr != nil, strings.Join(ws, " "),
			statsText(r.EpochStats(0)), statsText(r.EpochStats(1)), derr != nil, strings.Join(ds, " "))
	}); p != "" {
		out = "panic: " + p
	}
	return out
}

// scheduleOf asks an instance for the producer of every slot of a tick
func (e *mvEnv) scheduleOf(cs consensus.Consensus, tick uint64) string {
	s, _ := e.cctx.ToTime(tick)
	list := make([]string, int(e.cctx.NodeCount))
	for i := range list {
		t := s.Add(time.Duration(int64(i)*e.cctx.BlockTime) * time.Second)
		var txt string
		if p := safely(func() {
			a, err := cs.GetMomentumProducer(t)
			if err != nil {
				txt = "none"
			} else {
				txt = addrName(*a)
			}
		}); p != "" {
			txt = "panic"
		}
		list[i] = txt
	}
	return strings.Join(list, ",")
}

// restartCheck: see the header. `cold` is a fresh instance on an empty MemDB, `ticks` the ticks of this round.
func (e *mvEnv) restartCheck(cold consensus.Consensus, tick uint64, ticks []uint64, withReader bool) {
	c := e.c
	if e.restartFailed {
		return // reported once
	}
	if e.pcs == nil {
		e.openPersistent()
	}
	// this round's ticks + up to four earlier ones
	set := map[uint64]bool{}
	for _, t := range ticks {
		set[t] = true
	}
	for k := 0; k < 4 && tick > 1; k++ {
		set[uint64(c.R.Int63n(int64(tick)))] = true
	}
	all := make([]uint64, 0, len(set))
	for t := range set {
		all = append(all, t)
	}
	sort.Slice(all, func(i, j int) bool { return all[i] < all[j] })
	// 1. the running persistent instance answers (and persists what it computes)
	before := map[uint64]string{}
	for _, t := range all {
		before[t] = e.scheduleOf(e.pcs.cs, t)
	}
	readerBefore := ""
	if withReader {
		readerBefore = readerText(e.pcs.cs)
	}
	// 2. restart: stop, close leveldb, open the same directory again
	e.closePersistent(false)
	if p := safely(e.openPersistent); p != "" {
		c.Fail("restart: the consensus database cannot be re-opened: %s", p)
		e.pcs = nil
		return
	}
	e.pcs.restarts++
	c.Hit("consensus-restart")
	// 3. the restarted instance vs the live (never restarted) instance, the instance before the restart, a cold instance
	for _, t := range all {
		after := e.scheduleOf(e.pcs.cs, t)
		live := e.scheduleOf(e.z.Consensus(), t)
		coldS := e.scheduleOf(cold, t)
		c.Hit("tick-compared-after-restart")
		if after != live || after != before[t] || after != coldS {
			nd := 0
			la, ll := strings.Split(after, ","), strings.Split(live, ",")
			for i := range la {
				if i < len(ll) && la[i] != ll[i] {
					nd++
				}
			}
			c.Fail("restart: schedule of tick %d (frontier at height %d): the node re-opened on its consensus database elects [%s]; the live instance elects [%s], the same instance before the restart [%s], a cold instance on an empty database [%s] — %d of %d slots differ from the live schedule after restart #%d",
				t, e.frontier().Height, after, live, before[t], coldS, nd, len(la), e.pcs.restarts)
			e.restartFailed = true
			return
		}
	}
	if !withReader {
		return
	}
	readerAfter, readerLive, readerCold := readerText(e.pcs.cs), readerText(e.z.Consensus()), readerText(cold)
	c.Hit("pillar-reader-compared-after-restart")
	if readerAfter != readerLive || readerAfter != readerBefore || readerAfter != readerCold {
		c.Fail("restart: epoch statistics / weights / delegations at height %d: restarted node says %s; live instance %s; before the restart %s; cold instance %s", e.frontier().Height, readerAfter, readerLive, readerBefore, readerCold)
	}
}
