package main

// `json-mar` / `json-unm` / `jsonm-mar` / `jsonm-unm` lines of the codec stream: the tie between the real JSON codec of
// account blocks and momentums (nom.AccountBlock.MarshalJSON / UnmarshalJSON, encoding/json on nom.Momentum) and the
// Lean JSON model.
//
//	json-mar  <oracle> <blockStr(b)>    | <tokens> | err | panic
//	json-unm  <oracle> <tokens of text> | ok <blockStr(r)> | err | nildesc | panic
//	jsonm-mar <oracle> <momentumStr(m)> | <tokens> | err | panic
//	jsonm-unm <oracle> <tokens of text> | ok <momentumStr(r)> | err | nilcontent | panic
//
// tokens: the compact form of jsonTokens (s_rpcserver_shape.go). On the -mar lines a null value of a member named
// data / publicKey / signature is printed as the empty string `s;` and a null `content` as `[]` (the model has no
// nil/empty distinction). On the -unm lines the tokens are those of the text, unchanged.
// oracle (-mar): hex(bytes)=String() of every address / token standard in the value, sorted, distinct, comma-joined.
// oracle (-unm): for every distinct string VALUE of the document `<hex|->=a:<hex of ParseAddress|err>;z:<hex of ParseZTS|err>`,
// sorted, comma-joined. `-` when there is none.

import (
	"bytes"
	"encoding/hex"
	"encoding/json"
	"fmt"
	"io"
	"sort"
	"strings"
	"unicode"

	"github.com/zenon-network/go-zenon/chain/nom"
	"github.com/zenon-network/go-zenon/common/types"
)

// ---- a tiny order-preserving JSON tree -------------------------------------------------------------------

type jm struct {
	name string
	val  *jv
}

type jv struct {
	kind byte   // z t f n s [ {
	lit  string // n: the literal
	str  string // s
	arr  []*jv
	mem  []jm
}

func jZ() *jv               { return &jv{kind: 'z'} }
func jT() *jv               { return &jv{kind: 't'} }
func jN(lit string) *jv     { return &jv{kind: 'n', lit: lit} }
func jS(s string) *jv       { return &jv{kind: 's', str: s} }
func jA(es ...*jv) *jv      { return &jv{kind: '[', arr: es} }
func jO(ms ...jm) *jv       { return &jv{kind: '{', mem: ms} }
func jM(n string, v *jv) jm { return jm{n, v} }

func jvParse(data []byte) (*jv, bool) {
	dec := json.NewDecoder(bytes.NewReader(data))
	dec.UseNumber()
	var val func() (*jv, error)
	val = func() (*jv, error) {
		t, err := dec.Token()
		if err != nil {
			return nil, err
		}
		switch x := t.(type) {
		case nil:
			return jZ(), nil
		case bool:
			if x {
				return jT(), nil
			}
			return &jv{kind: 'f'}, nil
		case json.Number:
			return jN(x.String()), nil
		case string:
			return jS(x), nil
		case json.Delim:
			switch x {
			case '[':
				r := &jv{kind: '['}
				for dec.More() {
					e, err := val()
					if err != nil {
						return nil, err
					}
					r.arr = append(r.arr, e)
				}
				if _, err := dec.Token(); err != nil {
					return nil, err
				}
				return r, nil
			case '{':
				r := &jv{kind: '{'}
				for dec.More() {
					k, err := dec.Token()
					if err != nil {
						return nil, err
					}
					ks, ok := k.(string)
					if !ok {
						return nil, fmt.Errorf("member name is %T", k)
					}
					e, err := val()
					if err != nil {
						return nil, err
					}
					r.mem = append(r.mem, jm{ks, e})
				}
				if _, err := dec.Token(); err != nil {
					return nil, err
				}
				return r, nil
			}
		}
		return nil, fmt.Errorf("unexpected token %v", t)
	}
	v, err := val()
	if err != nil {
		return nil, false
	}
	if _, err := dec.Token(); err != io.EOF {
		return nil, false
	}
	return v, true
}

func jvQuote(s string) string {
	d, _ := json.Marshal(s)
	return string(d)
}

func (v *jv) write(sb *strings.Builder) {
	switch v.kind {
	case 'z':
		sb.WriteString("null")
	case 't':
		sb.WriteString("true")
	case 'f':
		sb.WriteString("false")
	case 'n':
		sb.WriteString(v.lit)
	case 's':
		sb.WriteString(jvQuote(v.str))
	case '[':
		sb.WriteByte('[')
		for i, e := range v.arr {
			if i > 0 {
				sb.WriteByte(',')
			}
			e.write(sb)
		}
		sb.WriteByte(']')
	case '{':
		sb.WriteByte('{')
		for i, m := range v.mem {
			if i > 0 {
				sb.WriteByte(',')
			}
			sb.WriteString(jvQuote(m.name))
			sb.WriteByte(':')
			m.val.write(sb)
		}
		sb.WriteByte('}')
	}
}

func (v *jv) text() []byte {
	var sb strings.Builder
	v.write(&sb)
	return []byte(sb.String())
}

func (v *jv) clone() *jv {
	r := &jv{kind: v.kind, lit: v.lit, str: v.str}
	for _, e := range v.arr {
		r.arr = append(r.arr, e.clone())
	}
	for _, m := range v.mem {
		r.mem = append(r.mem, jm{m.name, m.val.clone()})
	}
	return r
}

// tokens with the key-aware normalisation of the -mar lines
func (v *jv) normTokens(sb *strings.Builder, key string) {
	switch v.kind {
	case 'z':
		switch key {
		case "data", "publicKey", "signature":
			sb.WriteString("s;")
		case "content":
			sb.WriteString("[]")
		default:
			sb.WriteByte('z')
		}
	case 't':
		sb.WriteByte('t')
	case 'f':
		sb.WriteByte('f')
	case 'n':
		sb.WriteString("n" + v.lit + ";")
	case 's':
		sb.WriteString("s" + hex.EncodeToString([]byte(v.str)) + ";")
	case '[':
		sb.WriteByte('[')
		for _, e := range v.arr {
			e.normTokens(sb, "")
		}
		sb.WriteByte(']')
	case '{':
		sb.WriteByte('{')
		for _, m := range v.mem {
			sb.WriteString(hex.EncodeToString([]byte(m.name)) + ":")
			m.val.normTokens(sb, m.name)
		}
		sb.WriteByte('}')
	}
}

func jsonTokensNorm(data []byte) (string, bool) {
	v, ok := jvParse(data)
	if !ok {
		return "", false
	}
	var sb strings.Builder
	v.normTokens(&sb, "")
	return sb.String(), true
}

func (v *jv) find(name string) int {
	for i, m := range v.mem {
		if m.name == name {
			return i
		}
	}
	return -1
}

// get: the value of the first member of that name (nil if absent or v is no object)
func (v *jv) get(name string) *jv {
	if v == nil || v.kind != '{' {
		return nil
	}
	if i := v.find(name); i >= 0 {
		return v.mem[i].val
	}
	return nil
}

// set replaces the value of the first member of that name (appends the member when absent)
func (v *jv) set(name string, val *jv) {
	if i := v.find(name); i >= 0 {
		v.mem[i].val = val
		return
	}
	v.mem = append(v.mem, jm{name, val})
}

func (v *jv) drop(name string) {
	if i := v.find(name); i >= 0 {
		v.mem = append(v.mem[:i:i], v.mem[i+1:]...)
	}
}

func (v *jv) shuffle(c *Ctx) {
	c.R.Shuffle(len(v.mem), func(i, j int) { v.mem[i], v.mem[j] = v.mem[j], v.mem[i] })
}

func (v *jv) strings(set map[string]bool) {
	switch v.kind {
	case 's':
		set[v.str] = true
	case '[':
		for _, e := range v.arr {
			e.strings(set)
		}
	case '{':
		for _, m := range v.mem {
			m.val.strings(set)
		}
	}
}

// ---- oracles -------------------------------------------------------------------------------------------------

func jmJoin(set map[string]bool) string {
	if len(set) == 0 {
		return "-"
	}
	es := make([]string, 0, len(set))
	for e := range set {
		es = append(es, e)
	}
	// sorted by the hex key (the part before '='), as strings
	key := func(e string) string { return e[:strings.IndexByte(e, '=')] }
	sort.Slice(es, func(i, j int) bool { return key(es[i]) < key(es[j]) })
	return strings.Join(es, ",")
}

func jmBlockOracleInto(set map[string]bool, b *nom.AccountBlock) {
	set[hex.EncodeToString(b.Address[:])+"="+b.Address.String()] = true
	set[hex.EncodeToString(b.ToAddress[:])+"="+b.ToAddress.String()] = true
	set[hex.EncodeToString(b.TokenStandard[:])+"="+b.TokenStandard.String()] = true
	for _, d := range b.DescendantBlocks {
		jmBlockOracleInto(set, d)
	}
}

func jmBlockOracle(b *nom.AccountBlock) string {
	set := map[string]bool{}
	jmBlockOracleInto(set, b)
	return jmJoin(set)
}

func jmMomentumOracle(m *nom.Momentum) string {
	set := map[string]bool{}
	for _, h := range m.Content {
		set[hex.EncodeToString(h.Address[:])+"="+h.Address.String()] = true
	}
	return jmJoin(set)
}

// jmTextOracle: how every string value of the document reads as an address and as a token standard
func jmTextOracle(doc *jv) string {
	strs := map[string]bool{}
	doc.strings(strs)
	set := map[string]bool{}
	for s := range strs {
		a, z := "err", "err"
		func() {
			defer func() {
				if recover() != nil {
					a = "panic"
				}
			}()
			if v, err := types.ParseAddress(s); err == nil {
				a = hex.EncodeToString(v[:])
			}
		}()
		func() {
			defer func() {
				if recover() != nil {
					z = "panic"
				}
			}()
			if v, err := types.ParseZTS(s); err == nil {
				z = hex.EncodeToString(v[:])
			}
		}()
		set[hx([]byte(s))+"=a:"+a+";z:"+z] = true
	}
	return jmJoin(set)
}

// ---- helpers ---------------------------------------------------------------------------------------------------

func jmComplete(b *nom.AccountBlock) bool {
	if b == nil || b.Amount == nil {
		return false
	}
	for _, d := range b.DescendantBlocks {
		if !jmComplete(d) {
			return false
		}
	}
	return true
}

func jmNoNilDesc(b *nom.AccountBlock) bool {
	if b == nil {
		return false
	}
	for _, d := range b.DescendantBlocks {
		if !jmNoNilDesc(d) {
			return false
		}
	}
	return true
}

func jmHex(c *Ctx, n int) string {
	const digits = "0123456789abcdef"
	bs := make([]byte, n)
	for i := range bs {
		bs[i] = digits[c.R.Intn(16)]
	}
	return string(bs)
}

func jmTitle(s string) string {
	if s == "" {
		return s
	}
	r := []rune(s)
	r[0] = unicode.ToUpper(r[0])
	return string(r)
}

func jmU64Lit(c *Ctx) string { return fmt.Sprintf("%d", cRandU64(c)) }

var jmAmountStrings = []string{"+5", "-5", "007", "1.5", "1e3", "", "<nil>", "0x10", " 5", "1_000",
	"115792089237316195423570985008687907853269984665640564039457584007913129639936"}

// the replacement values of a uint64 member
func jmU64Variant(c *Ctx) (*jv, string) {
	switch c.R.Intn(9) {
	case 0:
		return jS("12"), "string"
	case 1:
		return jN("1.0"), "1.0"
	case 2:
		return jN("1e2"), "1e2"
	case 3:
		return jN("-1"), "-1"
	case 4:
		return jN("-0"), "-0"
	case 5:
		return jN("18446744073709551616"), "2^64"
	case 6:
		return jN("18446744073709551615"), "2^64-1"
	case 7:
		return jZ(), "null"
	default:
		return jT(), "true"
	}
}

func jmHashVariant(c *Ctx) (*jv, string) {
	switch c.R.Intn(7) {
	case 0:
		return jS(jmHex(c, 63)), "63"
	case 1:
		return jS(jmHex(c, 65)), "65"
	case 2:
		return jS(strings.ToUpper(jmHex(c, 64))), "upper"
	case 3:
		return jS("0x" + jmHex(c, 62)), "0x"
	case 4:
		s := []byte(jmHex(c, 64))
		s[c.R.Intn(64)] = 'g'
		return jS(string(s)), "g"
	case 5:
		return jZ(), "null"
	default:
		return jN("5"), "number"
	}
}

func jmBytesVariant(c *Ctx) (*jv, string) {
	switch c.R.Intn(7) {
	case 0:
		return jZ(), "null"
	case 1:
		return jS(""), "empty"
	case 2:
		return jS("!!!!"), "badchars"
	case 3:
		return jS("QQ"), "nopad"
	case 4:
		return jS("QQ=="), "QQ=="
	case 5:
		return jS("QR=="), "trailingbits"
	default:
		return jS("QUJD"), "QUJD"
	}
}

// ---- account blocks ----------------------------------------------------------------------------------------------

var jmBlockU64 = []string{"version", "chainIdentifier", "blockType", "height", "fusedPlasma", "difficulty", "basePlasma", "usedPlasma", "momentumAcknowledged.height"}
var jmBlockHash = []string{"hash", "previousHash", "fromBlockHash", "changesHash", "momentumAcknowledged.hash"}

// jmSetPath: name or momentumAcknowledged.<name>
func jmSetPath(root *jv, path string, val *jv) {
	if strings.HasPrefix(path, "momentumAcknowledged.") {
		if ma := root.get("momentumAcknowledged"); ma != nil && ma.kind == '{' {
			ma.set(strings.TrimPrefix(path, "momentumAcknowledged."), val)
		}
		return
	}
	root.set(path, val)
}

// jmMutateBlock mutates the tree in place; class: "same" (the decoded block must equal the original), "drop-ok" (must
// decode), "drop-nonce" (must fail), "" (no model-free expectation)
func jmMutateBlock(c *Ctx, root *jv) (class string) {
	hit := func(s string) { c.Hit("jm-" + s) }
	descs := root.get("descendantBlocks")
	switch c.R.Intn(15) {
	case 0: // shuffle
		hit("shuffle")
		root.shuffle(c)
		if descs != nil && descs.kind == '[' && len(descs.arr) > 0 {
			if d := descs.arr[c.R.Intn(len(descs.arr))]; d.kind == '{' {
				hit("shuffle-desc")
				d.shuffle(c)
			}
		}
		return "same"
	case 1: // drop
		if len(root.mem) == 0 {
			return "same"
		}
		name := root.mem[c.R.Intn(len(root.mem))].name
		hit("drop-" + name)
		root.drop(name)
		if name == "nonce" {
			return "drop-nonce"
		}
		return "drop-ok"
	case 2:
		if len(root.mem) == 0 {
			return "same"
		}
		hit("name-upper")
		i := c.R.Intn(len(root.mem))
		root.mem[i].name = strings.ToUpper(root.mem[i].name)
		return "same"
	case 3:
		if len(root.mem) == 0 {
			return "same"
		}
		hit("name-title")
		i := c.R.Intn(len(root.mem))
		root.mem[i].name = jmTitle(root.mem[i].name)
		return "same"
	case 4: // unknown member
		var m jm
		switch c.R.Intn(3) {
		case 0:
			hit("unknown-foo")
			m = jM("foo", jN("1"))
		case 1:
			hit("unknown-Producer")
			m = jM("Producer", jS("x"))
		default:
			hit("unknown-timestamp")
			m = jM("timestamp", jN("5"))
		}
		i := c.R.Intn(len(root.mem) + 1)
		root.mem = append(root.mem[:i:i], append([]jm{m}, root.mem[i:]...)...)
		return "same"
	case 5: // a member a second time, at the end
		switch c.R.Intn(5) {
		case 0:
			ns := jmBlockU64[:8]
			n := ns[c.R.Intn(len(ns))]
			hit("dup-u64")
			root.mem = append(root.mem, jM(n, jN(jmU64Lit(c))))
		case 1:
			hit("dup-amount")
			root.mem = append(root.mem, jM("amount", jS(fmt.Sprintf("%d", c.R.Intn(1000000)))))
		case 2:
			ns := jmBlockHash[:4]
			hit("dup-hash")
			h := cRandHash(c)
			root.mem = append(root.mem, jM(ns[c.R.Intn(len(ns))], jS(h.String())))
		case 3:
			if c.R.Intn(2) == 0 {
				hit("dup-ma-height")
				root.mem = append(root.mem, jM("momentumAcknowledged", jO(jM("height", jN(jmU64Lit(c))))))
			} else {
				hit("dup-ma-hash")
				h := cRandHash(c)
				root.mem = append(root.mem, jM("momentumAcknowledged", jO(jM("hash", jS(h.String())))))
			}
		default:
			second := jA()
			switch {
			case descs != nil && descs.kind == '[' && len(descs.arr) > 0 && c.R.Intn(2) == 0:
				hit("dup-desc-reversed")
				for i := len(descs.arr) - 1; i >= 0; i-- {
					second.arr = append(second.arr, descs.arr[i].clone())
				}
			default:
				hit("dup-desc-minimal")
				for k := c.R.Intn(3); k > 0; k-- {
					second.arr = append(second.arr, jO(jM("nonce", jS(jmHex(c, 16))), jM("height", jN(jmU64Lit(c)))))
				}
			}
			root.mem = append(root.mem, jM("descendantBlocks", second))
		}
		return ""
	case 6: // amount
		k := c.R.Intn(len(jmAmountStrings) + 2)
		switch {
		case k < len(jmAmountStrings):
			hit(fmt.Sprintf("amount-s%d", k))
			root.set("amount", jS(jmAmountStrings[k]))
		case k == len(jmAmountStrings):
			hit("amount-number")
			root.set("amount", jN("5"))
		default:
			hit("amount-null")
			root.set("amount", jZ())
		}
		return ""
	case 7: // nonce
		var v *jv
		switch c.R.Intn(7) {
		case 0:
			hit("nonce-empty")
			v = jS("")
		case 1:
			hit("nonce-14")
			v = jS(jmHex(c, 14))
		case 2:
			hit("nonce-18")
			v = jS(jmHex(c, 18))
		case 3:
			hit("nonce-upper")
			v = jS(strings.ToUpper(jmHex(c, 16)))
		case 4:
			hit("nonce-zz")
			v = jS("zz" + jmHex(c, 14))
		case 5:
			hit("nonce-null")
			v = jZ()
		default:
			hit("nonce-number")
			v = jN("5")
		}
		root.set("nonce", v)
		return ""
	case 8: // a uint64 member
		path := jmBlockU64[c.R.Intn(len(jmBlockU64))]
		v, n := jmU64Variant(c)
		hit("u64-" + n)
		if strings.Contains(path, ".") {
			hit("u64-nested")
		}
		jmSetPath(root, path, v)
		return ""
	case 9: // a hash member
		path := jmBlockHash[c.R.Intn(len(jmBlockHash))]
		v, n := jmHashVariant(c)
		hit("hash-" + n)
		if strings.Contains(path, ".") {
			hit("hash-nested")
		}
		jmSetPath(root, path, v)
		return ""
	case 10: // data / publicKey / signature
		ns := []string{"data", "publicKey", "signature"}
		v, n := jmBytesVariant(c)
		hit("bytes-" + n)
		root.set(ns[c.R.Intn(3)], v)
		return ""
	case 11: // address / toAddress
		ns := []string{"address", "toAddress"}
		var v *jv
		switch c.R.Intn(5) {
		case 0:
			hit("addr-empty")
			v = jS("")
		case 1:
			hit("addr-badchecksum")
			v = jS("z1qqqqqqqqqqqqqqqqqqqqqqqqqqqqqqqqqsggv2g")
		case 2:
			hit("addr-null")
			v = jZ()
		case 3:
			hit("addr-other")
			v = jS(cRandAddr(c).String())
		default:
			hit("addr-zts")
			v = jS(cRandZts(c).String())
		}
		root.set(ns[c.R.Intn(2)], v)
		return ""
	case 12: // tokenStandard
		var v *jv
		switch c.R.Intn(4) {
		case 0:
			hit("zts-address")
			v = jS(cRandAddr(c).String())
		case 1:
			hit("zts-empty")
			v = jS("")
		case 2:
			hit("zts-null")
			v = jZ()
		default:
			hit("zts-other")
			v = jS(types.ZnnTokenStandard.String())
		}
		root.set("tokenStandard", v)
		return ""
	case 13: // momentumAcknowledged
		var v *jv
		switch c.R.Intn(4) {
		case 0:
			hit("ma-null")
			v = jZ()
		case 1:
			hit("ma-emptyobject")
			v = jO()
		case 2:
			hit("ma-array")
			v = jA()
		default:
			hit("ma-string")
			v = jS("x")
		}
		root.set("momentumAcknowledged", v)
		return ""
	default: // descendantBlocks
		switch c.R.Intn(7) {
		case 0:
			hit("desc-null")
			root.set("descendantBlocks", jZ())
		case 1:
			hit("desc-empty")
			root.set("descendantBlocks", jA())
		case 2:
			hit("desc-dropped")
			root.drop("descendantBlocks")
		case 3:
			hit("desc-nullelement")
			root.set("descendantBlocks", jA(jZ()))
		case 4:
			hit("desc-emptyobject")
			root.set("descendantBlocks", jA(jO()))
		case 5:
			if descs != nil && descs.kind == '[' && len(descs.arr) > 0 && descs.arr[0].kind == '{' {
				hit("desc-nononce")
				descs.arr[c.R.Intn(len(descs.arr))].drop("nonce")
			} else {
				hit("desc-emptyobject")
				root.set("descendantBlocks", jA(jO()))
			}
		default:
			hit("desc-number")
			root.set("descendantBlocks", jN("5"))
		}
		return ""
	}
}

// jmUnmBlock: one json-unm line and its monitor
func jmUnmBlock(c *Ctx, b *nom.AccountBlock, doc *jv, class string, wantHash types.Hash, wantSer []byte, monitored, emit bool) {
	text := doc.text()
	tokens, ok := jsonTokens(text)
	if !ok {
		c.Fail("json model: the mutated text is no JSON document :: %s", short(string(text)))
		return
	}
	var r *nom.AccountBlock
	var rerr error
	obs := cdGuard(func() string {
		r = new(nom.AccountBlock)
		rerr = r.UnmarshalJSON(text)
		if rerr != nil {
			return "err"
		}
		if !jmNoNilDesc(r) {
			return "nildesc"
		}
		return "ok " + blockStr(r)
	})
	if emit {
		c.Emit("json-unm %s %s | %s", jmTextOracle(doc), tokens, obs)
		c.Hit("jm-unm-" + strings.SplitN(obs, " ", 2)[0])
	}
	if !monitored {
		return
	}
	switch class {
	case "same":
		bad := ""
		switch {
		case obs == "panic" || obs == "err" || obs == "nildesc":
			bad = obs
			if rerr != nil {
				bad = "error " + rerr.Error()
			}
		default:
			if res := cdGuard(func() string {
				if h := r.ComputeHash(); h != wantHash {
					return fmt.Sprintf("hash %s -> %s", wantHash, h)
				}
				if !bytes.Equal(cjSerialize(r), wantSer) {
					return "serialisation differs"
				}
				return ""
			}); res != "" {
				bad = res
			}
		}
		if bad != "" {
			c.Fail("json round trip of an account block (%s): %s :: %s", class, bad, short(tokens))
		}
	case "drop-ok":
		if obs == "err" || obs == "panic" {
			c.Fail("json round trip of an account block: a text without one member (not nonce) is rejected (%v) :: %s", rerr, short(tokens))
		}
	case "drop-nonce":
		if obs != "err" {
			c.Fail("json round trip of an account block: a text without nonce is accepted (%s) :: %s", short(obs), short(tokens))
		}
	}
}

func codecJsonModel(c *Ctx, b *nom.AccountBlock) {
	if !jmComplete(b) {
		c.Hit("jm-skip-nil")
		return
	}
	defer func() {
		if r := recover(); r != nil {
			c.Fail("json model case panics (%v) :: %s", r, short(blockStr(b)))
		}
	}()
	var text []byte
	mar := cdGuard(func() string {
		data, err := b.MarshalJSON()
		if err != nil {
			return "err"
		}
		t, ok := jsonTokensNorm(data)
		if !ok {
			return "err"
		}
		text = data
		return t
	})
	// long data: keep the volume bounded — one case in four is emitted (the round-trip monitor runs on all)
	long := len(text) > 6000
	emit := !long || c.R.Intn(4) == 0
	if emit {
		c.Emit("json-mar %s %s | %s", jmBlockOracle(b), blockStr(b), mar)
	} else {
		c.Hit("jm-skip-long")
	}
	if text == nil {
		c.Hit("jm-mar-" + mar)
		return
	}
	c.Hit("jm-mar-ok")
	// what the round trips are compared with
	monitored := true
	var wantHash types.Hash
	var wantSer []byte
	if cdGuard(func() string {
		wantHash = b.ComputeHash()
		wantSer = cjSerialize(b)
		return ""
	}) == "panic" || wantSer == nil {
		monitored = false
	}
	doc, ok := jvParse(text)
	if !ok {
		c.Fail("json model: MarshalJSON output is no JSON document :: %s", short(blockStr(b)))
		return
	}
	c.Hit("jm-none")
	jmUnmBlock(c, b, doc, "same", wantHash, wantSer, monitored, emit)
	n := 3
	if long {
		n = 1
		c.Hit("jm-long-text")
	}
	for i := 0; i < n && emit; i++ {
		d := doc.clone()
		class := jmMutateBlock(c, d)
		jmUnmBlock(c, b, d, class, wantHash, wantSer, monitored, true)
	}
}

// ---- momentums -----------------------------------------------------------------------------------------------------

var jmMomHash = []string{"hash", "previousHash", "changesHash"}

func jmInsert(c *Ctx, v *jv, m jm) {
	i := c.R.Intn(len(v.mem) + 1)
	v.mem = append(v.mem[:i:i], append([]jm{m}, v.mem[i:]...)...)
}

func jmMutateMomentum(c *Ctx, root *jv) (class string) {
	hit := func(s string) { c.Hit("jmm-" + s) }
	content := root.get("content")
	hasElems := content != nil && content.kind == '[' && len(content.arr) > 0 && content.arr[0].kind == '{'
	elem := func() *jv { // one element object (a fresh one when content is empty)
		if hasElems {
			if e := content.arr[c.R.Intn(len(content.arr))]; e.kind == '{' {
				return e
			}
		}
		h := cRandHash(c)
		e := jO(jM("address", jS(cRandAddr(c).String())), jM("hash", jS(h.String())), jM("height", jN(jmU64Lit(c))))
		root.set("content", jA(e))
		return e
	}
	switch c.R.Intn(10) {
	case 0:
		hit("shuffle")
		root.shuffle(c)
		return "same"
	case 1:
		if len(root.mem) == 0 {
			return "same"
		}
		name := root.mem[c.R.Intn(len(root.mem))].name
		hit("drop-" + name)
		root.drop(name)
		return "drop-ok"
	case 2:
		if len(root.mem) == 0 {
			return "same"
		}
		i := c.R.Intn(len(root.mem))
		if c.R.Intn(2) == 0 {
			hit("name-upper")
			root.mem[i].name = strings.ToUpper(root.mem[i].name)
		} else {
			hit("name-title")
			root.mem[i].name = jmTitle(root.mem[i].name)
		}
		return "same"
	case 3: // unknown members
		switch c.R.Intn(3) {
		case 0:
			hit("unknown-Timestamp") // folds onto `timestamp`: not unknown at all
			jmInsert(c, root, jM("Timestamp", jS("2020-01-01T00:00:00Z")))
			return ""
		case 1:
			hit("unknown-dash")
			jmInsert(c, root, jM("-", jN("1")))
		default:
			hit("unknown-foo")
			jmInsert(c, root, jM("foo", jO()))
		}
		return "same"
	case 4: // timestamp
		var v *jv
		switch c.R.Intn(4) {
		case 0:
			hit("timestamp-string")
			v = jS("12")
		case 1:
			hit("timestamp-1.0")
			v = jN("1.0")
		case 2:
			hit("timestamp--1")
			v = jN("-1")
		default:
			hit("timestamp-null")
			v = jZ()
		}
		root.set("timestamp", v)
		return ""
	case 5: // content as a whole
		switch c.R.Intn(3) {
		case 0:
			hit("content-null")
			root.set("content", jZ())
		case 1:
			hit("content-empty")
			root.set("content", jA())
		default:
			hit("content-nullelement")
			root.set("content", jA(jZ()))
		}
		return ""
	case 6: // one element
		switch c.R.Intn(4) {
		case 0:
			if !hasElems {
				hit("content-element-shuffle-none")
				return "same"
			}
			hit("content-element-shuffle")
			elem().shuffle(c)
			return "same"
		case 1:
			hit("content-element-noheight")
			elem().drop("height")
			return ""
		case 2:
			hit("content-element-emptyobject")
			e := elem()
			e.mem = nil
			return ""
		default:
			if !hasElems {
				hit("content-element-unknown-none")
				return "same"
			}
			hit("content-element-unknown")
			jmInsert(c, elem(), jM("foo", jN("1")))
			return "same"
		}
	case 7: // content a second time: the elements carry only a height
		if root.find("content") < 0 {
			root.set("content", jA())
		}
		n := 0
		if content != nil && content.kind == '[' {
			n = len(content.arr)
		}
		k := n
		switch c.R.Intn(3) {
		case 0:
			hit("content-dup-same")
		case 1:
			hit("content-dup-shorter")
			if n > 0 {
				k = c.R.Intn(n)
			}
		default:
			hit("content-dup-longer")
			k = n + 1 + c.R.Intn(2)
		}
		second := jA()
		for i := 0; i < k; i++ {
			second.arr = append(second.arr, jO(jM("height", jN(jmU64Lit(c)))))
		}
		root.mem = append(root.mem, jM("content", second))
		return ""
	case 8:
		v, n := jmHashVariant(c)
		hit("hash-" + n)
		root.set(jmMomHash[c.R.Intn(len(jmMomHash))], v)
		return ""
	default:
		ns := []string{"data", "publicKey", "signature"}
		v, n := jmBytesVariant(c)
		hit("bytes-" + n)
		root.set(ns[c.R.Intn(3)], v)
		return ""
	}
}

func jmSerializeMomentum(m *nom.Momentum) (out []byte) {
	defer func() {
		if recover() != nil {
			out = nil
		}
	}()
	d, err := m.Serialize()
	if err != nil {
		return nil
	}
	return d
}

func jmUnmMomentum(c *Ctx, doc *jv, class string, wantHash types.Hash, wantSer []byte, monitored, emit bool) {
	text := doc.text()
	tokens, ok := jsonTokens(text)
	if !ok {
		c.Fail("json model: the mutated momentum text is no JSON document :: %s", short(string(text)))
		return
	}
	var r *nom.Momentum
	var rerr error
	obs := cdGuard(func() string {
		r = new(nom.Momentum)
		rerr = json.Unmarshal(text, r)
		if rerr != nil {
			return "err"
		}
		for _, h := range r.Content {
			if h == nil {
				return "nilcontent"
			}
		}
		return "ok " + momentumStr(r)
	})
	if emit {
		c.Emit("jsonm-unm %s %s | %s", jmTextOracle(doc), tokens, obs)
		c.Hit("jmm-unm-" + strings.SplitN(obs, " ", 2)[0])
	}
	if !monitored {
		return
	}
	switch class {
	case "same":
		bad := ""
		switch {
		case obs == "panic" || obs == "err" || obs == "nilcontent":
			bad = obs
			if rerr != nil {
				bad = "error " + rerr.Error()
			}
		default:
			if res := cdGuard(func() string {
				if h := r.ComputeHash(); h != wantHash {
					return fmt.Sprintf("hash %s -> %s", wantHash, h)
				}
				if !bytes.Equal(jmSerializeMomentum(r), wantSer) {
					return "serialisation differs"
				}
				return ""
			}); res != "" {
				bad = res
			}
		}
		if bad != "" {
			c.Fail("json round trip of a momentum (%s): %s :: %s", class, bad, short(tokens))
		}
	case "drop-ok":
		if obs == "err" || obs == "panic" {
			c.Fail("json round trip of a momentum: a text without one member is rejected (%v) :: %s", rerr, short(tokens))
		}
	}
}

func codecJsonModelMomentum(c *Ctx, m *nom.Momentum) {
	if m == nil {
		c.Hit("jm-skip-nil")
		return
	}
	for _, h := range m.Content {
		if h == nil {
			c.Hit("jm-skip-nil")
			return
		}
	}
	defer func() {
		if r := recover(); r != nil {
			c.Fail("json model momentum case panics (%v) :: %s", r, short(momentumStr(m)))
		}
	}()
	var text []byte
	mar := cdGuard(func() string {
		data, err := json.Marshal(m)
		if err != nil {
			return "err"
		}
		t, ok := jsonTokensNorm(data)
		if !ok {
			return "err"
		}
		text = data
		return t
	})
	long := len(text) > 6000
	emit := !long || c.R.Intn(4) == 0
	if emit {
		c.Emit("jsonm-mar %s %s | %s", jmMomentumOracle(m), momentumStr(m), mar)
	} else {
		c.Hit("jmm-skip-long")
	}
	if text == nil {
		c.Hit("jmm-mar-" + mar)
		return
	}
	c.Hit("jmm-mar-ok")
	monitored := true
	var wantHash types.Hash
	var wantSer []byte
	if cdGuard(func() string {
		wantHash = m.ComputeHash()
		wantSer = jmSerializeMomentum(m)
		return ""
	}) == "panic" || wantSer == nil {
		monitored = false
	}
	doc, ok := jvParse(text)
	if !ok {
		c.Fail("json model: json.Marshal of a momentum is no JSON document :: %s", short(momentumStr(m)))
		return
	}
	c.Hit("jmm-none")
	jmUnmMomentum(c, doc, "same", wantHash, wantSer, monitored, emit)
	n := 3
	if long {
		n = 1
		c.Hit("jmm-long-text")
	}
	for i := 0; i < n && emit; i++ {
		d := doc.clone()
		class := jmMutateMomentum(c, d)
		jmUnmMomentum(c, d, class, wantHash, wantSer, monitored, true)
	}
}
