package main

import (
	"fmt"
	"math/big"
	"os"
	"sort"
	"strings"

	g "github.com/zenon-network/go-zenon/chain/genesis/mock"
	"github.com/zenon-network/go-zenon/chain/nom"
	"github.com/zenon-network/go-zenon/common/db"
	"github.com/zenon-network/go-zenon/common/types"
	"github.com/zenon-network/go-zenon/consensus"
	"github.com/zenon-network/go-zenon/vm/embedded/definition"
	"github.com/zenon-network/go-zenon/wallet"
	"github.com/zenon-network/go-zenon/zenon/mock"
)

// ---------------------------------------------------------------------------------------------------
// mverify stream, LATE-START family (C05: "the schedule of a tick is a pure function of the ledger as of that tick's proof
// momentum: every node - computing it live, from its cache, after a restart ... - derives the same ordered list").
//
// The instances of the other families either follow the chain from genesis (the mock's own), never listen (cold instances)
// or are restarted on a consensus database that already holds every election (persistent instance). A node bootstrapped
// from a ledger snapshot, a node whose consensus database was lost, or a consensus module started late begins to LISTEN in
// the middle of a tick on an EMPTY consensus database: the first momentums it is notified of (chain.Register ->
// InsertMomentum, exactly the wiring of consensus.Start) are not the first of their tick, and the elections it pre-computes
// and persists from those notifications must still be the elections of the proof momentums. The family
//   1. changes the pillar weights (ZNN transfer of a backer, delegate, undelegate - so that the ORDER of the pillars by
//      weight differs from the one at the last momentum of the previous tick whenever possible) and has the change
//      confirmed by a momentum of the mock's producer,
//   2. starts a consensus instance on an empty database (MemDB or a leveldb directory) at that height - every offset within
//      a tick occurs over a run - and lets the following momentum insertions of the stream reach its listeners,
//   3. after every round asks it for the whole schedule of the current and the next two ticks and compares with a cold
//      on-demand instance and with the instance that followed the chain from genesis; leveldb instances are re-opened
//      (restart) and asked again; after a few rounds the instance is stopped and the next one started.
// ---------------------------------------------------------------------------------------------------

type midCs struct {
	cs          consensus.Consensus
	stop        func()
	reopen      func() // leveldb instances: stop, close, open the same directory again
	startHeight uint64
	startTick   uint64
	offset      int64 // slot of the start frontier within its tick
	rounds      int
	changed     bool
	what        string
}

func (e *mvEnv) weightOrderAt(id types.HashHeight) (order string, full string) {
	if p := safely(func() {
		dd, err := e.z.Chain().GetMomentumStore(id).ComputePillarDelegations()
		if err != nil {
			panic(err)
		}
		pd := types.ToPillarDelegation(dd)
		sort.Sort(types.SortPDByWeight(pd))
		names := make([]string, len(pd))
		all := make([]string, len(pd))
		for i, d := range pd {
			names[i] = d.Name
			all[i] = d.Name + "=" + d.Weight.String()
		}
		order, full = strings.Join(names, ">"), strings.Join(all, " ")
	}); p != "" {
		return "?", "?"
	}
	return
}

// znnOf: the ZNN an account can move away (the accounts the other families of the stream send from keep a reserve)
func (e *mvEnv) znnOf(a types.Address) *big.Int {
	b, err := e.z.Chain().GetFrontierMomentumStore().GetAccountStore(a).GetBalance(types.ZnnTokenStandard)
	if err != nil || b == nil {
		return big.NewInt(0)
	}
	if a == g.User1.Address || a == g.User2.Address {
		b = new(big.Int).Sub(b, big.NewInt(1000*g.Zexp))
		if b.Sign() < 0 {
			return big.NewInt(0)
		}
	}
	return b
}

// proofOfNext: the last momentum of the tick before the frontier's tick (= proof momentum of the tick after the frontier's)
func (e *mvEnv) lastOfPreviousTick() *nom.Momentum {
	f := e.frontier()
	tick := e.cctx.ToTick(*f.Timestamp)
	if tick == 0 {
		return nil
	}
	_, end := e.cctx.ToTime(tick - 1)
	return e.refBefore(end)
}

// a weight change confirmed by one (transfer) or two (contract call) momentums of the mock's own producer
func (e *mvEnv) midWeightChange() string {
	c := e.c
	z := e.z
	backers := []*wallet.KeyPair{g.User1, g.User2, g.User3, g.User4, g.User5, g.Pillar1, g.Pillar2, g.Pillar3}
	sinks := []*wallet.KeyPair{g.User6, g.User7, g.User8, g.User9, g.User10}
	what := ""
	if p := safely(func() {
		dd, err := z.Chain().GetFrontierMomentumStore().ComputePillarDelegations()
		if err != nil || len(dd) < 2 {
			what = "nothing"
			return
		}
		sort.SliceStable(dd, func(i, j int) bool { return dd[i].Weight.Cmp(dd[j].Weight) > 0 })
		backs := func(a types.Address) string {
			for _, d := range dd {
				if _, ok := d.Backers[a]; ok {
					return d.Name
				}
			}
			return ""
		}
		delegate := func(who *wallet.KeyPair, name string) {
			z.InsertSendBlock(&nom.AccountBlock{Address: who.Address, ToAddress: types.PillarContract,
				Data:          definition.ABIPillars.PackMethodPanic(definition.DelegateMethodName, name),
				TokenStandard: types.ZnnTokenStandard, Amount: big.NewInt(0)}, nil, mock.SkipVmChanges)
			z.InsertNewMomentum()
			z.InsertNewMomentum()
			what = fmt.Sprintf("%s (ZNN %s, backing %q) delegates to %s", addrName(who.Address), e.znnOf(who.Address), backs(who.Address), name)
		}
		switch k := c.R.Intn(14); {
		case k < 3:
			// a backer moves between a tenth and half of its ZNN away
			from := backers[c.R.Intn(len(backers))]
			bal := e.znnOf(from.Address)
			amount := new(big.Int).Div(new(big.Int).Mul(bal, big.NewInt(int64(1+c.R.Intn(5)))), big.NewInt(10))
			if amount.Sign() <= 0 {
				what = "nothing"
				return
			}
			to := sinks[c.R.Intn(len(sinks))]
			z.InsertSendBlock(&nom.AccountBlock{Address: from.Address, ToAddress: to.Address,
				TokenStandard: types.ZnnTokenStandard, Amount: amount}, nil, mock.SkipVmChanges)
			z.InsertNewMomentum()
			what = fmt.Sprintf("%s sends %s ZNN-units to %s", addrName(from.Address), amount, addrName(to.Address))
		case k < 8:
			// an account that backs a pillar (or did) delegates to another one
			who := backers[c.R.Intn(5)]
			cur := backs(who.Address)
			var names []string
			for _, d := range dd {
				if d.Name != cur {
					names = append(names, d.Name)
				}
			}
			delegate(who, names[c.R.Intn(len(names))])
		case k < 11:
			// directed: the largest backer of the heaviest pillar goes over to the lightest
			var who *wallet.KeyPair
			best := big.NewInt(-1)
			for a := range dd[0].Backers {
				if kp := keyOf(a); kp != nil && kp != g.Pillar1 && kp != g.Pillar2 && kp != g.Pillar3 {
					if b := e.znnOf(a); b.Cmp(best) > 0 {
						who, best = kp, b
					}
				}
			}
			if who == nil {
				who = backers[c.R.Intn(5)]
			}
			delegate(who, dd[len(dd)-1].Name)
		case k < 12:
			who := backers[c.R.Intn(5)]
			z.InsertSendBlock(&nom.AccountBlock{Address: who.Address, ToAddress: types.PillarContract,
				Data:          definition.ABIPillars.PackMethodPanic(definition.UndelegateMethodName),
				TokenStandard: types.ZnnTokenStandard, Amount: big.NewInt(0)}, nil, mock.SkipVmChanges)
			z.InsertNewMomentum()
			z.InsertNewMomentum()
			what = fmt.Sprintf("%s undelegates", addrName(who.Address))
		default:
			i := c.R.Intn(len(dd) - 1)
			diff := new(big.Int).Sub(dd[i].Weight, dd[i+1].Weight)
			var from *wallet.KeyPair
			best := big.NewInt(0)
			for a := range dd[i].Backers {
				if kp := keyOf(a); kp != nil {
					if b := e.znnOf(a); b.Cmp(best) > 0 {
						from, best = kp, b
					}
				}
			}
			if from == nil {
				what = "nothing"
				return
			}
			amount := new(big.Int).Add(diff, big.NewInt(int64(1+c.R.Intn(100))*g.Zexp))
			if amount.Cmp(best) > 0 {
				amount = new(big.Int).Set(best)
			}
			if amount.Sign() <= 0 {
				what = "nothing"
				return
			}
			to := sinks[c.R.Intn(len(sinks))]
			z.InsertSendBlock(&nom.AccountBlock{Address: from.Address, ToAddress: to.Address,
				TokenStandard: types.ZnnTokenStandard, Amount: amount}, nil, mock.SkipVmChanges)
			z.InsertNewMomentum()
			what = fmt.Sprintf("%s (largest backer of %s) sends %s ZNN-units to %s", addrName(from.Address), dd[i].Name, amount, addrName(to.Address))
		}
	}); p != "" {
		c.Hit("mid-weight-change-failed")
		return "failed: " + p
	}
	return what
}

// midStart: called before a round when no late instance is alive. Returns true when the next round should stay in the tick.
func (e *mvEnv) midStart() bool {
	c := e.c
	ch := e.z.Chain()
	what := e.midWeightChange()
	f := e.frontier()
	m := &midCs{startHeight: f.Height, startTick: e.cctx.ToTick(*f.Timestamp), what: what}
	s, _ := e.cctx.ToTime(m.startTick)
	m.offset = (f.Timestamp.Unix() - s.Unix()) / e.cctx.BlockTime
	if proof := e.lastOfPreviousTick(); proof != nil {
		o1, f1 := e.weightOrderAt(proof.Identifier())
		o2, f2 := e.weightOrderAt(f.Identifier())
		if os.Getenv("ZVH_DEBUG_LATE") != "" {
			fmt.Fprintf(os.Stderr, "LATE what=%s proof[%s] start[%s]\n", what, f1, f2)
		}
		if f1 != f2 {
			m.changed = true
			c.Hit("late-start-weights-differ-from-proof-momentum")
		}
		if o1 != o2 {
			c.Hit("late-start-weight-ORDER-differs-from-proof-momentum")
		}
		if proof.Height == f.Height {
			c.Hit("late-start-on-the-proof-momentum-itself")
		}
	}
	if c.R.Intn(3) == 0 {
		dir, err := os.MkdirTemp("", "zvlatecs")
		if err != nil {
			panic(err)
		}
		var closeDb func()
		open := func() {
			raw, ldb := db.NewLevelDB(dir)
			m.cs = consensus.NewConsensus(raw, ch, true)
			if err := m.cs.Init(); err != nil {
				panic(err)
			}
			if err := m.cs.Start(); err != nil {
				panic(err)
			}
			closeDb = func() { ldb.Close() }
		}
		open()
		m.reopen = func() {
			m.cs.Stop()
			closeDb()
			open()
		}
		m.stop = func() {
			m.cs.Stop()
			closeDb()
			os.RemoveAll(dir)
		}
		c.Hit("late-start-on-empty-leveldb")
	} else {
		m.cs = consensus.NewConsensus(db.NewMemDB(), ch, true)
		if err := m.cs.Init(); err != nil {
			panic(err)
		}
		if err := m.cs.Start(); err != nil {
			panic(err)
		}
		m.stop = func() { m.cs.Stop() }
		c.Hit("late-start-on-empty-memdb")
	}
	c.Hit(fmt.Sprintf("late-start-at-slot-offset-%02d", m.offset))
	e.mid = m
	return m.offset < int64(e.cctx.NodeCount)-1
}

// midCheck: after a round (the stream's momentum insertions reached the late instance's listeners)
func (e *mvEnv) midCheck() {
	c := e.c
	m := e.mid
	if m == nil {
		return
	}
	m.rounds++
	f := e.frontier()
	tick := e.cctx.ToTick(*f.Timestamp)
	if tick == m.startTick && f.Height > m.startHeight {
		c.Hit("late-instance-notified-within-its-start-tick")
		if m.changed {
			c.Hit("late-instance-notified-within-its-start-tick-after-a-weight-change")
		}
	}
	cold := consensus.NewConsensus(db.NewMemDB(), e.z.Chain(), true)
	compare := func(when string) bool {
		for _, tk := range []uint64{tick, tick + 1, tick + 2} {
			late := e.scheduleOf(m.cs, tk)
			coldS := e.scheduleOf(cold, tk)
			live := e.scheduleOf(e.z.Consensus(), tk)
			c.Hit("late-instance-tick-compared")
			if late != coldS || late != live {
				nd := 0
				la, lc := strings.Split(late, ","), strings.Split(coldS, ",")
				for i := range la {
					if i < len(lc) && la[i] != lc[i] {
						nd++
					}
				}
				proofTxt := "?"
				if p := e.refBefore(consensus.GenProofTimeVerif(e.cctx, tk)); p != nil {
					_, w := e.weightOrderAt(p.Identifier())
					proofTxt = fmt.Sprintf("height %d, weights there [%s]", p.Height, w)
				}
				_, wStart := e.weightOrderAt(types.HashHeight{Hash: func() types.Hash {
					x, _ := e.z.Chain().GetFrontierMomentumStore().GetMomentumByHeight(m.startHeight)
					return x.Hash
				}(), Height: m.startHeight})
				c.Fail("late-start: schedule of tick %d (frontier at height %d, tick %d): a consensus instance started on an EMPTY consensus database at height %d (slot %d of tick %d, after: %s; weights at its start [%s]) and notified of the %d momentums inserted since elects %s [%s]; a cold on-demand instance elects [%s], the instance that followed the chain from genesis [%s] (%d of %d slots differ; proof momentum of the tick: %s) - the schedule is not a function of the ledger as of the proof momentum",
					tk, f.Height, tick, m.startHeight, m.offset, m.startTick, m.what, wStart, f.Height-m.startHeight, when, late, coldS, live, nd, len(la), proofTxt)
				return false
			}
		}
		return true
	}
	ok := compare("(asked live)")
	if ok && m.reopen != nil {
		if p := safely(m.reopen); p != "" {
			c.Fail("late-start: the consensus database of the late instance cannot be re-opened: %s", p)
			ok = false
		} else {
			c.Hit("late-instance-restarted")
			ok = compare("(asked after a restart on its consensus database)")
		}
	}
	// retire: after a failure, after 3 rounds, or once the chain is two ticks past the start
	if !ok || m.rounds >= 3 || tick >= m.startTick+2 {
		safely(m.stop)
		e.mid = nil
	}
}
