package main

import (
	"bytes"
	"fmt"
	"math/big"
	"sort"

	g "github.com/zenon-network/go-zenon/chain/genesis/mock"
	"github.com/zenon-network/go-zenon/chain/nom"
	"github.com/zenon-network/go-zenon/common/types"
	"github.com/zenon-network/go-zenon/wallet"
)

// ---------------------------------------------------------------------------------------------------
// variants stream, state part (C13). Two families the per-round part of s_variants.go does not reach:
//
//  1. GENERATED blocks by gossip: the contract receive blocks (with their descendants) a pillar generated for confirmed
//     contract calls sit unconfirmed in the producer's pool; a relaying peer alters a field the hash does not cover -
//     above all the public key / signature, which honest contract blocks leave empty, so "altered" means FILLED: one
//     byte, 32 / 64 random bytes, a real pillar or user key, a valid signature by some key over the hash, both - on the
//     receive or on one of its descendants, and delivers it (ChainBridge.AddAccountBlocks) to a follower before the
//     honest copy and before the confirming momentum.
//  2. variants delivered AFTER the node has verified the honest original and then LOST it: an unconfirmed user block the
//     node verified and pooled (gossip), and a block it verified inside a momentum, both dropped by a reorganisation to
//     a longer side branch (InsertChain rolls back; the pool is emptied) on which they are still valid; then every
//     signature / public-key / plasma variant of them is presented by gossip, and inside a lying peer's momentum.
//
// The monitor is the property's sentence: whatever the follower accepts is stored with the bytes of the original, and
// the follower goes on to accept the producer's momentums and ends in the reference follower's state.
// ---------------------------------------------------------------------------------------------------

func randBytes(c *Ctx, n int) []byte {
	x := make([]byte, n)
	c.R.Read(x)
	return x
}

// someKey: a key nobody needs to steal - the attacker's own (user 9, user 10), or the public part of a pillar's key with
// the attacker's own signature material where only the public key is used
func someKey(c *Ctx) (*wallet.KeyPair, string) {
	switch c.R.Intn(3) {
	case 0:
		return g.User9, "user"
	case 1:
		return g.User10, "user"
	}
	return g.PillarKeys[c.R.Intn(len(g.PillarKeys))], "pillar"
}

// keyVariants: the directed alterations of the two fields that carry key material
func keyVariants() []variantKind {
	return []variantKind{
		{"public-key-1-byte", func(c *Ctx, b *nom.AccountBlock) bool { b.PublicKey = randBytes(c, 1); return true }},
		{"public-key-32-random", func(c *Ctx, b *nom.AccountBlock) bool { b.PublicKey = randBytes(c, 32); return true }},
		{"public-key-real", func(c *Ctx, b *nom.AccountBlock) bool {
			kp, _ := someKey(c)
			if bytes.Equal(kp.Public, b.PublicKey) {
				return false
			}
			b.PublicKey = cp(kp.Public)
			return true
		}},
		{"signature-1-byte", func(c *Ctx, b *nom.AccountBlock) bool { b.Signature = randBytes(c, 1); return true }},
		{"signature-64-random", func(c *Ctx, b *nom.AccountBlock) bool { b.Signature = randBytes(c, 64); return true }},
		{"signature-64-same-byte", func(c *Ctx, b *nom.AccountBlock) bool {
			b.Signature = bytes.Repeat([]byte{byte(c.R.Intn(256))}, 64)
			return true
		}},
		{"signature-valid-by-some-key", func(c *Ctx, b *nom.AccountBlock) bool {
			// a real signature over this hash, by a key that is not the account's; the public key field stays as it is
			kp, _ := someKey(c)
			if kp.Address == b.Address {
				return false
			}
			b.Signature = kp.Sign(b.Hash.Bytes())
			return true
		}},
		{"signature-and-key-of-some-key", func(c *Ctx, b *nom.AccountBlock) bool {
			kp, _ := someKey(c)
			if kp.Address == b.Address {
				return false
			}
			b.Signature, b.PublicKey = kp.Sign(b.Hash.Bytes()), cp(kp.Public)
			return true
		}},
		{"signature-and-key-random", func(c *Ctx, b *nom.AccountBlock) bool {
			b.Signature, b.PublicKey = randBytes(c, 64), randBytes(c, 32)
			return true
		}},
		{"signature-of-another-block", func(c *Ctx, b *nom.AccountBlock) bool {
			// a genuine signature of the account's own key - over other bytes
			kp := keyOf(b.Address)
			if kp == nil {
				return false
			}
			other := b.Hash
			other[c.R.Intn(len(other))] ^= 1
			b.Signature = kp.Sign(other.Bytes())
			return true
		}},
	}
}

// pickStateVariant: half the time one of the directed key-material variants, else the generic family over the uncovered
// fields named in `fields`
func pickStateVariant(c *Ctx, b *nom.AccountBlock, fields []string) variantKind {
	kv := keyVariants()
	if len(fields) == 0 || c.R.Intn(2) == 0 {
		return kv[c.R.Intn(len(kv))]
	}
	fvs := fieldVariantsOf(b, fields)
	fv := fvs[c.R.Intn(len(fvs))]
	return variantKind{fv.name(), func(c *Ctx, x *nom.AccountBlock) bool { return applyFieldMut(c, x, fv.field, fv.mut) }}
}

func withoutStr(l []string, s string) []string {
	var out []string
	for _, x := range l {
		if x != s {
			out = append(out, x)
		}
	}
	return out
}

// sameStoredBytes: what the follower holds under the hash of b (and of b's descendants) against the original
func sameStoredBytes(f *zFollower, b *nom.AccountBlock) (ok bool, what string) {
	all := append([]*nom.AccountBlock{b}, b.DescendantBlocks...)
	for i, o := range all {
		hb, _ := f.ch.GetFrontierAccountStore(o.Address).ByHash(o.Hash)
		if hb == nil {
			continue
		}
		x, _ := hb.Serialize()
		y, _ := o.Serialize()
		if !bytes.Equal(x, y) || ownABHash(hb) != hb.Hash {
			role := "block"
			if i > 0 {
				role = fmt.Sprintf("descendant %d", i-1)
			}
			if bytes.Equal(x, y) {
				role += " (does not hash to its hash under the statement's pre-image)"
			}
			return false, fmt.Sprintf("%s %s/%d hash %s: original %d bytes (public key %x, signature %x, changes hash %s, base/total plasma %d/%d), stored %d bytes (public key %x, signature %x, changes hash %s, base/total plasma %d/%d)",
				role, addrName(o.Address), o.Height, h8(o.Hash), len(y), []byte(o.PublicKey), o.Signature, h8(o.ChangesHash), o.BasePlasma, o.TotalPlasma,
				len(x), []byte(hb.PublicKey), hb.Signature, h8(hb.ChangesHash), hb.BasePlasma, hb.TotalPlasma)
		}
	}
	return true, ""
}

// uncommittedSorted: the producer's pool in a reproducible order (by address, then height)
func uncommittedSorted(a *Node) []*nom.AccountBlock {
	blocks := a.Chain().GetAllUncommittedAccountBlocks()
	sort.SliceStable(blocks, func(i, j int) bool {
		if c := bytes.Compare(blocks[i].Address.Bytes(), blocks[j].Address.Bytes()); c != 0 {
			return c < 0
		}
		return blocks[i].Height < blocks[j].Height
	})
	return blocks
}

// contractGossipVariants: family 1. The follower is at the producer's height; the producer's pool holds the generated
// contract receives of the calls the last momentum confirmed.
func contractGossipVariants(c *Ctx, a *Node, f *zFollower, abFields []string, fail func(string, ...interface{})) {
	if f.Height() != a.Height() {
		return
	}
	done := map[types.Address]bool{}
	if abFields == nil {
		for _, b := range uncommittedSorted(a) {
			abFields = abUncoveredFields(b)
			break
		}
	}
	for _, b := range uncommittedSorted(a) {
		if b.BlockType != nom.BlockTypeContractReceive || !types.IsEmbeddedAddress(b.Address) || done[b.Address] {
			continue
		}
		if f.ch.GetPatch(b.Address, b.Identifier()) != nil {
			continue
		}
		c.Hit("contract-gossip-candidate")
		tries := 1 + c.R.Intn(3)
		for t := 0; t < tries; t++ {
			v := cloneBlock(b)
			target, where := v, "receive"
			if len(v.DescendantBlocks) > 0 && c.R.Intn(3) == 0 {
				k := c.R.Intn(len(v.DescendantBlocks))
				target, where = v.DescendantBlocks[k], "descendant"
			}
			vk := pickStateVariant(c, target, abFields)
			if !vk.f(c, target) {
				continue
			}
			if v = rewireBlock(v); v == nil || v.Hash != b.Hash {
				continue
			}
			pre := accBefore(f, b, v)
			gerr := f.Gossip([]*nom.AccountBlock{v})
			res := "accepted"
			if gerr != nil {
				res = "rejected"
			}
			accEmit(c, f, "contract", where, vk.name, pre, b, gerr)
			c.Emit("variant contract-gossip %s %s => %s", where, vk.name, res)
			c.Hit("contract-gossip-" + where + "-" + vk.name + "-" + res)
			if gerr == nil {
				if ok, what := sameStoredBytes(f, b); !ok {
					fail("C13: a variant (%s on the %s) of the generated contract block %s/%d with the same hash %s, delivered by gossip before the honest copy, was accepted by a follower and is stored with different bytes than the original: %s",
						vk.name, where, addrName(b.Address), b.Height, h8(b.Hash), what)
					done[b.Address] = true
				}
				break // the follower holds a block under this hash now: further copies are skipped
			}
		}
		// the honest copy (skipped when a block with this hash is held); without it the later receives of this contract do not link
		if c.R.Intn(2) == 0 {
			if err := f.Gossip([]*nom.AccountBlock{cloneBlock(b)}); err != nil {
				c.Hit("contract-gossip-honest-refused")
				done[b.Address] = true
			} else {
				c.Hit("contract-gossip-honest-accepted")
			}
		} else {
			done[b.Address] = true
		}
	}
}

// variantsAfterReorg: family 2, at the end of a history. Producer, follower f and reference follower are at one height.
// Returns false when the history must stop (a failure was reported or the nodes are no longer comparable).
//
// pick == nil: the variants are those of the uncovered fields (pickStateVariant); otherwise pick chooses the variant of the
// lost block (the covered class of s_variants_covered.go passes a picker that walks through every covered field) and
// extraTries more variants are presented per lost block.
func variantsAfterReorg(c *Ctx, a *Node, f, ref *zFollower, abFields []string, fail func(string, ...interface{}), pick func(c *Ctx, b *nom.AccountBlock) variantKind, extraTries int) bool {
	H := a.Height()
	if f.Height() != H || ref.Height() != H {
		return true
	}
	st := a.Chain().GetFrontierMomentumStore()
	base, err := st.GetFrontierMomentum()
	if err != nil {
		return true
	}
	detailedAt := func(h uint64) *nom.DetailedMomentum {
		s := a.Chain().GetFrontierMomentumStore()
		m, _ := s.GetMomentumByHeight(h)
		if m == nil {
			return nil
		}
		dm, _ := s.PrefetchMomentum(m)
		return dm
	}
	users := []types.Address{g.User1.Address, g.User2.Address, g.User3.Address, g.User4.Address, g.User5.Address}
	perm := c.R.Perm(len(users))
	uPool, uConf, uSide := users[perm[0]], users[perm[1]], users[perm[2]]
	send := func(from types.Address) *nom.AccountBlock {
		return &nom.AccountBlock{BlockType: nom.BlockTypeUserSend, Address: from, ToAddress: users[c.R.Intn(len(users))], TokenStandard: types.ZnnTokenStandard, Amount: big.NewInt(int64(1 + c.R.Intn(1000)))}
	}
	// B: signed now, on top of the common state, published later; acknowledges a momentum both branches share
	var B *nom.AccountBlock
	if p := safely(func() {
		tx, e := a.Sup.GenerateFromTemplate(send(uPool), keyOf(uPool).Signer)
		if e == nil {
			B = tx.Block
		}
	}); p != "" || B == nil {
		return true
	}
	// B2: confirmed by branch a's momentum H+1
	B2, err := a.Submit(send(uConf))
	if err != nil {
		return true
	}
	if _, err := a.Momentum(); err != nil {
		return true
	}
	mA := detailedAt(H + 1)
	if mA == nil {
		return true
	}
	// the producer goes back and builds the longer branch b (the pool is emptied by the rollback)
	var rerr error
	if p := safely(func() {
		ins := a.Chain().AcquireInsert("zvh variants reorg")
		rerr = a.Chain().RollbackTo(ins, base.Identifier())
		ins.Unlock()
	}); p != "" || rerr != nil {
		fail("variants reorg: producer rollback to %d failed: %v %s", H, rerr, p)
		return false
	}
	if _, err := a.Submit(send(uSide)); err != nil {
		return false
	}
	extra := 2 + c.R.Intn(2)
	for i := 0; i < extra; i++ {
		if _, err := a.Momentum(); err != nil {
			return false
		}
	}
	var branchB []*nom.DetailedMomentum
	for h := H + 1; h <= a.Height(); h++ {
		branchB = append(branchB, detailedAt(h))
	}
	if branchB[0].Momentum.Hash == mA.Momentum.Hash {
		c.Hit("reorg-no-fork")
		return false
	}
	// follower f: branch a, the honest B by gossip (verified, pooled), then the reorganisation
	if _, err := f.InsertChain([]*nom.DetailedMomentum{mA}); err != nil {
		fail("variants reorg: follower refuses the producer's momentum %d (branch a): %v", H+1, err)
		return false
	}
	if err := f.Gossip([]*nom.AccountBlock{cloneBlock(B)}); err != nil {
		c.Hit("reorg-honest-B-refused")
		return false
	}
	if _, err := f.InsertChain(branchB); err != nil {
		fail("variants reorg: follower at branch a (height %d) refuses the longer branch b (%d momentums from height %d): %v", H+1, len(branchB), H+1, err)
		return false
	}
	if f.Height() != a.Height() {
		c.Hit("reorg-not-switched")
		return false
	}
	c.Hit("reorg")
	poisoned := false
	var lieInMomentum *nom.AccountBlock // a variant to be served inside the confirming momentum instead
	for bi, b := range []*nom.AccountBlock{B, B2} {
		role := []string{"pooled", "confirmed"}[bi]
		if f.ch.GetPatch(b.Address, b.Identifier()) != nil {
			c.Hit("reorg-" + role + "-block-still-held")
			continue
		}
		c.Hit("reorg-" + role + "-block-lost")
		fields := withoutStr(abFields, "ChangesHash") // known finding F9 is judged by the per-round part
		tries := 4 + c.R.Intn(4) + extraTries
		for t := 0; t < tries && !poisoned; t++ {
			v := cloneBlock(b)
			var vk variantKind
			if pick != nil {
				vk = pick(c, v)
			} else {
				vk = pickStateVariant(c, v, fields)
			}
			if !vk.f(c, v) {
				continue
			}
			if v = rewireBlock(v); v == nil || v.Hash != b.Hash {
				continue
			}
			if lieInMomentum == nil && c.R.Intn(5) == 0 {
				lieInMomentum = v
				c.Hit("reorg-variant-kept-for-momentum-" + vk.name)
				continue
			}
			gerr := f.Gossip([]*nom.AccountBlock{v})
			res := "accepted"
			if gerr != nil {
				res = "rejected"
			}
			c.Emit("variant after-reorg %s %s => %s", role, vk.name, res)
			c.Hit("after-reorg-" + role + "-" + vk.name + "-" + res)
			if gerr == nil {
				if ok, what := sameStoredBytes(f, b); !ok {
					fail("C13: the follower verified block %s/%d (hash %s, %s) and lost it in a reorganisation (branch a height %d -> branch b height %d); a variant (%s) with the same hash delivered afterwards by gossip was accepted and is stored with different bytes than the original: %s",
						addrName(b.Address), b.Height, h8(b.Hash), role, H+1, a.Height(), vk.name, what)
					poisoned = true
				}
				break
			}
		}
	}
	if poisoned {
		return false
	}
	// the honest blocks reach everybody; the producer confirms them on branch b
	for _, b := range []*nom.AccountBlock{B, B2} {
		if lieInMomentum == nil || lieInMomentum.Hash != b.Hash {
			if err := f.Gossip([]*nom.AccountBlock{cloneBlock(b)}); err != nil {
				c.Hit("reorg-honest-regossip-refused")
			}
		}
		if err := a.SubmitExternal(cloneBlock(b)); err != nil {
			c.Hit("reorg-producer-refuses-block-on-branch-b")
		}
	}
	if _, err := a.Momentum(); err != nil {
		return false
	}
	H3 := a.Height()
	if lieInMomentum != nil {
		if dm := detailedAt(H3); dm != nil {
			blocks := append([]*nom.AccountBlock{}, dm.AccountBlocks...)
			idx := -1
			for i, x := range blocks {
				if x.Hash == lieInMomentum.Hash {
					idx = i
				}
			}
			if idx >= 0 && f.ch.GetPatch(lieInMomentum.Address, lieInMomentum.Identifier()) == nil {
				honest := blocks[idx]
				blocks[idx] = lieInMomentum
				_, lerr := f.InsertChain([]*nom.DetailedMomentum{{Momentum: dm.Momentum, AccountBlocks: blocks}})
				res := "accepted"
				if lerr != nil {
					res = "rejected"
				}
				c.Emit("variant after-reorg in-momentum => %s", res)
				c.Hit("after-reorg-in-momentum-" + res)
				if ok, what := sameStoredBytes(f, honest); !ok {
					fail("C13: the follower verified block %s/%d (hash %s) and lost it in a reorganisation; a variant with the same hash served afterwards inside momentum %d (InsertChain: %v) is stored with different bytes than the original: %s",
						addrName(honest.Address), honest.Height, h8(honest.Hash), H3, lerr, what)
					return false
				}
			}
		}
	}
	for _, to := range []*zFollower{ref, f} {
		var batch []*nom.DetailedMomentum
		for h := to.Height() + 1; h <= H3; h++ {
			batch = append(batch, detailedAt(h))
		}
		if len(batch) == 0 {
			continue
		}
		if _, err := to.InsertChain(batch); err != nil {
			who := "the reference follower"
			if to == f {
				who = "the follower that lost verified blocks in a reorganisation and was then offered variants of them"
			}
			fail("C13/C02: %s refuses the producer's momentums %d..%d of branch b: %v", who, batch[0].Momentum.Height, H3, err)
			return false
		}
	}
	if f.StateDigest() != ref.StateDigest() {
		fail("C13/C02: after a reorganisation and variants of the blocks it lost, the follower holds a different ledger state than the reference follower at height %d", H3)
		return false
	}
	c.Hit("reorg-history")
	return true
}
