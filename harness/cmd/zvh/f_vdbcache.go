package main

// Facts for C07 / C06 (the two-level rollback-overlay cache of ldbManager, Model/VersionedCache.lean), read from the AST of
// the working tree of common/db:
//
//   - every access to the fields l1Cache / l2Cache anywhere in the package (test files and verif-tagged export files left out):
//     (function, field, what is done with it) - so "the only writers of the caches are Get (Add), Pop (Purge) and Stop (= nil)"
//     is a statement about a generated table;
//   - Get: the cache calls, the assignments of toIdentifier / rawChanges and the calls of getRollback / ApplyWithoutOverride,
//     each with the chain of if / for conditions that guards it (lookup order l1 then l2; filed under frontierIdentifier; which
//     level); the header of the extension loop;
//   - Pop: the top-level statements in source order, and the two booleans the MODEL uses: does Pop purge l1 / l2
//     unconditionally (a top-level statement, after the leveldb write);
//   - Stop: the top-level statements;
//   - whether the three cache parameters are constants (they cannot be shortened by a hook then).

import (
	"fmt"
	"go/ast"
	"go/parser"
	"go/token"
	"os"
	"path/filepath"
	"sort"
	"strings"
)

func init() {
	factGens = append(factGens, func(repo string) (*factFile, error) {
		f := newFactFile("VdbCache")
		dir := filepath.Join(repo, "common/db")
		ents, err := os.ReadDir(dir)
		if err != nil {
			return nil, err
		}
		var names []string
		for _, e := range ents {
			n := e.Name()
			if e.IsDir() || !strings.HasSuffix(n, ".go") || strings.HasSuffix(n, "_test.go") || strings.HasSuffix(n, "_verif.go") {
				continue
			}
			names = append(names, n)
		}
		sort.Strings(names)

		// ---- every access to the cache fields in the package ---------------------------------------------------------
		var accesses [][3]string
		constParams := map[string]bool{}
		for _, n := range names {
			fset := token.NewFileSet()
			pf, err := parser.ParseFile(fset, filepath.Join(dir, n), nil, 0)
			if err != nil {
				return nil, err
			}
			for _, d := range pf.Decls {
				if gd, ok := d.(*ast.GenDecl); ok && gd.Tok == token.CONST {
					for _, sp := range gd.Specs {
						if vs, ok := sp.(*ast.ValueSpec); ok {
							for _, id := range vs.Names {
								constParams[id.Name] = true
							}
						}
					}
				}
				fd, ok := d.(*ast.FuncDecl)
				if !ok || fd.Body == nil {
					continue
				}
				fname := fd.Name.Name
				if fd.Recv != nil && len(fd.Recv.List) == 1 {
					t := fd.Recv.List[0].Type
					if s, ok := t.(*ast.StarExpr); ok {
						t = s.X
					}
					if id, ok := t.(*ast.Ident); ok {
						fname = id.Name + "." + fname
					}
				}
				var stack []ast.Node
				ast.Inspect(fd, func(nd ast.Node) bool {
					if nd == nil {
						stack = stack[:len(stack)-1]
						return true
					}
					stack = append(stack, nd)
					field := ""
					switch x := nd.(type) {
					case *ast.SelectorExpr:
						if x.Sel.Name == "l1Cache" || x.Sel.Name == "l2Cache" {
							field = x.Sel.Name
						}
					case *ast.KeyValueExpr:
						if id, ok := x.Key.(*ast.Ident); ok && (id.Name == "l1Cache" || id.Name == "l2Cache") {
							accesses = append(accesses, [3]string{fname, id.Name, "init " + exprStr(fset, x.Value)})
						}
					}
					if field == "" {
						return true
					}
					what := "read"
					if len(stack) >= 2 {
						switch p := stack[len(stack)-2].(type) {
						case *ast.SelectorExpr: // m.l1Cache.Method
							what = p.Sel.Name
							if len(stack) >= 3 {
								if ce, ok := stack[len(stack)-3].(*ast.CallExpr); ok && ce.Fun == p {
									args := make([]string, len(ce.Args))
									for i, a := range ce.Args {
										args[i] = exprStr(fset, a)
									}
									what = p.Sel.Name + "(" + strings.Join(args, ", ") + ")"
								}
							}
						case *ast.AssignStmt:
							for i, l := range p.Lhs {
								if l == nd && len(p.Rhs) == len(p.Lhs) {
									what = p.Tok.String() + " " + exprStr(fset, p.Rhs[i])
								}
							}
						}
					}
					accesses = append(accesses, [3]string{fname, field, what})
					return true
				})
			}
		}
		f.raw("-- common/db (AST of the working tree): every access to the fields l1Cache / l2Cache: (function, field, access)\n")
		f.raw("%s", leanTriples("VdbCacheAccesses", accesses))
		isConst := constParams["l1CacheSize"] && constParams["l2CacheSize"] && constParams["maximumCacheHeightDifference"]
		f.raw("-- l1CacheSize, l2CacheSize, maximumCacheHeightDifference are declared in a const block\n")
		f.raw("def VdbCacheParamsAreConst : Bool := %v\n", isConst)

		// ---- ldbManager.Get ------------------------------------------------------------------------------------------
		fset, pf, err := parseFile(repo, "common/db/versioned_db.go")
		if err != nil {
			return nil, err
		}
		get := findFunc(pf, "ldbManager", "Get")
		if get == nil || get.Body == nil {
			return nil, fmt.Errorf("common/db/versioned_db.go: ldbManager.Get not found")
		}
		_, assigns, calls := cacheShape(fset, get, "Get", map[string]bool{"toIdentifier": true, "rawChanges": true},
			func(fn string) bool {
				return strings.Contains(fn, ".l1Cache.") || strings.Contains(fn, ".l2Cache.") ||
					fn == "m.getRollback" || fn == "ApplyWithoutOverride" || fn == "newMemDBInternal"
			})
		f.raw("-- ldbManager.Get: (function, assignment / call, guarding conditions)\n")
		f.raw("%s", leanTriples("VdbGetAssigns", assigns))
		f.raw("%s", leanTriples("VdbGetCalls", calls))
		var loops []string
		walkGuarded(fset, get.Body.List, nil, func(s ast.Stmt, guards []string) {
			if fs, ok := s.(*ast.ForStmt); ok {
				loops = append(loops, strings.Join(guards, " && ")+" => "+stmtHead(fset, fs))
			}
		})
		f.strList("VdbGetLoops", loops)

		// ---- ldbManager.Pop / Stop -----------------------------------------------------------------------------------
		pop := findFunc(pf, "ldbManager", "Pop")
		if pop == nil || pop.Body == nil {
			return nil, fmt.Errorf("common/db/versioned_db.go: ldbManager.Pop not found")
		}
		var popStmts []string
		writeAt, p1At, p2At := 0, 0, 0 // 1-based positions among the top-level statements, 0 = not a top-level statement
		for _, s := range pop.Body.List {
			if isLogCall(fset, s) {
				continue
			}
			h := stmtHead(fset, s)
			popStmts = append(popStmts, h)
			if strings.Contains(h, "m.ldb.Write(") && writeAt == 0 {
				writeAt = len(popStmts)
			}
			if h == "m.l1Cache.Purge()" && p1At == 0 {
				p1At = len(popStmts)
			}
			if h == "m.l2Cache.Purge()" && p2At == 0 {
				p2At = len(popStmts)
			}
		}
		// a return between the write and the purges that is not the error return of the write would skip them
		earlyReturn := false
		for i, s := range pop.Body.List {
			if _, ok := s.(*ast.ReturnStmt); ok && i != len(pop.Body.List)-1 {
				earlyReturn = true
			}
		}
		f.raw("-- ldbManager.Pop: top-level statements (heads), in source order\n")
		f.strList("VdbPopStmts", popStmts)
		f.raw("-- used by Model/VersionedCache.lean: Pop purges the level unconditionally (top-level statement after the leveldb write)\n")
		f.raw("def VdbPopPurgesL1 : Bool := %v\n", writeAt > 0 && p1At > writeAt && !earlyReturn)
		f.raw("def VdbPopPurgesL2 : Bool := %v\n", writeAt > 0 && p2At > writeAt && !earlyReturn)
		stop := findFunc(pf, "ldbManager", "Stop")
		if stop == nil || stop.Body == nil {
			return nil, fmt.Errorf("common/db/versioned_db.go: ldbManager.Stop not found")
		}
		var stopStmts []string
		for _, s := range stop.Body.List {
			stopStmts = append(stopStmts, stmtHead(fset, s))
		}
		f.strList("VdbStopStmts", stopStmts)
		return f, nil
	})
}
