package main

import (
	"fmt"
	"go/ast"
	"go/parser"
	"go/token"
	"os"
	"path/filepath"
	"sort"
	"strings"

	"github.com/zenon-network/go-zenon/consensus"
	"github.com/zenon-network/go-zenon/vm/constants"
)

// Facts for the epoch-cursor part of C11 (Gen/RewardsNode.lean):
//   * the live epoch duration, Update rate limit and election tick,
//   * from the AST of every non-test file of vm/embedded/implementation: which functions move the epoch cursor, which
//     credit rewards, which touch RewardDeposit — the model (Model/EpochCursor.lean) names exactly these; a new cursor
//     mover or deposit writer changes the generated list and breaks the theorems of Props/C11NodeGen.lean,
//   * the shape of the loop of updateLiquidityRewards (the cap test shares the `if` whose init statement already advanced
//     the cursor — finding F14) and of the other update*Rewards functions.

func rnFuncName(fd *ast.FuncDecl) string {
	if fd.Recv != nil && len(fd.Recv.List) == 1 {
		t := fd.Recv.List[0].Type
		if s, ok := t.(*ast.StarExpr); ok {
			t = s.X
		}
		if id, ok := t.(*ast.Ident); ok {
			return id.Name + "." + fd.Name.Name
		}
	}
	return fd.Name.Name
}

func init() {
	factGens = append(factGens, func(repo string) (*factFile, error) {
		f := newFactFile("RewardsNode")
		f.raw("-- consensus/consensus.go EpochDuration, vm/constants: UpdateMinNumMomentums, election tick = BlockTime * NodeCount\n")
		f.raw("def EpochDurationSec : Int := %d\n", int64(consensus.EpochDuration.Seconds()))
		f.nat("UpdateMinNumMomentums", constants.UpdateMinNumMomentums)
		f.raw("def ElectionTickSec : Int := %d\n", constants.ConsensusConfig.BlockTime*int64(constants.ConsensusConfig.NodeCount))

		dir := filepath.Join(repo, "vm", "embedded", "implementation")
		ents, err := os.ReadDir(dir)
		if err != nil {
			return nil, err
		}
		callers := map[string][]string{} // callee -> functions calling it
		var cursorAssigners []string
		watched := []string{"checkAndPerformUpdateEpoch", "addReward", "GetRewardDeposit", "GetRewardDepositHistory", "GetLastEpochUpdate",
			"computeDetailedPillarReward", "computeStakeRewardsForEpoch", "computeSentinelRewardsForEpoch", "computeLiquidityRewardsForEpoch", "computeLiquidityStakeRewardsForEpoch"}
		var loops []string
		liqInit, liqCond := "", ""
		for _, e := range ents {
			nm := e.Name()
			if e.IsDir() || !strings.HasSuffix(nm, ".go") || strings.HasSuffix(nm, "_test.go") || strings.HasSuffix(nm, "_verif.go") {
				continue
			}
			fs := token.NewFileSet()
			af, err := parser.ParseFile(fs, filepath.Join(dir, nm), nil, 0)
			if err != nil {
				return nil, err
			}
			for _, d := range af.Decls {
				fd, ok := d.(*ast.FuncDecl)
				if !ok || fd.Body == nil {
					continue
				}
				name := rnFuncName(fd)
				seen := map[string]bool{}
				assigns := false
				ast.Inspect(fd.Body, func(n ast.Node) bool {
					switch x := n.(type) {
					case *ast.CallExpr:
						cn := ""
						switch fn := x.Fun.(type) {
						case *ast.SelectorExpr:
							cn = fn.Sel.Name
						case *ast.Ident:
							cn = fn.Name
						}
						for _, w := range watched {
							if cn == w && !seen[w] {
								seen[w] = true
								callers[w] = append(callers[w], name)
							}
						}
					case *ast.AssignStmt:
						for _, l := range x.Lhs {
							if s, ok := l.(*ast.SelectorExpr); ok && s.Sel.Name == "LastEpoch" {
								assigns = true
							}
						}
					case *ast.IncDecStmt:
						if s, ok := x.X.(*ast.SelectorExpr); ok && s.Sel.Name == "LastEpoch" {
							assigns = true
						}
					}
					return true
				})
				if assigns {
					cursorAssigners = append(cursorAssigners, name)
				}
				// shape of the update*Rewards functions: "<name>:<loop|once>:<condition of the if whose init calls checkAndPerformUpdateEpoch>"
				if strings.HasPrefix(fd.Name.Name, "update") && strings.HasSuffix(fd.Name.Name, "Rewards") {
					shape := "once"
					var ifs *ast.IfStmt
					ast.Inspect(fd.Body, func(n ast.Node) bool {
						switch x := n.(type) {
						case *ast.ForStmt:
							if x.Cond == nil && x.Init == nil && x.Post == nil {
								shape = "loop"
							} else {
								shape = "other-loop"
							}
						case *ast.RangeStmt:
							shape = "other-loop"
						case *ast.IfStmt:
							if as, ok := x.Init.(*ast.AssignStmt); ok && len(as.Rhs) == 1 && ifs == nil {
								if ce, ok := as.Rhs[0].(*ast.CallExpr); ok {
									if id, ok := ce.Fun.(*ast.Ident); ok && id.Name == "checkAndPerformUpdateEpoch" {
										ifs = x
									}
								}
							}
						}
						return true
					})
					cond := "-"
					if ifs != nil {
						cond = exprString(ifs.Cond)
						if fd.Name.Name == "updateLiquidityRewards" {
							liqCond = cond
							if as, ok := ifs.Init.(*ast.AssignStmt); ok {
								liqInit = exprString(as.Lhs[0]) + " " + as.Tok.String() + " " + exprString(as.Rhs[0])
							}
						}
					}
					loops = append(loops, fmt.Sprintf("%s:%s:%s", fd.Name.Name, shape, cond))
				}
			}
		}
		sort.Strings(cursorAssigners)
		sort.Strings(loops)
		f.raw("-- vm/embedded/implementation/*.go (non-test): functions assigning to a field `LastEpoch`\n")
		f.strList("CursorAssigners", cursorAssigners)
		for _, w := range watched {
			l := callers[w]
			sort.Strings(l)
			f.raw("-- functions calling %s\n", w)
			f.strList("CallersOf_"+w, l)
		}
		f.raw("-- update*Rewards functions: name : bare `for {}` loop or single step : condition of the `if` whose init statement calls checkAndPerformUpdateEpoch\n")
		f.strList("UpdateRewardsShapes", loops)
		f.raw("-- updateLiquidityRewards: init statement and condition of that `if` (the cap is tested after the cursor was advanced)\n")
		f.raw("def LiqOriginIfInit : String := %q\n", liqInit)
		f.raw("def LiqOriginIfCond : String := %q\n", liqCond)
		return f, nil
	})
}
